"""C23 — IR -> WebAssembly translation preserves behaviour (DESIGN §4 C23).  LEVEL translation_validation.

Coq side (Props/C23.v):
  * V   Spec/StructSpec.v + Model/ShapeCheck.v + Proofs/C23_shape.v : verified validator check_shape for the shape
        trees of ppci/graph/relooper.py (unbounded: every CFG, every shape, every branch oracle)
  * I   Gen/Tab_ir2wasm.v : (IR binop x IR type) -> wasm opcode and (condition x type) -> compare opcode, exported on
        every run by compiling one-instruction IR functions with the real ir_to_wasm and reading the emitted opcode
        (cross-checked against IrToWasmCompiler.binop_map); Proofs/C23_ops.v: WasmNumSpec of the selected opcode
        = IRSem.eval_binop / eval_cond on in-range operands (exact rows), or up to re-wrapping (sub-word rows)
  * H   Model/Ir2WasmOps.v place/mem_image : placement of initialised globals; Proofs/C23_data.v
  * H   Spec/WasmCtlSpec.v + Model/ShapeCompile.v + Proofs/C23_doshape.v : do_shape as a function into a structured
        wasm control language (block/loop/if/br with label-stack semantics); the emitted skeleton executes like the
        shape tree (c23_do_shape_exec) and so follows the CFG (c23_do_shape_sound); tied by comparing the token stream
  * I/H Model/Ir2WasmPost.v + Proofs/C23_post.v, C23_table2.v : re-wrapping after narrow arithmetic (emit_wrap) and
        the integer cast table (conversion opcode + re-wrapping), both exported by compiling one-instruction functions
Validated only (no wasm reference engine in the sandbox, ppci's python wasm target is the executor): the rest of
do_tree (locals, calls, loads/stores, constants, unary minus, floats), function pointers, the end-to-end
differentials (irgen modules vs tools/irsem_py.py; trace-hash functions over generated CFGs vs the CFG walk).
"""
import contextlib
import hashlib
import io
import itertools
import os
import sys

from vlib import OkV, Diag, Internal, TieBroken, REPO, VERIF

LEVEL = 'translation_validation'
RULE = ('programs = CFGs given to find_structure (all with <= 3 blocks, a fixed stride of the 4-block ones with a '
        'predecessor-free entry, seeded random 5..7-block ones, structured and arbitrary) + one-instruction operator '
        'and cast functions + generated modules with globals + irgen modules run end to end + trace-hash functions over '
        'generated CFGs (result = hash of the executed block trace, argument = branch oracle); a case is distinct non-trivial when '
        'the CFG/program text is new and ppci did not reject it; disagreements_checked = accepted shapes whose block '
        'trace was compared with the CFG walk under all 2^8 branch oracles + operator/e2e result comparisons')
EXPLANATION = ('Verified validator: check_shape g s = true implies that, for every branch oracle and every fuel, the '
               'structured execution of the shape tree (semantics of do_shape: if/else, block+loop, br to loop start/end) '
               'visits exactly the blocks of the CFG walk from the entry (complete trace on return, a prefix of >= fuel '
               'blocks otherwise). Every shape find_structure returns for the generated CFGs is run through the Coq '
               'checker and through an independent Python trace comparison. Operator table: for every exported row the '
               'selected wasm opcode equals the IR operation on in-range operands (proved for all operands) except the '
               'rows listed as inexact (sub-word / u32 + - * << are only correct after re-wrapping: proved; ptr / % >> '
               'use signed opcodes: refuted); CJMP comparisons proved for all integer types (ptr: == != only). Data '
               'segments: the model of the placement (consecutive from 1000, no alignment) is proved to give a memory '
               'image equal to the zero-padded initial contents at disjoint addresses. NOT proved (validated by '
               'execution on ppci\'s own python wasm target only): instruction selection beyond binops/compares, '
               'locals, calls, memory access (loads/stores), constants, unary operators, floats, function pointers. '
               'Added in the deepening round: do_shape itself is modelled as a compiler into a structured wasm control '
               'language with label-stack semantics and proved to execute like the shape tree for all shapes, oracles and '
               'fuel (so the emitted br depths are right and, with check_shape, the wasm control flow follows the CFG); the '
               're-wrapping sequences after narrow + - * << (present after fixes/C23-rewrap-narrow.diff) make those rows '
               'exact (proved), and the whole table exact when rewrap_complete evaluates to true; integer casts: conversion '
               'opcode + re-wrapping equals the IR cast for every row classified good (proved), the remaining rows '
               '(cast_bad_rows) are refuted or recorded findings; c23_cast_exact covers all casts when cast_bad_rows is empty. '
               'Loads/stores: for every exported (type, opcode) row the wasm load returns the representation of what '
               'the IR load reads from the same bytes and the wasm store writes the bytes the IR store writes '
               '(WasmMemSpec.mem_load/mem_store vs le_decode/wrap_ty/le_encode; offset 0); the memory layouts themselves '
               '(IRSem association memory vs flat wasm memory) are not related by a theorem.')
TRUSTED = ['export of CFG/shape terms (tools/props/c23.py: cfg_of_function, shape_to_coq) and of the operator table',
           'Spec/StructSpec.v reading of do_shape (if/else/end, block+loop, br) as structured semantics',
           'Spec/WasmNumSpec.v (owned by C22) and Spec/IRSem.v (IR hub) as the two reference semantics',
           'ppci.wasm.instantiate(target=python) as the only wasm executor available (C22 validates its integer ops)',
           'tools/irsem_py.py as executable IR reference for the end-to-end differential']
ASSUMPTIONS = ['ptr_bytes = 4 (wasm32) in the IR semantics used for the operator theorems',
               'operands of an operator are in the range of their IR type (the invariant the generated code needs)',
               'globals: 0 <= amount and len(initial bytes) <= amount (IR well-formedness)']
MANIFEST = {
    'text': 'translation validation: a Coq-verified checker (check_shape, soundness proved for all CFGs, shapes, branch '
            'oracles) decides for every shape tree that ppci.graph.relooper.find_structure returns on the generated CFGs '
            'whether structured execution follows exactly the CFG; unbounded Coq theorems relate the wasm opcode ppci2wasm '
            'selects for each (IR operator, type), each CJMP comparison and each integer cast to IRSem via WasmNumSpec (exact '
            'rows, rows exact once re-wrapped, refuted rows listed explicitly), the br-depth arithmetic of do_shape to the '
            'shape semantics (structured wasm control language, all shapes), and the placement of initialised globals '
            'to the memory image. The rest of the IR->wasm path is validated by running ir_to_wasm output on ppci\'s own '
            'python wasm target against an independent IR interpreter',
    'note': 'no wasm reference engine exists in the sandbox; the executor is ppci\'s python target. Genuine defects found: '
            'find_structure returns wrong structurings (nested loops, entry in a loop) instead of rejecting -> fix = port of '
            'the verified validator into relooper.find_structure; create_wasm_module builds components.Data with stale '
            'arguments (every module with an initialised global or literal is rejected) -> fix (both applied); sub-word/u32 '
            'arithmetic and narrowing casts are never re-wrapped -> fixes/C23-rewrap-narrow.diff; ptr uses signed / % >> '
            'and compares, same-size sign casts are elided, i32->u64 zero-extends (known findings). Loads/stores: every exported row proved against '
            'WasmMemSpec/IRSem byte encodings (c23_loadstore_table_sound); all casts exact once cast_bad_rows is empty '
            '(c23_cast_exact, after fixes/C23-subword-sign-cast.diff and C23-cast-i32-u64-sign-extend.diff). Unary operators: every NEG row proved '
            '(c23_unop_table_exact; INV and unsigned NEG are rejected by ppci). Constants have no theorem; ptr signedness is not repaired (ptr is selected as I32 before do_tree)',
    'technique': 'verified validator + reflected operator table + differential execution',
}

# ------------------------------------------------------------------ helpers
QUIET = io.StringIO()


def quiet():
    QUIET.seek(0)
    QUIET.truncate()
    return contextlib.redirect_stdout(QUIET)


class WasmTimeout(Exception):
    pass


@contextlib.contextmanager
def time_limit(seconds):
    """miscompiled control flow may never terminate: bound every call into generated code"""
    import signal

    def handler(signum, frame):
        raise WasmTimeout()
    old = signal.signal(signal.SIGALRM, handler)
    signal.alarm(seconds)
    try:
        yield
    finally:
        signal.alarm(0)
        signal.signal(signal.SIGALRM, old)


def instantiate_py(w):
    """instantiate on ppci's python wasm target.  All python instances of a process share one runtime heap that only
    grows (see runtime_probe); drop the singleton runtime before its addresses approach 2^31 so that a long run of this
    check is not stopped by that defect of the executor"""
    from ppci.wasm import instantiate
    from ppci.wasm.execution import _python_instance as PI
    holder = PI.get_irpy_rt
    if hasattr(holder, '_instance') and holder._instance.rt.heap_top() > (1 << 30):
        delattr(holder, '_instance')
    return instantiate(w, {}, target='python')


def runtime_probe(ctx):
    """evidence note about the oracle engine: python instances pile up in one process-wide heap; without the
    workaround in instantiate_py every instantiate fails in store_i32 after (2^31 - HEAP_START) / growth instantiations"""
    ir, R, ppci2wasm, components = _ppci()
    w = compile_module(binop_module(ir, '+', 'i32'))
    with quiet():
        i1 = instantiate_py(w)
        t1 = i1._py_module.rt.heap_top()
        i2 = instantiate_py(w)
        t2 = i2._py_module.rt.heap_top()
    shared = i1._py_module.rt.heap is i2._py_module.rt.heap
    try:
        i2._py_module.rt.store_i32(t2 - 8, 1 << 31)
        signed_ptr = False
    except Exception:
        signed_ptr = True
    # a limitation of the ORACLE engine (ppci's python wasm target), not of ir_to_wasm: recorded as evidence only;
    # instantiate_py works around it, so it can no longer stop a run of this check
    ctx.cov['stages']['oracle_limitations'] = {
        'python_target_shared_heap': shared, 'growth_per_instance': t2 - t1, 'store_i32_rejects_2^31': signed_ptr,
        'instantiations_until_failure_without_workaround':
            (((1 << 31) - t2) // (t2 - t1)) if t2 > t1 else None,
        'note': 'all python instances of a process share one runtime heap that only grows; instantiate_py recreates '
                'the singleton runtime before the heap passes 2^30'}


def _ppci():
    from vlib import ensure_repo_on_path
    ensure_repo_on_path()
    import ppci  # noqa
    from ppci import ir
    from ppci.graph import relooper
    from ppci.wasm import ppci2wasm, components
    return ir, relooper, ppci2wasm, components


# ---- CFGs as term lists: ('r',) | ('j', t) | ('b', yes, no); block 0 is the entry
def build_function(ir, terms, name='f'):
    f = ir.Procedure(name, ir.Binding.GLOBAL)
    blocks = [ir.Block('b%d' % i) for i in range(len(terms))]
    for b in blocks:
        f.add_block(b)
    f.entry = blocks[0]
    for b, t in zip(blocks, terms):
        if t[0] == 'r':
            b.add_instruction(ir.Exit())
        elif t[0] == 'j':
            b.add_instruction(ir.Jump(blocks[t[1]]))
        else:
            c = ir.Const(1, 'c', ir.i32)
            b.add_instruction(c)
            b.add_instruction(ir.CJump(c, '==', c, blocks[t[1]], blocks[t[2]]))
    return f, blocks


def all_terms(n):
    opts = [('r',)] + [('j', t) for t in range(n)] + [('b', y, no) for y in range(n) for no in range(n)]
    return itertools.product(opts, repeat=n)


def reachable(terms):
    seen, wl = {0}, [0]
    while wl:
        b = wl.pop()
        for t in terms[b][1:]:
            if t not in seen:
                seen.add(t)
                wl.append(t)
    return seen


def random_terms(rng, n):
    out = []
    for i in range(n):
        r = rng.random()
        if r < 0.2:
            out.append(('r',))
        elif r < 0.55:
            out.append(('j', rng.randrange(n)))
        else:
            out.append(('b', rng.randrange(n), rng.randrange(n)))
    if not any(t[0] == 'r' for t in out):
        out[rng.randrange(1, n)] = ('r',)
    return tuple(out)


def structured_terms(rng, budget):
    """CFG of a random structured program (if/else, while with break/continue/return): reducible by construction;
    the entry block has no predecessor"""
    terms = []

    def new():
        terms.append(None)
        return len(terms) - 1

    def gen(cur, depth, loop):
        # returns the open block (to be continued) or None when control never falls through
        k = rng.randrange(6) if depth < 3 and len(terms) < budget else 0
        if k <= 1:
            return cur
        if k == 2:      # if/else
            y, n, j = new(), new(), new()
            terms[cur] = ('b', y, n)
            ey = gen(y, depth + 1, loop)
            en = gen(n, depth + 1, loop)
            for e in (ey, en):
                if e is not None:
                    terms[e] = ('j', j)
            return j
        if k == 3:      # while loop
            h, body, ex = new(), new(), new()
            terms[cur] = ('j', h)
            terms[h] = ('b', body, ex)
            e = gen(body, depth + 1, (h, ex))
            if e is not None:
                terms[e] = ('j', h)
            return ex
        if k == 4 and loop:   # break / continue
            terms[cur] = ('j', loop[rng.randrange(2)])
            return None
        if k == 5:      # early return in one branch
            y, j = new(), new()
            terms[cur] = ('b', y, j) if rng.random() < 0.5 else ('b', j, y)
            terms[y] = ('r',)
            return j
        return cur

    cur = new()
    for _ in range(rng.randrange(1, 4)):
        nxt = gen(cur, 0, None)
        if nxt is None:
            break
        if terms[nxt] is None and nxt != cur:
            cur = nxt
        else:
            cur = nxt
    for i, t in enumerate(terms):
        if t is None:
            terms[i] = ('r',)
    return tuple(terms)


def terms_to_coq(terms):
    def one(t):
        if t[0] == 'r':
            return 'TRet'
        if t[0] == 'j':
            return 'TJmp %d' % t[1]
        return 'TBr %d %d' % (t[1], t[2])
    return '[' + '; '.join(one(t) for t in terms) + ']'


def shape_to_coq(R, s, idx):
    if s is None:
        return 'SNone'
    if isinstance(s, R.BasicShape):
        return '(SBasic %d)' % idx[s.content]
    if isinstance(s, R.SequenceShape):
        return '(SSeq [' + '; '.join(shape_to_coq(R, x, idx) for x in s.shapes) + '])'
    if isinstance(s, R.IfShape):
        return '(SIf %d %s %s)' % (idx[s.content], shape_to_coq(R, s.yes_shape, idx), shape_to_coq(R, s.no_shape, idx))
    if isinstance(s, R.LoopShape):
        return '(SLoop %s)' % shape_to_coq(R, s.body, idx)
    if isinstance(s, R.BreakShape):
        return '(SBreak %d)' % s.level
    if isinstance(s, R.ContinueShape):
        return '(SContinue %d)' % s.level
    raise TieBroken('unknown shape class %r' % type(s).__name__)


# ---- independent oracle: structured block trace vs CFG walk under the same branch decisions
class _Brk(Exception):
    def __init__(self, k):
        self.k = k


class _Cont(Exception):
    def __init__(self, k):
        self.k = k


class _Halt(Exception):
    pass


class _Fuel(Exception):
    pass


def struct_trace(R, s, terms, idx, orc, limit):
    hist = []

    def visit(b):
        hist.append(b)
        if terms[b][0] == 'r':
            raise _Halt()
        if len(hist) >= limit:
            raise _Fuel()

    def ex(s):
        if s is None:
            return
        if isinstance(s, R.BasicShape):
            visit(idx[s.content])
        elif isinstance(s, R.SequenceShape):
            for x in s.shapes:
                ex(x)
        elif isinstance(s, R.IfShape):
            visit(idx[s.content])
            ex(s.yes_shape if orc(len(hist)) else s.no_shape)
        elif isinstance(s, R.LoopShape):
            spins = 0
            while True:
                before = len(hist)
                try:
                    ex(s.body)
                    return
                except _Brk as e:
                    if e.k == 0:
                        return
                    raise _Brk(e.k - 1)
                except _Cont as e:
                    if e.k != 0:
                        raise _Cont(e.k - 1)
                spins = spins + 1 if len(hist) == before else 0
                if spins > 2:
                    raise _Fuel()
        elif isinstance(s, R.BreakShape):
            raise _Brk(s.level)
        elif isinstance(s, R.ContinueShape):
            raise _Cont(s.level)
        else:
            raise TieBroken('unknown shape class')
    try:
        ex(s)
        return hist, 'fell-off-end'
    except _Halt:
        return hist, 'halt'
    except _Fuel:
        return hist, 'fuel'
    except (_Brk, _Cont):
        return hist, 'escaped'


def cfg_trace(terms, orc, limit):
    hist, b = [], 0
    while True:
        hist.append(b)
        t = terms[b]
        if t[0] == 'r':
            return hist, 'halt'
        if len(hist) >= limit:
            return hist, 'fuel'
        if t[0] == 'j':
            b = t[1]
        else:
            b = t[1] if orc(len(hist)) else t[2]


def trace_mismatch(R, s, terms, idx, depth=8):
    for bits in itertools.product((True, False), repeat=depth):
        def orc(i, bits=bits):
            return bits[i % depth]
        c = cfg_trace(terms, orc, depth)
        t = struct_trace(R, s, terms, idx, orc, depth)
        if c != t:
            return {'oracle': [int(x) for x in bits], 'cfg_trace': c[0], 'cfg_end': c[1],
                    'shape_trace': t[0], 'shape_end': t[1]}
    if len(terms) > 4:          # deeper walks for the larger graphs: fixed pseudo-random decision strings
        import random
        r = random.Random(0xC23)
        for _ in range(150):
            bits = [r.random() < 0.5 for _ in range(32)]

            def orc(i, bits=bits):
                return bits[i % 32]
            c = cfg_trace(terms, orc, 48)
            t = struct_trace(R, s, terms, idx, orc, 48)
            if c != t:
                return {'oracle': [int(x) for x in bits], 'cfg_trace': c[0], 'cfg_end': c[1],
                        'shape_trace': t[0], 'shape_end': t[1]}
    return None


def shape_text(R, s, idx):
    return shape_to_coq(R, s, idx)


# ---- control skeleton actually emitted by do_shape (observed through a do_block wrapper)
CTL = {'if': -1, 'else': -2, 'end': -3, 'block': -4, 'loop': -5}


def emitted_skeleton(ir, ppci2wasm, relooper, terms):
    f, blocks = build_function(ir, terms)
    m = ir.Module('m')
    m.add_function(f)
    comp = ppci2wasm.IrToWasmCompiler()
    marks = {}
    orig = comp.do_block

    def do_block(ir_block):
        marks.setdefault(len(comp.instructions), []).append(int(ir_block.name[1:]))
        return orig(ir_block)
    comp.do_block = do_block
    with quiet():
        comp.prepare_compilation()
        comp.compile(m)
    out = []
    ins = comp.instructions
    for i in range(len(ins) + 1):
        for b in marks.get(i, []):
            out.append(b)
        if i < len(ins):
            op = ins[i].opcode
            if op in CTL:
                out.append(CTL[op])
            elif op == 'br':
                out.append(-100 - ins[i].args[0].index)
    return out


# ---- end-to-end for control flow: a function whose result encodes the block trace
def traced_module(ir, terms):
    """i32 f(i32 a): every block i does n += 1; acc = acc*31 + (i+1); a branch block takes `yes` when bit
    (n mod 32) of a is set; a return block returns acc.  So the result is a hash of the executed block trace and the
    argument is the branch oracle."""
    m = ir.Module('t')
    f = ir.Function('f', ir.Binding.GLOBAL, ir.i32)
    m.add_function(f)
    a = ir.Parameter('a', ir.i32)
    f.add_parameter(a)
    entry = ir.Block('entry')
    f.add_block(entry)
    f.entry = entry
    blocks = [ir.Block('b%d' % i) for i in range(len(terms))]
    for b in blocks:
        f.add_block(b)

    def emit(blk, ins):
        blk.add_instruction(ins)
        return ins
    al = emit(entry, ir.Alloc('slot', 8, 4))
    pacc = emit(entry, ir.AddressOf(al, 'pacc'))
    four = emit(entry, ir.Const(4, 'four', ir.ptr))
    pn = emit(entry, ir.Binop(pacc, '+', four, 'pn', ir.ptr))
    zero = emit(entry, ir.Const(0, 'zero', ir.i32))
    emit(entry, ir.Store(zero, pacc))
    emit(entry, ir.Store(zero, pn))
    emit(entry, ir.Jump(blocks[0]))
    for i, (b, t) in enumerate(zip(blocks, terms)):
        acc = emit(b, ir.Load(pacc, 'acc%d' % i, ir.i32))
        n = emit(b, ir.Load(pn, 'n%d' % i, ir.i32))
        c31 = emit(b, ir.Const(31, 'k31_%d' % i, ir.i32))
        cid = emit(b, ir.Const(i + 1, 'id%d' % i, ir.i32))
        one = emit(b, ir.Const(1, 'one%d' % i, ir.i32))
        m1 = emit(b, ir.Binop(acc, '*', c31, 'm%d' % i, ir.i32))
        acc2 = emit(b, ir.Binop(m1, '+', cid, 'x%d' % i, ir.i32))
        n2 = emit(b, ir.Binop(n, '+', one, 'y%d' % i, ir.i32))
        emit(b, ir.Store(acc2, pacc))
        emit(b, ir.Store(n2, pn))
        if t[0] == 'r':
            emit(b, ir.Return(acc2))
        elif t[0] == 'j':
            emit(b, ir.Jump(blocks[t[1]]))
        else:
            sh = emit(b, ir.Binop(n2, '&', c31, 's%d' % i, ir.i32))
            v = emit(b, ir.Binop(a, '>>', sh, 'v%d' % i, ir.i32))
            bit = emit(b, ir.Binop(v, '&', one, 'bit%d' % i, ir.i32))
            z = emit(b, ir.Const(0, 'z%d' % i, ir.i32))
            emit(b, ir.CJump(bit, '!=', z, blocks[t[1]], blocks[t[2]]))
    return m


def traced_reference(terms, a, limit=400):
    au = a & 0xFFFFFFFF

    def orc(nvisited):
        return bool((au >> (nvisited & 31)) & 1)
    hist, end = cfg_trace(terms, orc, limit)
    if end != 'halt':
        return None, hist
    acc = 0
    for b in hist:
        acc = (acc * 31 + b + 1) & 0xFFFFFFFF
    return acc, hist


def stage_e2e_cfg(ctx):
    """control flow end to end: structured CFGs with breaks/continues under nested ifs (deep br labels), compiled
    with ir_to_wasm, run on the python wasm target; the result must be the hash of the CFG walk"""
    ir, R, ppci2wasm, components = _ppci()
    from ppci.wasm import instantiate
    ncfg = 150 if ctx.quick() else 1500
    stats = {'cfgs': 0, 'compiled': 0, 'rejected': {}, 'runs': 0, 'nonterminating_skipped': 0, 'max_br_depth': 0}
    seen = set()
    tries = 0
    # CFGs on which a wrong br depth of a break/continue is observable (most breaks of the shapes the relooper
    # produces are followed by a copy of the same continuation, which masks a label that is one too large)
    fixed = [(('b', 3, 1), ('b', 1, 2), ('r',), ('b', 0, 2)),
             (('b', 6, 0), ('r',), ('b', 7, 3), ('j', 6), ('b', 5, 3), ('b', 1, 4), ('b', 2, 4), ('r',)),
             (('b', 0, 4), ('r',), ('b', 1, 2), ('b', 3, 1), ('b', 3, 2)),
             (('j', 1), ('b', 2, 3), ('j', 1), ('r',)), (('b', 1, 3), ('b', 2, 3), ('j', 1), ('r',))]
    while stats['cfgs'] < ncfg and tries < 20 * ncfg:
        tries += 1
        if fixed:
            terms = fixed.pop(0)
        elif tries % 2:
            terms = structured_terms(ctx.rng, 8 + ctx.rng.randrange(8))
        else:
            terms = random_terms(ctx.rng, ctx.rng.randrange(4, 9))
        if terms in seen or len(terms) < 4 or not any(t[0] == 'b' for t in terms):
            continue
        seen.add(terms)
        stats['cfgs'] += 1
        m = traced_module(ir, terms)
        try:
            w = compile_module(m)
        except Exception as ex:
            k = type(ex).__name__
            stats['rejected'][k] = stats['rejected'].get(k, 0) + 1
            continue
        fn = [d for d in w.definitions if type(d).__name__ == 'Func'][0]
        for i_ in fn.instructions:
            if i_.opcode == 'br':
                stats['max_br_depth'] = max(stats['max_br_depth'], i_.args[0].index)
        try:
            with quiet():
                inst = instantiate_py(w)
        except Exception as ex:
            ctx.violation({'fn': 'ir_to_wasm.cfg', 'key': 'cfg-invalid-module', 'cfg': repr(terms), 'error': repr(ex)[:300],
                           'what': 'ir_to_wasm output cannot be instantiated',
                           'how_to_replay': 'tools/props/c23.traced_module(ir, cfg) -> ir_to_wasm -> instantiate(python)'})
            continue
        stats['compiled'] += 1
        args = [0, -1, 0x55555555, -0x55555556, 0x0F0F0F0F] + [ctx.rng.randrange(-2 ** 31, 2 ** 31) for _ in range(5)]
        for a in args:
            want, hist = traced_reference(terms, a)
            if want is None:
                stats['nonterminating_skipped'] += 1
                continue
            try:
                with quiet():
                    with time_limit(5):
                        got = inst.exports.f(a)
            except Exception as ex:
                got = 'trap %s' % type(ex).__name__
            stats['runs'] += 1
            if not isinstance(got, int) or (got - want) % (1 << 32) != 0:
                ctx.violation({'fn': 'ir_to_wasm.cfg', 'key': 'cfg-trace', 'cfg': repr(terms), 'args': [a],
                               'expected': want, 'actual': got, 'cfg_trace': hist,
                               'what': 'the compiled function does not follow the CFG walk (result = hash of the block trace)',
                               'how_to_replay': 'tools/props/c23.traced_module(ir, cfg) -> ir_to_wasm -> '
                                                'instantiate(python).exports.f(a); reference traced_reference(cfg, a)'})
                break
    ctx.cov['programs'] = ctx.cov.get('programs', 0) + stats['cfgs']
    ctx.cov['disagreements_checked'] = ctx.cov.get('disagreements_checked', 0) + stats['runs']
    ctx.cov['evaluations'] += stats['runs']
    ctx.cov['distinct_nontrivial'] += stats['compiled']
    ctx.cov['stages']['e2e_cfg'] = stats
    ctx.note_sample({'e2e_cfg': stats})


# ------------------------------------------------------------------ operator table (tie I)
TYS = ['i8', 'i16', 'i32', 'i64', 'u8', 'u16', 'u32', 'u64', 'ptr']
TYC = {'i8': 'I8', 'i16': 'I16', 'i32': 'I32', 'i64': 'I64', 'u8': 'U8', 'u16': 'U16', 'u32': 'U32', 'u64': 'U64',
       'ptr': 'Ptr'}
OPC = {'+': 'Add', '-': 'Sub', '*': 'Mul', '/': 'Div', '%': 'Rem', '|': 'Or', '&': 'And', '^': 'Xor', '<<': 'Shl',
       '>>': 'Shr', 'rol': 'Rol', 'ror': 'Ror'}
CONDC = {'==': 'Ceq', '<': 'Clt', '>': 'Cgt', '>=': 'Cge', '<=': 'Cle', '!=': 'Cne'}
WBIN = {'add': 'WasmNumSpec.Add', 'sub': 'WasmNumSpec.Sub', 'mul': 'WasmNumSpec.Mul', 'div_s': 'DivS', 'div_u': 'DivU',
        'rem_s': 'RemS', 'rem_u': 'RemU', 'and': 'WasmNumSpec.And', 'or': 'WasmNumSpec.Or', 'xor': 'WasmNumSpec.Xor',
        'shl': 'WasmNumSpec.Shl', 'shr_s': 'ShrS', 'shr_u': 'ShrU', 'rotl': 'Rotl', 'rotr': 'Rotr'}
WREL = {'eq': 'Eq', 'ne': 'Ne', 'lt_s': 'LtS', 'lt_u': 'LtU', 'gt_s': 'GtS', 'gt_u': 'GtU', 'le_s': 'LeS',
        'le_u': 'LeU', 'ge_s': 'GeS', 'ge_u': 'GeU'}


def irty(ir, name):
    return getattr(ir, name)


def binop_module(ir, op, tyname):
    ty = irty(ir, tyname)
    m = ir.Module('m')
    f = ir.Function('f', ir.Binding.GLOBAL, ty)
    m.add_function(f)
    a, b = ir.Parameter('a', ty), ir.Parameter('b', ty)
    f.add_parameter(a)
    f.add_parameter(b)
    blk = ir.Block('e')
    f.add_block(blk)
    f.entry = blk
    r = ir.Binop(a, op, b, 'r', ty)
    blk.add_instruction(r)
    blk.add_instruction(ir.Return(r))
    return m


def cmp_module(ir, cond, tyname):
    ty = irty(ir, tyname)
    m = ir.Module('m')
    f = ir.Function('f', ir.Binding.GLOBAL, ir.i32)
    m.add_function(f)
    a, b = ir.Parameter('a', ty), ir.Parameter('b', ty)
    f.add_parameter(a)
    f.add_parameter(b)
    e, y, n = ir.Block('e'), ir.Block('y'), ir.Block('n')
    for blk in (e, y, n):
        f.add_block(blk)
    f.entry = e
    e.add_instruction(ir.CJump(a, cond, b, y, n))
    c1 = ir.Const(1, 'c1', ir.i32)
    y.add_instruction(c1)
    y.add_instruction(ir.Return(c1))
    c0 = ir.Const(0, 'c0', ir.i32)
    n.add_instruction(c0)
    n.add_instruction(ir.Return(c0))
    return m


def compile_module(m):
    from ppci.wasm import ir_to_wasm
    with quiet():
        return ir_to_wasm(m)


def func_opcodes(w):
    fn = [d for d in w.definitions if type(d).__name__ == 'Func'][0]
    return [i.opcode for i in fn.instructions]


def func_instrs(w):
    fn = [d for d in w.definitions if type(d).__name__ == 'Func'][0]
    return [(i.opcode, tuple(i.args)) for i in fn.instructions]


POSTS = {(): 'PNone',
         (('i32.const', 24), ('i32.shl', None), ('i32.const', 24), ('i32.shr_s', None)): 'PSext8',
         (('i32.const', 16), ('i32.shl', None), ('i32.const', 16), ('i32.shr_s', None)): 'PSext16',
         (('i32.const', 255), ('i32.and', None)): 'PMask8',
         (('i32.const', 65535), ('i32.and', None)): 'PMask16',
         (('i64.const', 4294967295), ('i64.and', None)): 'PMask32'}


def post_of(instrs, what):
    key = tuple((o, (a[0] if a else None)) for o, a in instrs)
    if key not in POSTS:
        raise TieBroken('unexpected re-wrapping code for %s: %r' % (what, instrs))
    return POSTS[key]


def cast_module(ir, fromname, toname):
    tf, tt = irty(ir, fromname), irty(ir, toname)
    m = ir.Module('m')
    f = ir.Function('f', ir.Binding.GLOBAL, tt)
    m.add_function(f)
    a = ir.Parameter('a', tf)
    f.add_parameter(a)
    blk = ir.Block('e')
    f.add_block(blk)
    f.entry = blk
    r = ir.Cast(a, 'r', tt)
    blk.add_instruction(r)
    blk.add_instruction(ir.Return(r))
    return m


def unop_module(ir, op, tyname):
    ty = irty(ir, tyname)
    m = ir.Module('m')
    f = ir.Function('f', ir.Binding.GLOBAL, ty)
    m.add_function(f)
    a = ir.Parameter('a', ty)
    f.add_parameter(a)
    blk = ir.Block('e')
    f.add_block(blk)
    f.entry = blk
    r = ir.Unop(op, a, 'r', ty)
    blk.add_instruction(r)
    blk.add_instruction(ir.Return(r))
    return m


def load_module(ir, tyname):
    ty = irty(ir, tyname)
    m = ir.Module('m')
    f = ir.Function('f', ir.Binding.GLOBAL, ty)
    m.add_function(f)
    p = ir.Parameter('p', ir.ptr)
    f.add_parameter(p)
    blk = ir.Block('e')
    f.add_block(blk)
    f.entry = blk
    r = ir.Load(p, 'r', ty)
    blk.add_instruction(r)
    blk.add_instruction(ir.Return(r))
    return m


def store_module(ir, tyname):
    ty = irty(ir, tyname)
    m = ir.Module('m')
    f = ir.Procedure('f', ir.Binding.GLOBAL)
    m.add_function(f)
    p, v = ir.Parameter('p', ir.ptr), ir.Parameter('v', ty)
    f.add_parameter(p)
    f.add_parameter(v)
    blk = ir.Block('e')
    f.add_block(blk)
    f.entry = blk
    blk.add_instruction(ir.Store(v, p))
    blk.add_instruction(ir.Exit())
    return m


def mem_row(ins, kind, what):
    """(container, bytes, sign-extend) of the single load/store instruction; static offset must be 0"""
    import re
    hits = [(o, a) for o, a in ins if ('.' + kind) in o]
    if len(hits) != 1:
        raise TieBroken('expected one %s for %s: %r' % (kind, what, ins))
    o, a = hits[0]
    mo = re.fullmatch(r'(i32|i64)\.%s(8|16|32)?(_s|_u)?' % kind, o)
    if not mo or (a and int(a[0]) != 0):
        raise TieBroken('unexpected %s instruction for %s: %r %r' % (kind, what, o, a))
    cw = {'i32': 'W32', 'i64': 'W64'}[mo.group(1)]
    nbytes = int(mo.group(2)) // 8 if mo.group(2) else {'i32': 4, 'i64': 8}[mo.group(1)]
    return cw, nbytes, mo.group(3) == '_s'


CONVS = {'i32.wrap_i64': 'CvWrap', 'i64.extend_i32_s': 'CvExtS', 'i64.extend_i32_u': 'CvExtU'}
ITYS = ['i8', 'i16', 'i32', 'i64', 'u8', 'u16', 'u32', 'u64']


def wop_term(opcode, table, ctor):
    w, name = opcode.split('.')
    return '(%s %s %s)' % (ctor, {'i32': 'W32', 'i64': 'W64'}[w], table[name])


def export_tables(ctx):
    ir, relooper, ppci2wasm, components = _ppci()
    rows, crows, rejected, prows, castrows = [], [], [], [], []
    bmap = ppci2wasm.IrToWasmCompiler.binop_map
    for tyname in TYS:
        for op in OPC:
            try:
                ins = func_instrs(compile_module(binop_module(ir, op, tyname)))
            except Exception as ex:      # rejected (NotImplementedError / KeyError): no row
                rejected.append((op, tyname, type(ex).__name__))
                continue
            body = [(o, a) for o, a in ins if o not in ('local.get', 'local.set', 'return')]
            arith = [o for o, a in body]
            if not arith or arith[0].split('.')[1] not in WBIN:
                raise TieBroken('unexpected code for %s %s: %r' % (op, tyname, ins))
            prows.append((op, tyname, post_of(body[1:], '%s %s' % (op, tyname))))
            # cross-check with the declarative table (ptr is selected as i32)
            key = {'+': 'ADD', '-': 'SUB', '*': 'MUL', '/': 'DIV', '%': 'REM', '|': 'OR', '&': 'AND', '^': 'XOR',
                   '<<': 'SHL', '>>': 'SHR'}.get(op, op.upper()) + ('I32' if tyname == 'ptr' else tyname.upper())
            if bmap.get(key) != arith[0]:
                raise TieBroken('binop_map[%s] = %r but the compiler emitted %r' % (key, bmap.get(key), arith[0]))
            rows.append((op, tyname, arith[0]))
        for cond in CONDC:
            try:
                ops = func_opcodes(compile_module(cmp_module(ir, cond, tyname)))
            except Exception as ex:
                rejected.append((cond, tyname, type(ex).__name__))
                continue
            rel = [o for o in ops if '.' in o and o.split('.')[1] in WREL]
            if len(rel) != 1:
                raise TieBroken('unexpected compare code for %s %s: %r' % (cond, tyname, ops))
            crows.append((cond, tyname, rel[0]))
    for fr in ITYS:
        for to in ITYS:
            try:
                ins = func_instrs(compile_module(cast_module(ir, fr, to)))
            except Exception as ex:
                rejected.append(('cast', fr + '->' + to, type(ex).__name__))
                continue
            body = [(o, a) for o, a in ins if o not in ('local.get', 'local.set', 'return')]
            cv = 'CvNone'
            if body and body[0][0] in CONVS:
                cv = CONVS[body[0][0]]
                body = body[1:]
            castrows.append((fr, to, cv, post_of(body, 'cast %s->%s' % (fr, to))))
    unrows = []
    for tyname in TYS:
        for op in ('-', '~'):
            try:
                ins = func_instrs(compile_module(unop_module(ir, op, tyname)))
            except Exception as ex:
                rejected.append(('unop ' + op, tyname, type(ex).__name__))
                continue
            body = [(o, a) for o, a in ins if o not in ('local.set', 'return')]
            if body and body[-1][0] == 'local.get':
                body = body[:-1]          # the `return r`
            head = [(o, (a[0] if a and isinstance(a[0], int) else None)) for o, a in body[:3]]
            w = head[0][0][:3] if head else ''
            if op != '-' or head != [(w + '.const', 0), ('local.get', None), (w + '.sub', None)] or w not in ('i32', 'i64'):
                raise TieBroken('unexpected code for unary %s %s: %r' % (op, tyname, ins))
            unrows.append((tyname, {'i32': 'W32', 'i64': 'W64'}[w], post_of(body[3:], 'neg %s' % tyname)))
    ctx.unrows = unrows
    ldrows, strows = [], []
    for tyname in TYS:
        for kind, mk, acc in (('load', load_module, ldrows), ('store', store_module, strows)):
            try:
                ins = func_instrs(compile_module(mk(ir, tyname)))
            except Exception as ex:
                rejected.append((kind, tyname, type(ex).__name__))
                continue
            acc.append((tyname,) + mem_row(ins, kind, '%s %s' % (kind, tyname)))
    text = ['(* generated by tools/props/c23.py from ppci/wasm/ppci2wasm.py (compiled one-instruction functions) *)',
            'From Coq Require Import List.', 'Import ListNotations.',
            'From PV Require Import Spec.IRSyntax Spec.WasmNumSpec Model.Ir2WasmPost.',
            'Definition optable : list (IRSyntax.binop * ty * wop) := [']
    text.append(';\n'.join('  (IRSyntax.%s, %s, %s)' % (OPC[o], TYC[t], wop_term(w, WBIN, 'Bin')) for o, t, w in rows))
    text.append('].')
    text.append('Definition cmptable : list (cond * ty * wop) := [')
    text.append(';\n'.join('  (%s, %s, %s)' % (CONDC[c], TYC[t], wop_term(w, WREL, 'Rel')) for c, t, w in crows))
    text.append('].')
    text.append('Definition posttable : list (IRSyntax.binop * ty * post) := [')
    text.append(';\n'.join('  (IRSyntax.%s, %s, %s)' % (OPC[o], TYC[t], p) for o, t, p in prows))
    text.append('].')
    text.append('Definition casttable : list (ty * ty * conv * post) := [')
    text.append(';\n'.join('  (%s, %s, %s, %s)' % (TYC[f], TYC[t], cv, p) for f, t, cv, p in castrows))
    text.append('].')
    text.append('Definition untable : list (ty * width * post) := [')
    text.append(';\n'.join('  (%s, %s, %s)' % (TYC[t], w, p) for t, w, p in unrows))
    text.append('].')
    text.append('Definition loadtable : list (ty * width * nat * bool) := [')
    text.append(';\n'.join('  (%s, %s, %d%%nat, %s)' % (TYC[t], cw, n, 'true' if sx else 'false') for t, cw, n, sx in ldrows))
    text.append('].')
    text.append('Definition storetable : list (ty * width * nat) := [')
    text.append(';\n'.join('  (%s, %s, %d%%nat)' % (TYC[t], cw, n) for t, cw, n, sx in strows))
    text.append('].')
    ctx.write_gen('Tab_ir2wasm', '\n'.join(text) + '\n')
    ctx.cov['stages']['op_table'] = {'rows': len(rows), 'cmp_rows': len(crows), 'cast_rows': len(castrows), 'neg_rows': len(unrows), 'load_rows': len(ldrows), 'store_rows': len(strows),
                                     'rewrapped_rows': sum(1 for r in prows if r[2] != 'PNone'), 'rejected': len(rejected)}
    return rows, crows, rejected


def regen(ctx):
    return export_tables(ctx)


# ------------------------------------------------------------------ stage: shapes
def wrong_digest(wrong):
    return hashlib.sha1('|'.join(sorted(repr(t) for t in wrong)).encode()).hexdigest()[:16]


def shape_domain(ctx):
    det = []
    for n in (1, 2, 3):
        det += list(all_terms(n))
    four = [t for t in all_terms(4) if not any(0 in x[1:] for x in t) and len(reachable(t)) == 4]
    # the deterministic domain is the same in both tiers (its set of wrong structurings is what a known finding names)
    det += four[::3][:900]
    extra = [] if ctx.quick() else [t for i, t in enumerate(four) if i % 3 != 0]
    rnd = list(extra)
    nrand = 250 if ctx.quick() else 2500
    for i in range(nrand):
        if i % 2 == 0:
            rnd.append(structured_terms(ctx.rng, 7 + ctx.rng.randrange(5)))
        else:
            rnd.append(random_terms(ctx.rng, ctx.rng.randrange(4, 8)))
    if not ctx.quick():
        for t in itertools.islice(all_terms(5), 0, None, 9973):
            rnd.append(t)
    return det, rnd


def stage_shapes(ctx):
    ir, R, ppci2wasm, components = _ppci()
    det, rnd = shape_domain(ctx)
    has_validator = hasattr(R, 'check_shape')
    cases, recs = [], []
    wrong_det, wrong_rnd = [], []
    rejected = {}
    accepted = 0
    skel_cases = []
    seen = set()
    for stage, pool in (('det', det), ('rnd', rnd)):
        for terms in pool:
            if (stage, terms) in seen:
                continue
            seen.add((stage, terms))
            f, blocks = build_function(ir, terms)
            try:
                shape, rmap = R.find_structure(f)
            except Exception as ex:
                rejected[type(ex).__name__] = rejected.get(type(ex).__name__, 0) + 1
                continue
            accepted += 1
            idx = {c: int(b.name[1:]) for c, b in rmap.items()}
            mis = trace_mismatch(R, shape, terms, idx)
            term = 'check_shape (%s)%%nat (%s)%%nat' % (terms_to_coq(terms), shape_to_coq(R, shape, idx))
            cases.append((term, mis is None))
            recs.append((stage, terms, shape_text(R, shape, idx), mis))
            if mis is not None:
                (wrong_det if stage == 'det' else wrong_rnd).append((terms, shape_text(R, shape, idx), mis))
            elif len(skel_cases) < (300 if ctx.quick() else 1200) and len(terms) >= 2 \
                    and len(reachable(terms)) == len(terms) and (stage == 'rnd' or len(terms) >= 3):
                try:
                    sk = emitted_skeleton(ir, ppci2wasm, R, terms)
                    skel_cases.append(('map ctl_code (do_shape [] (%s)%%nat)' % shape_to_coq(R, shape, idx), sk))
                    skel_cases.append(('match compile [] (%s)%%nat with Some c => map ctl_code (flat c) | None => [(-99)%%Z] end'
                                       % shape_to_coq(R, shape, idx), sk))
                except Exception as ex:       # ir_to_wasm rejects (assert / NotImplementedError): allowed
                    k = 'ir_to_wasm_rejects_' + type(ex).__name__
                    rejected[k] = rejected.get(k, 0) + 1
    ctx.cov['programs'] = ctx.cov.get('programs', 0) + len(seen)
    ctx.cov['disagreements_checked'] = ctx.cov.get('disagreements_checked', 0) + accepted
    ctx.cov['distinct_nontrivial'] += accepted
    ctx.cov['stages']['shapes'] = {'cfgs': len(seen), 'accepted': accepted, 'rejected': rejected,
                                   'wrong_deterministic': len(wrong_det), 'wrong_random': len(wrong_rnd),
                                   'find_structure_validates': has_validator, 'skeletons': len(skel_cases)}
    for r in recs[:: max(1, len(recs) // 4)][:4]:
        ctx.note_sample({'cfg': repr(r[1]), 'shape': r[2], 'trace_ok': r[3] is None})
    # ---- Coq checker on every accepted shape: must say true exactly on the trace-correct ones; a shape that Coq
    # accepts but whose traces differ would contradict c23_shape_sound (export/semantics reading broken)
    bad = ctx.run_cases('shapes', ['Spec.StructSpec', 'Model.ShapeCheck'], cases)
    if bad:
        unsound = [i for i in bad if recs[i][3] is not None]
        incomplete = [i for i in bad if recs[i][3] is None]
        ctx.cov['stages']['shapes']['checker_rejects_correct_shape'] = len(incomplete)
        for i in incomplete[:3]:
            ctx.log('note: check_shape rejects a trace-correct shape', recs[i][1], recs[i][2])
        if unsound:
            ctx.failed_stages.append(('validator', 'check_shape accepts a shape whose block trace differs from the CFG: '
                                      '%r %s' % (recs[unsound[0]][1], recs[unsound[0]][2])))
    # ---- tie for the validator inside ppci (present after fixes/C23-validate-shape.diff)
    if bad is not None and has_validator:
        # find_structure already ran check_shape: every accepted shape passed it; compare on rejected-by-validator too
        sd_cases, sd_recs = [], []
        from ppci.graph.cfg import ir_function_to_graph
        for terms in (det + rnd)[:: max(1, len(det + rnd) // 500)]:
            f, blocks = build_function(ir, terms)
            try:
                cfg, block_map = ir_function_to_graph(f)
                shape = R.StructureDetector().detect(cfg)
                verdict = R.check_shape(cfg, shape)
            except Exception:
                continue
            idx = {c: int(b.name[1:]) for b, c in block_map.items()}
            sd_cases.append(('check_shape (%s)%%nat (%s)%%nat' % (terms_to_coq(terms), shape_to_coq(R, shape, idx)), bool(verdict)))
            sd_recs.append(terms)
        vbad = ctx.run_cases('pyvalidator', ['Spec.StructSpec', 'Model.ShapeCheck'], sd_cases)
        ctx.cov['stages']['shapes']['validator_tie_cases'] = len(sd_cases)
        if vbad:
            ctx.failed_stages.append(('validator_tie', 'relooper.check_shape differs from Model.ShapeCheck.check_shape on %r'
                                      % (sd_recs[vbad[0]],)))
            ctx.violation({'fn': 'relooper.check_shape', 'key': 'validator-tie', 'cfg': repr(sd_recs[vbad[0]]),
                           'what': 'the validator in find_structure disagrees with the verified checker',
                           'how_to_replay': 'tools/props/c23.build_function(ir, cfg); StructureDetector().detect; check_shape'})
    # ---- do_shape control skeleton (labels!) against the model
    if skel_cases:
        sbad = ctx.run_cases('skeleton', ['Spec.StructSpec', 'Spec.WasmCtlSpec', 'Model.ShapeCheck', 'Model.ShapeCompile'], skel_cases)
        if sbad:
            ctx.failed_stages.append(('do_shape_tie', 'Model.ShapeCheck.do_shape differs from the emitted control skeleton, '
                                      'first: %s' % skel_cases[sbad[0]][0]))
    # ---- wrong structurings = property violations (translated incorrectly instead of rejected)
    digest = wrong_digest([w[0] for w in wrong_det])
    ctx.cov['stages']['shapes']['wrong_digest'] = digest
    known_present = False
    if wrong_det:
        terms, stext, mis = wrong_det[0]
        rec = {'fn': 'find_structure', 'key': 'wrong-structuring', 'wrong_set_digest': digest,
               'count': len(wrong_det), 'cfg': repr(terms), 'shape': stext, 'expected': mis['cfg_trace'],
               'actual': mis['shape_trace'], 'oracle': mis['oracle'],
               'what': 'find_structure returns a shape whose structured execution does not follow the CFG',
               'how_to_replay': 'python: from tools/props/c23 import build_function; f,_=build_function(ppci.ir, cfg); '
                                'ppci.graph.relooper.find_structure(f); compare traces (trace_mismatch)'}
        known_present = not ctx.violation(rec)
    for terms, stext, mis in wrong_rnd[:3]:
        if known_present:
            break      # same root cause as the recorded finding (the deterministic wrong set is unchanged)
        ctx.violation({'fn': 'find_structure', 'key': 'wrong-structuring-random', 'cfg': repr(terms), 'shape': stext,
                       'expected': mis['cfg_trace'], 'actual': mis['shape_trace'], 'oracle': mis['oracle'],
                       'how_to_replay': 'see wrong-structuring'})
    return known_present


# ------------------------------------------------------------------ stage: operators executed
def boundary(bits, signed):
    lo, hi = (-(1 << (bits - 1)), (1 << (bits - 1)) - 1) if signed else (0, (1 << bits) - 1)
    pool = {lo, hi, 0, 1, 2, 3, 7, hi - 1, lo + 1, hi // 2, hi // 2 + 1, 1 << (bits // 2), bits - 1, bits, 5}
    if signed:
        pool |= {-1, -2, -7, lo // 2}
    return sorted(v for v in pool if lo <= v <= hi)


INEXACT = {('+', t) for t in ('i8', 'i16', 'u8', 'u16', 'u32')} | {('-', t) for t in ('i8', 'i16', 'u8', 'u16', 'u32')} \
    | {('*', t) for t in ('i8', 'i16', 'u8', 'u16', 'u32')} | {('<<', t) for t in ('i8', 'i16', 'u8', 'u16', 'u32')} \
    | {(o, 'ptr') for o in ('/', '%', '>>')}


def stage_ops(ctx, rows, crows):
    ir, R, ppci2wasm, components = _ppci()
    import irsem_py
    from ppci.wasm import instantiate
    cfg = (4, 1000, 1 << 20)
    n = mism_known = 0
    tybits = {'i8': (8, True), 'i16': (16, True), 'i32': (32, True), 'i64': (64, True), 'u8': (8, False),
              'u16': (16, False), 'u32': (32, False), 'u64': (64, False), 'ptr': (32, False)}
    for kind, table in (('binop', rows), ('cjump', crows)):
        for op, tyname, wop in table:
            m = binop_module(ir, op, tyname) if kind == 'binop' else cmp_module(ir, op, tyname)
            try:
                with quiet():
                    inst = instantiate_py(compile_module(m))
            except Exception as ex:
                ctx.violation({'fn': 'instantiate', 'key': 'instantiate-%s' % kind, 'args': [op, tyname], 'error': repr(ex),
                               'how_to_replay': 'tools/props/c23.%s_module + ir_to_wasm + instantiate(target=python)' % kind})
                continue
            bits, sg = tybits[tyname]
            wbits = 64 if wop.startswith('i64') else 32
            pool = boundary(bits, sg)
            # whole boundary pool in both tiers (MIN, MIN+1, -1, 0, 1, MAX-1, MAX, ...): cheap, and the raw container
            # returned by the python instance shows non-canonical upper bits directly
            first = worse = None
            for a in pool:
                for b in pool:
                    ref = irsem_py.run_main(m, 'f', [a, b], 50, cfg)
                    if not isinstance(ref, OkV):
                        continue          # undefined in the IR (division by zero, overflow, shift count)
                    want = ref.v[0]
                    # arguments/results of the python instance: signed python ints of the container width
                    def sgn(v, w):
                        v &= (1 << w) - 1
                        return v - (1 << w) if v >> (w - 1) else v
                    try:
                        with quiet():
                            with time_limit(5):
                                got = inst.exports.f(sgn(a, wbits), sgn(b, wbits))
                    except Exception as ex:
                        got = 'trap %s' % type(ex).__name__
                    n += 1
                    rw = wbits if kind == 'binop' else 32
                    if not isinstance(got, int) or (got - want) % (1 << rw) != 0:
                        if first is None:
                            first = (a, b, want, got)
                        # proved for the narrow rows: the result is right after re-wrapping to the IR type
                        if worse is None and (not isinstance(got, int) or (got - want) % (1 << bits) != 0):
                            worse = (a, b, want, got)
            inexact = kind == 'binop' and (op, tyname) in INEXACT or kind == 'cjump' and tyname == 'ptr'
            if inexact and tyname != 'ptr' and worse is not None:
                first, inexact = worse, False
            if first is not None:
                a, b, want, got = first
                rec = {'fn': 'ir_to_wasm.' + kind, 'key': '%s %s %s' % (kind, op, tyname), 'op': op, 'ty': tyname,
                       'class': ('subword-not-rewrapped' if tyname != 'ptr' else 'ptr-signed-opcode') if inexact
                       else 'exact-row', 'args': [a, b], 'expected': want, 'actual': got, 'opcode': wop,
                       'how_to_replay': 'tools/props/c23.%s_module(ir, %r, %r) -> ir_to_wasm -> instantiate(python).exports.f'
                                        % (kind, op, tyname)}
                if ctx.violation(rec) is False:
                    mism_known += 1
    ctx.cov['evaluations'] += n
    ctx.cov['disagreements_checked'] = ctx.cov.get('disagreements_checked', 0) + n
    ctx.cov['stages']['ops_executed'] = {'evaluations': n, 'rows_with_known_mismatch': mism_known}


# ------------------------------------------------------------------ stage: casts executed + table status
def stage_casts(ctx):
    """which tree is this (re-wrapping complete? cast rows not proved?) from the Coq side, and every compiled cast
    executed on boundary values against irsem_py"""
    ir, R, ppci2wasm, components = _ppci()
    import irsem_py
    from ppci.wasm import instantiate
    out = ctx.eval_terms('tables', ['Proofs.C23_table2', 'Proofs.C23_table3', 'Model.Ir2WasmPost'],
                         ['rewrap_complete', 'Z.of_nat (List.length cast_bad_rows)',
                          'Z.of_nat (List.length mem_bad_rows)'])
    import re
    vals = re.findall(r'=\s*(VBool\s+\w+|VInt\s+\(?-?\d+\)?|[^\n]+)', out)
    complete = 'true' in (vals[0] if vals else '')
    nbad = int(re.findall(r'-?\d+', vals[1])[0]) if len(vals) > 1 and re.findall(r'-?\d+', vals[1]) else -1
    nmem = int(re.findall(r'-?\d+', vals[2])[0]) if len(vals) > 2 and re.findall(r'-?\d+', vals[2]) else -1
    ctx.cov['stages']['tables_status'] = {'rewrap_complete': complete, 'cast_rows_not_proved': nbad,
                                          'loadstore_rows_not_proved': nmem}
    if nmem != 0:
        ctx.failed_stages.append(('loadstore_table', 'a load/store row of the compiler is not of the proved form (mem_bad_rows)'))
    cfg = (4, 1000, 1 << 20)
    tybits = {'i8': (8, True), 'i16': (16, True), 'i32': (32, True), 'i64': (64, True), 'u8': (8, False),
              'u16': (16, False), 'u32': (32, False), 'u64': (64, False)}
    n = 0
    for fr in ITYS:
        for to in ITYS:
            m = cast_module(ir, fr, to)
            try:
                with quiet():
                    inst = instantiate_py(compile_module(m))
            except Exception:
                continue
            fb, fs = tybits[fr]
            tb, ts = tybits[to]
            wf = 64 if fr in ('u32', 'i64', 'u64') else 32
            wt = 64 if to in ('u32', 'i64', 'u64') else 32
            first = None
            for a in boundary(fb, fs):
                ref = irsem_py.run_main(m, 'f', [a], 50, cfg)
                if not isinstance(ref, OkV):
                    continue
                want = ref.v[0]
                v = a & ((1 << wf) - 1)
                v = v - (1 << wf) if v >> (wf - 1) else v
                try:
                    with quiet():
                        with time_limit(5):
                            got = inst.exports.f(v)
                except Exception as ex:
                    got = 'trap %s' % type(ex).__name__
                n += 1
                if not isinstance(got, int) or (got - want) % (1 << wt) != 0:
                    first = first or (a, want, got)
            if first is not None:
                a, want, got = first
                same = tb == fb
                cls = ('same-size-sign-cast-elided' if same and fr != to else
                       'i32-to-u64-zero-extends' if (fr, to) == ('i32', 'u64') else
                       'narrowing-cast-not-rewrapped' if not complete else 'cast-wrong')
                ctx.violation({'fn': 'ir_to_wasm.cast', 'key': 'cast %s->%s' % (fr, to), 'from': fr, 'to': to, 'class': cls,
                               'args': [a], 'expected': want, 'actual': got,
                               'how_to_replay': 'tools/props/c23.cast_module(ir, %r, %r) -> ir_to_wasm -> '
                                                'instantiate(python).exports.f' % (fr, to)})
    # ---- unary operators: every compiled row on the whole boundary pool (MIN, MIN+1, -1, 0, 1, MAX-1, MAX ...);
    # the python instance returns the raw container, so non-canonical upper bits are visible directly
    want_post = {'i8': 'PSext8', 'i16': 'PSext16'}
    nun = 0
    for tyname, wname, post in getattr(ctx, 'unrows', []):
        if post != want_post.get(tyname, 'PNone'):
            ctx.failed_stages.append(('unop_table', 'NEG %s is followed by %s, the proved form needs %s'
                                      % (tyname, post, want_post.get(tyname, 'PNone'))))
        m = unop_module(ir, '-', tyname)
        try:
            with quiet():
                inst = instantiate_py(compile_module(m))
        except Exception:
            continue
        fb, fs = (32, False) if tyname == 'ptr' else tybits[tyname]
        wc = 64 if wname == 'W64' else 32
        for a in boundary(fb, fs):
            ref = irsem_py.run_main(m, 'f', [a], 50, cfg)
            if not isinstance(ref, OkV):
                continue
            v = a & ((1 << wc) - 1)
            v = v - (1 << wc) if v >> (wc - 1) else v
            try:
                with quiet():
                    with time_limit(5):
                        got = inst.exports.f(v)
            except Exception as ex:
                got = 'trap %s' % type(ex).__name__
            nun += 1
            if not isinstance(got, int) or (got - ref.v[0]) % (1 << wc) != 0:
                ctx.violation({'fn': 'ir_to_wasm.unop', 'key': 'unop - %s' % tyname, 'op': '-', 'ty': tyname, 'args': [a],
                               'expected': ref.v[0], 'actual': got, 'class': 'exact-row',
                               'what': 'unary minus leaves a value outside the canonical form of its type',
                               'how_to_replay': 'tools/props/c23.unop_module(ir, "-", %r) -> ir_to_wasm -> '
                                                'instantiate(python).exports.f(%d)' % (tyname, v)})
                break
    n += nun
    ctx.cov['stages']['unops_executed'] = nun
    ctx.cov['evaluations'] += n
    ctx.cov['disagreements_checked'] = ctx.cov.get('disagreements_checked', 0) + n
    ctx.cov['stages']['casts_executed'] = n


# ------------------------------------------------------------------ stage: data segments
def stage_data(ctx):
    ir, R, ppci2wasm, components = _ppci()
    from ppci.wasm import instantiate
    cases, n_inst = [], 0
    ctor_failed = None
    nmods = 30 if ctx.quick() else 300
    for k in range(nmods):
        m = ir.Module('d%d' % k)
        gv = []
        for j in range(ctx.rng.randrange(1, 6)):
            amount = ctx.rng.choice([1, 2, 3, 4, 5, 8, 12, 16])
            align = ctx.rng.choice([1, 2, 4, 8])
            r = ctx.rng.random()
            if r < 0.3:
                value = None
            elif r < 0.4:
                value = ()
            else:
                ln = ctx.rng.randrange(0, amount + 1)
                data = bytes(ctx.rng.randrange(256) for _ in range(ln))
                cut = ctx.rng.randrange(0, ln + 1)
                value = (data[:cut], data[cut:]) if ctx.rng.random() < 0.5 else (data,)
            v = ir.Variable('g%d' % j, ir.Binding.GLOBAL, amount, align, value=value)
            m.add_variable(v)
            flat = None if not value else b''.join(value)
            gv.append((v.name, amount, flat))
        p = ir.Procedure('p', ir.Binding.GLOBAL)
        m.add_function(p)
        blk = ir.Block('e')
        p.add_block(blk)
        p.entry = blk
        blk.add_instruction(ir.Exit())
        comp = ppci2wasm.IrToWasmCompiler()
        with quiet():
            comp.prepare_compilation()
            comp.compile(m)
        labs = [(name, comp.global_labels[name]) for name, _, _ in gv]
        segs = [(addr, list(data)) for memid, addr, data in comp.initial_memory if len(data) > 0]
        term = ('place STACKSIZE [%s]' % '; '.join(
            'mk_gvar "%s" %d %s' % (name, amount, 'None' if flat is None else
                                    '(Some [%s])' % '; '.join(str(x) for x in flat)) for name, amount, flat in gv))
        cases.append((term, (labs, segs, comp.global_memory)))
        try:
            with quiet():
                w = comp.create_wasm_module()
        except Exception as ex:
            if comp.initial_memory and ctor_failed is None:
                ctor_failed = (repr(ex), [(n_, a_, None if f_ is None else list(f_)) for n_, a_, f_ in gv])
            continue
        datas = [d for d in w.definitions if type(d).__name__ == 'Data']
        got = [(d.mode[1][0].args[0], list(d.data)) for d in datas if len(d.data) > 0]
        if got != segs:
            ctx.violation({'fn': 'create_wasm_module', 'key': 'data-section', 'globals': repr(gv), 'expected': segs,
                           'actual': got, 'how_to_replay': 'IrToWasmCompiler().compile(module); create_wasm_module()'})
        try:
            with quiet():
                inst = instantiate_py(w)
            mem = inst._memories[0]
            n_inst += 1
            for (name, amount, flat), (_, addr) in zip(gv, labs):
                want = (flat or b'') + bytes(amount - len(flat or b''))
                have = bytes(mem.read(addr, amount))
                if want != have:
                    ctx.violation({'fn': 'instantiate.memory', 'key': 'memory-image', 'globals': repr(gv), 'global': name,
                                   'address': addr, 'expected': list(want), 'actual': list(have),
                                   'how_to_replay': 'ir_to_wasm(module with these ir.Variable) ; instantiate(python) ; '
                                                    'inst._memories[0].read(address, size)'})
                    break
        except Exception as ex:
            ctx.violation({'fn': 'instantiate', 'key': 'instantiate-data', 'globals': repr(gv), 'error': repr(ex),
                           'how_to_replay': 'ir_to_wasm + instantiate(target=python)'})
    ctx.cov['programs'] = ctx.cov.get('programs', 0) + nmods
    ctx.cov['stages']['data'] = {'modules': nmods, 'instantiated': n_inst, 'data_ctor_failed': ctor_failed is not None}
    bad = ctx.run_cases('data', ['Model.Ir2WasmOps'], cases)
    if bad:
        ctx.failed_stages.append(('data_tie', 'Model.Ir2WasmOps.place differs from IrToWasmCompiler.compile on %s'
                                  % cases[bad[0]][0]))
    if ctor_failed is not None:
        ctx.violation({'fn': 'create_wasm_module', 'key': 'data-ctor', 'defect': 'components.Data called with stale arguments',
                       'error': ctor_failed[0].split('(')[0], 'globals': ctor_failed[1],
                       'what': 'every module with an initialised global or literal is rejected with an internal error',
                       'how_to_replay': 'ir_to_wasm(module with ir.Variable(..., value=(b"\\x01",)))'})


# ------------------------------------------------------------------ stage: end-to-end differential
E2E_FEATURES = ('diamond', 'loop', 'alloca', 'globals', 'calls', 'shuffle')


def stage_e2e(ctx, relooper_known):
    ir, R, ppci2wasm, components = _ppci()
    import irsem_py
    from gen import irgen
    from ppci.wasm import instantiate
    saved = irgen.INT_TYPES
    # u64 is left out too: CONSTU64 >= 2^63 is emitted as an out-of-range i64.const (python target: struct.error)
    irgen.INT_TYPES = [ir.i32, ir.i64, ir.i32, ir.i64]
    if ctx.cov['stages'].get('tables_status', {}).get('rewrap_complete'):
        # narrow arithmetic is re-wrapped in this tree (fixes/C23-rewrap-narrow.diff): it must agree end to end
        irgen.INT_TYPES = [ir.i8, ir.i16, ir.i32, ir.i64, ir.u8, ir.u16, ir.u32]       # sub-word/u32 arithmetic is a recorded finding (stage ops)
    cfg = (4, 1000, 1 << 20)
    nmods = 50 if ctx.quick() else 600
    stats = {'modules': 0, 'compiled': 0, 'rejected': {}, 'runs': 0, 'compared': 0, 'ir_undefined': 0}
    try:
        for k in range(nmods):
            m = irgen.gen_module(ctx.rng, size=ctx.rng.randrange(1, 4), features=E2E_FEATURES, name='e%d' % k)
            stats['modules'] += 1
            try:
                with quiet():
                    w = compile_module(m)
            except Exception as ex:
                key = type(ex).__name__
                stats['rejected'][key] = stats['rejected'].get(key, 0) + 1
                continue
            try:
                with quiet():
                    inst = instantiate_py(w)
            except Exception as ex:
                # ir_to_wasm accepted the module but the result cannot be instantiated (invalid labels, types...)
                stats['instantiate_failed'] = stats.get('instantiate_failed', 0) + 1
                from ppci.irutils import print_module
                buf = io.StringIO()
                print_module(m, file=buf)
                ctx.violation({'fn': 'ir_to_wasm.e2e', 'key': 'e2e-invalid-module', 'error': repr(ex)[:300],
                               'module': buf.getvalue(), 'what': 'ir_to_wasm output cannot be instantiated',
                               'how_to_replay': 'read_module(text); instantiate(ir_to_wasm(m), {}, target="python")'})
                continue
            stats['compiled'] += 1
            for f in m.functions:
                if not isinstance(f, ir.Function):
                    continue
                for _ in range(2 if ctx.quick() else 4):
                    args = irgen.gen_args(ctx.rng, f)
                    ref = irsem_py.run_main(m, f.name, args, 400, cfg)
                    stats['runs'] += 1
                    if not isinstance(ref, OkV) or not isinstance(ref.v[0], int):
                        stats['ir_undefined'] += 1
                        break             # later calls would see globals modified by a run we cannot reproduce
                    try:
                        with quiet():
                            wargs = []      # the python instance takes signed ints of the container width
                            for p_, v_ in zip(f.arguments, args):
                                w_ = 64 if p_.ty.name in ('u32', 'i64', 'u64') else 32
                                v_ &= (1 << w_) - 1
                                wargs.append(v_ - (1 << w_) if v_ >> (w_ - 1) else v_)
                            with time_limit(5):
                                got = getattr(inst.exports, f.name)(*wargs)
                    except Exception as ex:
                        got = 'trap %s' % type(ex).__name__
                    stats['compared'] += 1
                    bits = f.return_ty.size * 8
                    if not isinstance(got, int) or (got - ref.v[0]) % (1 << bits) != 0:
                        from ppci.irutils import print_module
                        buf = io.StringIO()
                        print_module(m, file=buf)
                        rec = {'fn': 'ir_to_wasm.e2e', 'key': 'e2e', 'function': f.name, 'args': args,
                               'expected': ref.v[0], 'actual': got, 'module': buf.getvalue(),
                               'how_to_replay': 'read the module text with ppci.irutils.read_module, ir_to_wasm, '
                                                'instantiate(target=python), call the function; reference tools/irsem_py.run_main'}
                        if relooper_known:
                            rec['possible_cause'] = 'wrong-structuring (recorded finding) is present in this tree'
                        ctx.violation(rec)
                        break
                    # the reference run modified the globals of its own machine only; re-instantiate to stay in sync
                    with quiet():
                        inst = instantiate_py(w)
    finally:
        irgen.INT_TYPES = saved
    ctx.cov['programs'] = ctx.cov.get('programs', 0) + stats['modules']
    ctx.cov['disagreements_checked'] = ctx.cov.get('disagreements_checked', 0) + stats['compared']
    ctx.cov['evaluations'] += stats['runs']
    ctx.cov['distinct_nontrivial'] += stats['compiled']
    ctx.cov['stages']['e2e'] = stats
    ctx.note_sample({'e2e': stats})


def search(ctx):
    rows, crows, _ = regen(ctx)
    known = stage_shapes(ctx)
    stage_ops(ctx, rows, crows)
    stage_casts(ctx)
    stage_data(ctx)
    stage_e2e(ctx, known)
    stage_e2e_cfg(ctx)


def run(ctx):
    sys.path.insert(0, os.path.join(VERIF, 'tools'))
    try:
        rows, crows, rejected = regen(ctx)
    except TieBroken as ex:
        ctx.failed_stages.append(('tie', str(ex)))
        rows, crows = [], []
    ok, _ = ctx.build(['Proofs/C23_shape.vo', 'Proofs/C23_ops.vo', 'Proofs/C23_data.vo', 'Proofs/C23_table.vo', 'Proofs/C23_doshape.vo',
                       'Proofs/C23_post.vo', 'Proofs/C23_table2.vo', 'Proofs/C23_mem.vo', 'Proofs/C23_table3.vo', 'Proofs/C23_unop.vo', 'Proofs/C23_table4.vo'])
    if ok:
        ctx.check_props('Props/C23.v')
    ctx.build(['Model/ShapeCheck.vo', 'Model/ShapeCompile.vo', 'Model/Ir2WasmOps.vo', 'Lib/Val.vo'])
    import time
    t0 = time.time()
    runtime_probe(ctx)
    known = stage_shapes(ctx)
    t1 = time.time()
    if rows:
        stage_ops(ctx, rows, crows)
    t2 = time.time()
    stage_casts(ctx)
    stage_data(ctx)
    t3 = time.time()
    stage_e2e(ctx, known)
    stage_e2e_cfg(ctx)
    t4 = time.time()
    ctx.cov['stages']['wall_s'] = {'shapes': round(t1 - t0, 1), 'ops': round(t2 - t1, 1), 'data': round(t3 - t2, 1),
                                   'e2e': round(t4 - t3, 1)}
    ctx.log('stage wall times', ctx.cov['stages']['wall_s'])
    ctx.cov['exhaustive'] = False
