"""c28_run — drive the real ppci front-ends on one program and classify the outcome (used by c28.py).

outcome = {'status': 'ok' | 'diag' | 'internal' | 'timeout', 'exc': type name, 'where': innermost ppci frame
           ("ppci.lang.c.eval.c_div"), 'via': innermost frame inside ppci/lang (front-end), 'stage': 'front' | 'back',
           'msg': first 120 chars}
A *diagnostic* is ppci.common.CompilerError (and its subclasses) or ppci.build.tasks.TaskError raised `from` a
CompilerError (what api.c3c does). Everything else that escapes the api entry point is an internal error.
The program runs in a forked worker with an address-space limit and an alarm.
"""
import io
import logging
import multiprocessing
import os
import resource
import signal
import sys
import traceback

from vlib import REPO

TARGETS = ['x86_64', 'arm', 'riscv', 'msp430']
OPTS = [0, 1, 2]
TIME_LIMIT = 40          # seconds per program (the machine is shared; a hang is counted, not reported)
MEM_LIMIT = 3 << 30


class _Timeout(BaseException):
    pass


def _alarm(signum, frame):
    raise _Timeout()


def _where(tb_exc):
    """(innermost ppci frame, innermost ppci/lang frame) as dotted module.qualname"""
    root = os.path.join(os.path.abspath(REPO), 'ppci') + os.sep
    inner = via = None
    tb = tb_exc.__traceback__
    if isinstance(tb_exc, RecursionError):
        # the frame where the limit is hit is arbitrary: name the function that recurses most
        cnt = {}
        while tb is not None:
            code = tb.tb_frame.f_code
            fn = os.path.abspath(code.co_filename)
            if fn.startswith(root):
                mod = 'ppci.' + fn[len(root):-3].replace(os.sep, '.')
                name = mod + '.' + getattr(code, 'co_qualname', code.co_name).replace('.<locals>', '')
                cnt[name] = cnt.get(name, 0) + 1
            tb = tb.tb_next
        if not cnt:
            return '?', '?'
        best = sorted(cnt, key=lambda k: (-cnt[k], k))[0]
        return best, best
    while tb is not None:
        code = tb.tb_frame.f_code
        fn = os.path.abspath(code.co_filename)
        if fn.startswith(root):
            mod = 'ppci.' + fn[len(root):-3].replace(os.sep, '.')
            if mod.endswith('.__init__'):
                mod = mod[:-9]
            qn = getattr(code, 'co_qualname', code.co_name).replace('.<locals>', '')
            name = mod + '.' + qn
            inner = name
            if mod.startswith('ppci.lang.'):
                via = name
        tb = tb.tb_next
    return inner or '?', via or '?'


def _stage_of(tb_exc):
    """'front' while inside c_to_ir / c3_to_ir, else 'back' (optimize, ir_to_object)"""
    tb = tb_exc.__traceback__
    while tb is not None:
        if tb.tb_frame.f_code.co_name in ('c_to_ir', 'c3_to_ir', 'preprocess'):
            return 'front'
        tb = tb.tb_next
    return 'back'


def compile_here(task):
    """task = {'lang': 'c'|'c3', 'src': str, 'march': str, 'opt': int, 'api': 'cc'|'c_to_ir'|'c3c'} -> outcome"""
    from ppci import api
    from ppci.lang.c import c_to_ir
    from ppci.common import CompilerError
    from ppci.build.tasks import TaskError
    src, march, opt = task['src'], task['march'], task.get('opt', 0)
    try:
        if task['api'] == 'c_to_ir':
            c_to_ir(io.StringIO(src), march)
        elif task['api'] == 'cc':
            api.cc(io.StringIO(src), march, opt_level=opt)
        elif task['api'] == 'c3c':
            incs = [io.StringIO(s) for s in task.get('includes', [])]
            api.c3c([io.StringIO(src)], incs, march, opt_level=opt)
        elif task['api'] == 'c3_to_ir':
            from ppci.lang.c3 import c3_to_ir
            incs = [io.StringIO(s) for s in task.get('includes', [])]
            c3_to_ir([io.StringIO(src)], incs, march)
        else:
            raise ValueError(task['api'])
        return {'status': 'ok'}
    except CompilerError as ex:
        return {'status': 'diag', 'msg': str(ex.msg)[:120]}
    except TaskError as ex:
        if isinstance(ex.__cause__, CompilerError):
            return {'status': 'diag', 'msg': str(ex.__cause__.msg)[:120]}
        w, via = _where(ex)
        return {'status': 'internal', 'exc': 'TaskError', 'where': w, 'via': via, 'stage': _stage_of(ex),
                'msg': str(ex.msg)[:120]}
    except _Timeout:
        return {'status': 'timeout'}
    except BaseException as ex:   # noqa: BLE001  (the property: nothing but diagnostics may escape)
        if isinstance(ex, KeyboardInterrupt):
            raise
        w, via = _where(ex)
        return {'status': 'internal', 'exc': type(ex).__name__, 'where': w, 'via': via, 'stage': _stage_of(ex),
                'msg': str(ex)[:120]}


def _worker(task):
    signal.signal(signal.SIGALRM, _alarm)
    signal.alarm(task.get('time_limit', TIME_LIMIT))
    try:
        out = compile_here(task)
    except _Timeout:
        out = {'status': 'timeout'}
    finally:
        signal.alarm(0)
    out['id'] = task.get('id')
    return out


def _init():
    logging.disable(logging.CRITICAL)
    sys.setrecursionlimit(3000)
    try:
        resource.setrlimit(resource.RLIMIT_AS, (MEM_LIMIT, MEM_LIMIT))
    except (ValueError, OSError):
        pass
    if REPO not in sys.path:
        sys.path.insert(0, REPO)
    devnull = open(os.devnull, 'w')
    sys.stdout = devnull
    sys.stderr = devnull


class Runner:
    """pool of forked workers; run_many keeps the order of the tasks"""

    def __init__(self, nproc=4):
        self.nproc = nproc
        self.pool = None

    def __enter__(self):
        ctx = multiprocessing.get_context('fork')
        self.pool = ctx.Pool(self.nproc, initializer=_init, maxtasksperchild=400)
        return self

    def __exit__(self, *a):
        self.pool.terminate()
        self.pool.join()

    def run_many(self, tasks):
        for i, t in enumerate(tasks):
            t.setdefault('id', i)
        res = []
        for r in self.pool.imap(_worker, tasks, chunksize=4):
            res.append(r)
        return res

    def run_one(self, task):
        try:
            return self.pool.apply_async(_worker, (dict(task),)).get(TIME_LIMIT + 30)
        except multiprocessing.TimeoutError:
            return {'status': 'timeout'}


def key_of(out):
    return (out.get('exc'), out.get('where')) if out.get('status') == 'internal' else None
