"""C30 site inventory — an `ast` scan (tool, not proof) for consumption of builtin
set / frozenset / dict values in an order-revealing way.

A *site* is a place where the enumeration order of an unordered (set, frozenset) or
insertion-ordered (dict) builtin container can reach the program's behaviour:

  iter        for x in S / comprehension generator over S   (ctx tells the consumer)
  pop         S.pop()  / D.popitem()
  minmax      min(S) / max(S)            (ties / key=... decide whether order matters)
  next_iter   next(iter(S))
  materialize list(S) tuple(S) enumerate(S) zip(S) chain(S) join(S) OrderedSet(S) reversed(S) S-unpacking
  sorted      sorted(S)                  (without key on objects = id/hash dependent or TypeError)

Type inference is a deliberately over-inclusive name based heuristic:
  * a local name is set-typed when it is assigned from a set producing expression anywhere in the function
    (set(..), frozenset(..), {a, b}, {x for ..}, set operators/methods on set-typed operands, .copy());
  * an attribute name X is set-typed when anywhere in the *whole ppci package* `something.X = <set expr>`
    (or an annotated/augmented assignment) occurs; `something.X[k]` is set-typed when `something.X[k] = <set expr>`
    or X = defaultdict(set) occurs (dict of sets);
  * dict-typed likewise ({}, dict(..), {k: v for ..}, defaultdict(..), .keys()/.values()/.items() of anything).
The key of a site is (file, qualified function, kind, normalised source text of the container expression);
line numbers are reported but are not part of the key, so moving code does not create new sites.
"""
import ast
import os

SET_CTORS = {'set', 'frozenset'}
DICT_CTORS = {'dict', 'defaultdict', 'Counter'}
SET_METHODS = {'union', 'intersection', 'difference', 'symmetric_difference', 'copy'}
MATERIALIZERS = {'list', 'tuple', 'enumerate', 'zip', 'chain', 'reversed', 'OrderedSet', 'iter', 'map', 'filter'}
COMMUTATIVE = {'sum', 'any', 'all', 'len', 'set', 'frozenset', 'min', 'max', 'sorted'}


def src(node):
    try:
        return ast.unparse(node)
    except Exception:   # noqa: BLE001
        return '<expr>'


class Types:
    """package wide attribute-name tables"""

    def __init__(self):
        self.set_attrs = set()
        self.dict_attrs = set()
        self.dictofset_attrs = set()
        self.set_returning = set()     # bare function/method names with `return <set-typed>`
        self.set_params = {}           # function name -> set of parameter names that receive a set-typed argument


def is_set_ctor(node):
    if isinstance(node, (ast.Set, ast.SetComp)):
        return True
    if isinstance(node, ast.Call) and isinstance(node.func, ast.Name) and node.func.id in SET_CTORS:
        return True
    return False


def is_dict_ctor(node):
    if isinstance(node, (ast.Dict, ast.DictComp)):
        return True
    if isinstance(node, ast.Call) and isinstance(node.func, ast.Name) and node.func.id in DICT_CTORS:
        return True
    return False


def is_dictofset_ctor(node):
    return (isinstance(node, ast.Call) and isinstance(node.func, ast.Name) and node.func.id == 'defaultdict'
            and node.args and isinstance(node.args[0], ast.Name) and node.args[0].id in SET_CTORS)


def collect_attr_types(tree, types):
    for node in ast.walk(tree):
        targets, value = [], None
        if isinstance(node, ast.Assign):
            targets, value = node.targets, node.value
        elif isinstance(node, ast.AnnAssign) and node.value is not None:
            targets, value = [node.target], node.value
        if value is None:
            continue
        for t in targets:
            if isinstance(t, ast.Attribute):
                if is_dictofset_ctor(value):
                    types.dictofset_attrs.add(t.attr)
                    types.dict_attrs.add(t.attr)
                elif is_set_ctor(value):
                    types.set_attrs.add(t.attr)
                elif is_dict_ctor(value):
                    types.dict_attrs.add(t.attr)
            elif isinstance(t, ast.Subscript) and isinstance(t.value, ast.Attribute) and is_set_ctor(value):
                types.dictofset_attrs.add(t.value.attr)


class FuncScan(ast.NodeVisitor):
    def __init__(self, relfile, qual, types, sites, fnode):
        self.relfile, self.qual, self.types, self.sites = relfile, qual, types, sites
        self.set_names, self.dict_names, self.dictofset_names = set(), set(), set()
        self.ctx_stack = []
        for pname in types.set_params.get(getattr(fnode, 'name', ''), ()):
            self.set_names.add(pname)
        # fixpoint over local assignments (a = set(); b = a | c)
        for _ in range(3):
            for node in ast.walk(fnode):
                if isinstance(node, (ast.FunctionDef, ast.AsyncFunctionDef, ast.Lambda)) and node is not fnode:
                    continue
                targets, value = [], None
                if isinstance(node, ast.Assign):
                    targets, value = node.targets, node.value
                elif isinstance(node, ast.AnnAssign) and node.value is not None:
                    targets, value = [node.target], node.value
                elif isinstance(node, ast.AugAssign):
                    targets, value = [node.target], node.value
                if value is None:
                    continue
                for t in targets:
                    if isinstance(t, ast.Name):
                        if is_dictofset_ctor(value):
                            self.dictofset_names.add(t.id)
                            self.dict_names.add(t.id)
                        elif self.is_set(value) and not isinstance(node, ast.AugAssign):
                            self.set_names.add(t.id)
                        elif self.is_dict(value) and not isinstance(node, ast.AugAssign):
                            self.dict_names.add(t.id)
                    elif isinstance(t, ast.Subscript) and isinstance(t.value, ast.Name) and self.is_set(value):
                        self.dictofset_names.add(t.value.id)

    # ---- type predicates
    def is_set(self, n):
        if is_set_ctor(n):
            return True
        if isinstance(n, ast.Name):
            return n.id in self.set_names
        if isinstance(n, ast.Attribute):
            return n.attr in self.types.set_attrs
        if isinstance(n, ast.Subscript):
            v = n.value
            if isinstance(v, ast.Name) and v.id in self.dictofset_names:
                return True
            if isinstance(v, ast.Attribute) and v.attr in self.types.dictofset_attrs:
                return True
            return False
        if isinstance(n, ast.BinOp) and isinstance(n.op, (ast.BitOr, ast.BitAnd, ast.Sub, ast.BitXor)):
            return self.is_set(n.left) or self.is_set(n.right)
        if isinstance(n, ast.Call):
            fn = n.func.id if isinstance(n.func, ast.Name) else (
                n.func.attr if isinstance(n.func, ast.Attribute) else None)
            if fn in self.types.set_returning:
                return True
        if isinstance(n, ast.Call) and isinstance(n.func, ast.Attribute):
            if n.func.attr in SET_METHODS and self.is_set(n.func.value):
                return True
            if n.func.attr in ('get', 'setdefault', 'pop') and n.args[1:] and self.is_set(n.args[1]):
                return True
        if isinstance(n, ast.IfExp):
            return self.is_set(n.body) or self.is_set(n.orelse)
        return False

    def is_dict(self, n):
        if is_dict_ctor(n):
            return True
        if isinstance(n, ast.Name):
            return n.id in self.dict_names
        if isinstance(n, ast.Attribute):
            return n.attr in self.types.dict_attrs
        if isinstance(n, ast.Call) and isinstance(n.func, ast.Attribute) and n.func.attr in ('keys', 'values', 'items') \
                and not n.args:
            return self.is_dict(n.func.value)
        return False

    def unordered(self, n):
        if self.is_set(n):
            return 'set'
        if self.is_dict(n):
            return 'dict'
        return None

    def add(self, kind, cont, node, ctx=''):
        ty = self.unordered(cont)
        if ty is None:
            return
        self.sites.append({'file': self.relfile, 'line': node.lineno, 'function': self.qual,
                           'kind': kind + '_' + ty, 'expr': src(cont)[:120], 'ctx': ctx})

    # ---- visitors
    def visit_For(self, node):
        self.add('iter', node.iter, node, 'for')
        self.generic_visit(node)

    def comp(self, node, label):
        ctx = label
        if self.ctx_stack:
            ctx = self.ctx_stack[-1] + '(' + label + ')'
        for g in node.generators:
            self.add('iter', g.iter, node, ctx)
        self.generic_visit(node)

    def visit_ListComp(self, node):
        self.comp(node, 'listcomp')

    def visit_SetComp(self, node):
        self.comp(node, 'setcomp')

    def visit_DictComp(self, node):
        self.comp(node, 'dictcomp')

    def visit_GeneratorExp(self, node):
        self.comp(node, 'genexp')

    def visit_Starred(self, node):
        self.add('materialize', node.value, node, 'star')
        self.generic_visit(node)

    def visit_Call(self, node):
        f = node.func
        fname = f.id if isinstance(f, ast.Name) else (f.attr if isinstance(f, ast.Attribute) else None)
        if isinstance(f, ast.Attribute) and f.attr == 'pop' and not node.args:
            self.add('pop', f.value, node)
        if isinstance(f, ast.Attribute) and f.attr == 'popitem':
            self.add('pop', f.value, node)
        if isinstance(f, ast.Attribute) and f.attr == 'join' and node.args:
            self.add('materialize', node.args[0], node, 'join')
        if isinstance(f, ast.Attribute) and f.attr in ('extend', 'update', 'extendleft') and node.args \
                and fname != 'update':
            self.add('materialize', node.args[0], node, f.attr)
        if isinstance(f, ast.Name):
            if f.id in ('min', 'max') and len(node.args) == 1:
                self.add('minmax', node.args[0], node,
                         'key' if any(k.arg == 'key' for k in node.keywords) else 'nokey')
            elif f.id == 'next' and node.args and isinstance(node.args[0], ast.Call) \
                    and isinstance(node.args[0].func, ast.Name) and node.args[0].func.id == 'iter' \
                    and node.args[0].args:
                self.add('next_iter', node.args[0].args[0], node)
            elif f.id == 'sorted' and node.args:
                self.add('sorted', node.args[0], node,
                         'key' if any(k.arg == 'key' for k in node.keywords) else 'nokey')
            elif f.id in MATERIALIZERS:
                if not (f.id == 'iter' and False):
                    for a in node.args:
                        self.add('materialize', a, node, f.id)
        pushed = False
        if fname in COMMUTATIVE:
            self.ctx_stack.append(fname)
            pushed = True
        self.generic_visit(node)
        if pushed:
            self.ctx_stack.pop()

    def visit_FunctionDef(self, node):
        pass   # nested functions are scanned on their own

    visit_AsyncFunctionDef = visit_FunctionDef


def scan_function(relfile, qual, fnode, types, sites):
    fs = FuncScan(relfile, qual, types, sites, fnode)
    for stmt in fnode.body:
        fs.visit(stmt)


def walk_defs(relfile, node, prefix, types, sites):
    for child in ast.iter_child_nodes(node):
        if isinstance(child, (ast.FunctionDef, ast.AsyncFunctionDef)):
            qual = prefix + child.name
            scan_function(relfile, qual, child, types, sites)
            walk_defs(relfile, child, qual + '.', types, sites)
        elif isinstance(child, ast.ClassDef):
            walk_defs(relfile, child, prefix + child.name + '.', types, sites)
        elif isinstance(child, (ast.If, ast.Try, ast.With, ast.For, ast.While)):
            walk_defs(relfile, child, prefix, types, sites)


def module_level(relfile, tree, types, sites):
    """module level statements outside any def/class"""
    fake = ast.FunctionDef(name='<module>', args=None, body=[
        s for s in tree.body if not isinstance(s, (ast.FunctionDef, ast.AsyncFunctionDef, ast.ClassDef))],
        decorator_list=[])
    if fake.body:
        scan_function(relfile, '<module>', fake, types, sites)


def scanned_files(repo):
    """the anchored modules"""
    import glob
    pats = ['ppci/codegen/*.py', 'ppci/opt/*.py', 'ppci/arch/*/arch.py', 'ppci/arch/arch.py',
            'ppci/arch/arch_info.py', 'ppci/arch/stack.py', 'ppci/graph/*.py', 'ppci/graph/algorithm/*.py',
            'ppci/utils/collections.py', 'ppci/binutils/outstream.py', 'ppci/binutils/objectfile.py',
            'ppci/arch/*.py', 'ppci/arch/*/*.py', 'ppci/ir.py', 'ppci/irutils/verify.py',
            'ppci/irutils/writer.py', 'ppci/irutils/io.py', 'ppci/lang/python/ir2py.py', 'ppci/wasm/ppci2wasm.py']
    out = []
    for p in pats:
        out += sorted(glob.glob(os.path.join(repo, p)))
    seen, res = set(), []
    for f in out:
        if f not in seen and not f.endswith('__init__.py'):
            seen.add(f)
            res.append(f)
    return res


def all_functions(tree):
    for node in ast.walk(tree):
        if isinstance(node, (ast.FunctionDef, ast.AsyncFunctionDef)):
            yield node


def interprocedural(trees, types):
    """two rounds: functions returning a set-typed value; parameters receiving set-typed arguments"""
    defs = {}
    for tree in trees.values():
        for f in all_functions(tree):
            defs.setdefault(f.name, []).append(f)
    for _ in range(2):
        for tree in trees.values():
            for f in all_functions(tree):
                fs = FuncScan('', f.name, types, [], f)
                for node in ast.walk(f):
                    if isinstance(node, ast.Return) and node.value is not None and fs.is_set(node.value):
                        types.set_returning.add(f.name)
                    if isinstance(node, ast.Assign) and fs.is_set(node.value):
                        # something.X[k] = <set-typed expression>  /  something.X = <set-typed expression>
                        for tg in node.targets:
                            if isinstance(tg, ast.Subscript) and isinstance(tg.value, ast.Attribute):
                                types.dictofset_attrs.add(tg.value.attr)
                            elif isinstance(tg, ast.Attribute):
                                types.set_attrs.add(tg.attr)
                    if isinstance(node, ast.Call):
                        fn = node.func.id if isinstance(node.func, ast.Name) else (
                            node.func.attr if isinstance(node.func, ast.Attribute) else None)
                        if fn not in defs or fn.startswith('__'):
                            continue
                        for i, a in enumerate(node.args):
                            if fs.is_set(a):
                                for d in defs[fn]:
                                    params = [x.arg for x in d.args.args]
                                    if params and params[0] in ('self', 'cls') and isinstance(node.func, ast.Attribute):
                                        params = params[1:]
                                    if i < len(params):
                                        types.set_params.setdefault(fn, set()).add(params[i])
                        for kw in node.keywords:
                            if kw.arg and fs.is_set(kw.value):
                                types.set_params.setdefault(fn, set()).add(kw.arg)


def scan(repo):
    """returns (sites, n_files). sites sorted; each has a stable 'key'."""
    types = Types()
    trees = {}
    for root, _, files in os.walk(os.path.join(repo, 'ppci')):
        for fn in files:
            if fn.endswith('.py'):
                p = os.path.join(root, fn)
                try:
                    trees[p] = ast.parse(open(p, encoding='utf-8').read())
                except SyntaxError:
                    continue
                collect_attr_types(trees[p], types)
    interprocedural(trees, types)
    sites = []
    files = scanned_files(repo)
    for p in files:
        if p not in trees:
            continue
        rel = os.path.relpath(p, repo)
        walk_defs(rel, trees[p], '', types, sites)
        module_level(rel, trees[p], types, sites)
    # stable keys; duplicates inside one function get an occurrence number
    sites.sort(key=lambda s: (s['file'], s['line'], s['kind'], s['expr']))
    count = {}
    for s in sites:
        base = '%s::%s::%s::%s' % (s['file'], s['function'], s['kind'], s['expr'])
        count[base] = count.get(base, 0) + 1
        s['key'] = base if count[base] == 1 else '%s#%d' % (base, count[base])
    return sites, len(files), types


if __name__ == '__main__':
    import sys
    import json
    sites, nf, types = scan(sys.argv[1] if len(sys.argv) > 1 else '/repo')
    kinds = {}
    for s in sites:
        kinds[s['kind']] = kinds.get(s['kind'], 0) + 1
    print(json.dumps({'files': nf, 'sites': len(sites), 'kinds': kinds}, indent=1))
    if len(sys.argv) > 2:
        for s in sites:
            if sys.argv[2] in s['kind'] or sys.argv[2] == 'all':
                print('%s:%d %s [%s] %s {%s}' % (s['file'], s['line'], s['function'], s['kind'], s['expr'], s['ctx']))
