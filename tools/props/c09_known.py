"""Deterministic generator of the C09 known-finding entries (status "known") in /verif/known_findings.json.

    VERIF_REPO=/repo /venv/bin/python tools/props/c09_known.py [--dry]

Independent of VERIF_SEED, of PYTHONHASHSEED and of the Earley parser's choice: the real assembler is NOT asked.
For every class variant i that occurs in a pair of the proved-exact table ambiguous_<arch> (Props/C09.v
c09_tables_<arch>) a fixed operand enumeration is replayed (every register of every register operand, every value
of the immediate pool, one label; the other operands at a default that encode() accepts).  For every partner j
of i in the table whose production recognises the printed token sequence of the instance (the model recogniser,
cross-checked against the real assembler by ./check C09) and whose grammar priority is not worse than i's (so the
parser may pick it), the partner instance is built from the recovered operands and emitted directly:
    different section bytes / relocations  -> (arch, class of i, 'differs')
    emitting the partner instance raises   -> (arch, class of i, 'crash')
A class is listed iff such a witness exists; the entry states the partner and the witness text.  The check
(tools/props/c09.py replay) only tags a failure with reason 'ambiguous-pair' when the real assembler built exactly
one instruction whose class variant is a partner of the tested variant in ambiguous_<arch>; the entries below
require that tag, so a failing class outside the table, a rejected printed form, or any other kind of failure
stays a VIOLATION.  Entries with status "fixed" and entries of other properties are left untouched.
"""
import json
import os
import random
import sys

sys.path.insert(0, os.path.dirname(os.path.dirname(os.path.abspath(__file__))))
import vlib  # noqa: E402
vlib.ensure_repo_on_path()
from props import c09, c09_replay as R  # noqa: E402

IMM_DEFAULTS = [1, 4, 0, 8, 2, 100, -1, 16]


class _Ctx:
    def __init__(self):
        self.failed_stages = []
        self.rng = random.Random(0)

    def log(self, *a):
        pass

    def write_gen(self, *a):
        pass

    def quick(self):
        return False


def values_of(info, e, mops):
    vals = []
    for lk, m in zip(e['leafkinds'], mops):
        if m[0] == 'r':
            vals.append(info.regclasses[lk[1]]['objs'][m[1]])
        else:
            vals.append(m[1])
    return vals


def try_build(info, e, mops):
    try:
        ins = e['build'](values_of(info, e, mops))
        ins.encode()
        ins.relocations()
        return ins
    except Exception:   # noqa: BLE001
        return None


def tuples_for(info, e):
    """fixed operand enumeration of one variant (model operand values)"""
    kinds = e['leafkinds']
    if any(k[0] not in ('reg', 'imm', 'lab') for k in kinds):
        return []
    base = None
    for z in IMM_DEFAULTS:
        cand = [('r', 0) if k[0] == 'reg' else ('i', z) if k[0] == 'imm' else ('l', 'lbl') for k in kinds]
        if try_build(info, e, cand) is not None:
            base = cand
            break
    if base is None:
        return []
    pool = R.imm_pool_for(info, e)
    out = [base]
    for p, k in enumerate(kinds):
        if k[0] == 'reg':
            cands = [('r', n) for n in range(len(info.regclasses[k[1]]['objs']))]
        elif k[0] == 'imm':
            cands = [('i', z) for z in pool]
        else:
            cands = []
        for c in cands:
            t = list(base)
            t[p] = c
            if t not in out:
                out.append(t)
    return out


def at_risk(nm, b):
    """{(class, kind): (partner, text, detail)} for one ISA"""
    info, good = b['info'], b['good']
    allr = good + b['xgood']
    partners = {}
    for (i, j) in b['amb']:
        partners.setdefault(i, []).append(j)
        partners.setdefault(j, []).append(i)
    found = {}
    for i in sorted(partners):
        if i >= len(good):
            continue
        e = good[i]
        for mops in tuples_for(info, e):
            ins = try_build(info, e, mops)
            if ins is None:
                continue
            toks = R.lex_view(info, str(ins))
            if toks is None or any(t[0] == '?' for t in toks):
                continue
            try:
                exp = R.direct_view(info.arch, ins)
            except Exception:   # noqa: BLE001
                continue
            for j in partners[i]:
                x = allr[j]
                if x['prio'] > e['prio']:
                    continue            # the parser prefers i's own production
                ops2 = R.py_matches(info, b['kws'], x['rule'], toks)
                if ops2 is None:
                    continue
                pname = '%s/%s' % (x['cls'], x['variant'])
                if j >= len(good):
                    kind, detail = 'differs', 'the directive production %s' % x['cls']
                else:
                    try:
                        ins2 = x['build'](values_of(info, x, ops2))
                    except Exception:   # noqa: BLE001
                        continue        # the partner's constructor refuses these operands: nothing is emitted for it
                    try:
                        got = R.direct_view(info.arch, ins2)
                    except Exception as ex:   # noqa: BLE001
                        kind, detail = 'crash', 'emitting %s raises %s' % (pname, type(ex).__name__)
                    else:
                        if got == exp:
                            continue
                        kind = 'differs'
                        detail = '%s gives %s instead of %s' % (
                            pname, got[0][0][1].hex() if got[0] else got[1], exp[0][0][1].hex() if exp[0] else exp[1])
                        if got[0] == exp[0]:
                            detail = '%s gives relocation %s instead of %s' % (
                                pname, [r[0] for r in got[1]], [r[0] for r in exp[1]])
                found.setdefault((e['cls'], kind), (pname, str(ins), detail, e['variant']))
    return found


def main():
    dry = '--dry' in sys.argv
    B = c09.regen(_Ctx())
    ents = []
    for nm, b in B.items():
        f = at_risk(nm, b)
        for (cls, kind), (pname, text, detail, variant) in sorted(f.items()):
            ents.append({'property': 'C09', 'status': 'known',
                         'match': {'fn': 'asm_roundtrip', 'isa': nm, 'class': cls, 'kind': kind, 'reason': 'ambiguous-pair'},
                         'what': '%s %s%s prints %r, the same text as %s (pair in ambiguous_%s, equal or better grammar priority); '
                                 'when the assembler picks that production: %s' % (
                                     nm, cls, '/' + variant if variant else '', text, pname, nm, detail)})
        print('%-11s ambiguous pairs %3d  listed (class, kind) %3d' % (nm, len(b['amb']), len(f)))
    p = os.path.join(vlib.VERIF, 'known_findings.json')
    k = json.load(open(p))            # re-read immediately before writing
    keep = [e for e in k['findings'] if not (e.get('property') == 'C09' and e.get('status') == 'known')]
    print('C09 known entries: %d -> %d (fixed entries kept: %d)' % (
        len(k['findings']) - len(keep), len(ents), sum(1 for e in keep if e.get('property') == 'C09')))
    if not dry:
        k['findings'] = keep + ents
        with open(p, 'w') as fh:
            json.dump(k, fh, indent=1)


if __name__ == '__main__':
    main()
