"""C16 — IR JSON serialisation round-trips (DESIGN §4 C16; ppci/irutils/io.py DictWriter/DictReader).

tie H: coq/Model/IrJson.v mirrors io.py function by function; the correspondence compares
  (a) the real to_dict(m) with the model's JSON value, and
  (b) the real from_json(to_json(m)) (imported through tools/irimport.py) with the model's round trip
on modules from tools/gen/irgen.py.  The search oracle is independent of the model: structural
comparison of the original and the reconstructed real module (names, types, values, initializers,
volatile flags) through irimport.module_to_py.

The model has one switch per defect found in /repo (Model.IrJson.jcfg).  Each run probes the
implementation with one minimal witness per defect; a witness that still fails is a VIOLATION (or
a KNOWN-FINDING), and the correspondence then uses the model configured accordingly.
"""
import json
import os
import random
import sys

sys.path.insert(0, os.path.join(os.path.dirname(os.path.dirname(os.path.abspath(__file__))), 'gen'))
from vlib import OkV, Internal, coq_str, coq_z, REPO  # noqa: E402

LEVEL = 'proof'
RULE = ('modules from tools/gen/irgen.py (seeded; all features incl. locals/parameters shadowing module-level names, calls to later functions, several blob types of equal size/different alignment, shuffled block order, volatile, initialised '
        'globals, copyblob, undefined, float bit patterns, big constants) plus hand-made witnesses; per module one '
        'writer case (real dict vs model JSON) and one round-trip case (real from_json(to_json) vs model); '
        'non-trivial = module with at least one function whose real round trip terminates normally')
EXPLANATION = ('Coq theorems about Model.IrJson (hand model of io.py; cfg_fixed = /repo now, all 8 defect switches on). '
               'MAIN: c16_roundtrip : forall m, wf_modul m = true -> ctor_ok_modul m = true -> from_dict (to_dict m) = Ok m '
               '(unbounded: externals, global variables with initial values, subroutines, blocks, all 18 instruction kinds, '
               'types, constants, volatile flags; loops, shuffled block order, forward operands, recursion, calls to later '
               'subroutines). ctor_ok_modul = the constructor invariants of ppci.ir (operand types, ptr addresses/callees, '
               'non-empty allocs, byte literals), needed because the reader re-runs the constructors. Stages kept as '
               'theorems: c16_instr_roundtrip, c16_register_spec/_global, c16_instr_step_*, c16_block_roundtrip, '
               'c16_function_roundtrip, c16_subroutines_roundtrip, component round trips, non-vacuity instances. '
               'Refutations for the code as found: one well-formed witness per defect (5 of io.py, 3 of ir.py replace_use). '
               'c16_roundtrip_bounded (19 generated modules, vm_compute) stays as a cross-check; the corpus also satisfies '
               'both hypotheses of c16_roundtrip (c16_nonvacuous).')
TRUSTED = ['hand model coq/Model/IrJson.v (cross-checked against io.py on every run, both directions)',
           'tools/irimport.py (ppci.ir objects -> Coq syntax; ids in print order)',
           'json.dumps/json.loads are the identity on JSON values (floats: repr round-trips; NaN payloads excluded)',
           'Python dict lookup == first binding in an association list without duplicate keys']
ASSUMPTIONS = ['well-formed = Spec.IRSyntax.wf_modul: ids in print order, references resolve, names of parameters/values unique '
               'per function and disjoint from module-level names, block names unique and distinct from value names '
               '(modules with locals shadowing module-level names are covered by correspondence/search only)',
               'Spec.IRSyntax.ctor_ok_modul: what the ppci.ir constructors enforce (true of every live module unless mutated)',
               'the theorem is about the model; the model/implementation tie is the per-run correspondence']

FLAGS = ('fix_value', 'fix_volatile', 'fix_copyblob', 'fix_undefined', 'fix_fwdtype',
         'fix_ru_generic', 'fix_ru_phi', 'fix_ru_call')


# ---------------------------------------------------------------- witnesses (one per defect)
def _proc(ir):
    m = ir.Module('m')
    f = ir.Procedure('pr', ir.Binding.GLOBAL)
    m.add_function(f)
    b = ir.Block('entry')
    f.add_block(b)
    f.entry = b
    return m, f, b


def witnesses(ir):
    out = {}
    m = ir.Module('m')
    m.add_variable(ir.Variable('g', ir.Binding.GLOBAL, 4, 4, b'\x01\x02\x03\x04'))
    out['fix_value'] = m
    m, f, b = _proc(ir)
    a = ir.Alloc('a', 4, 4)
    b.add_instruction(a)
    p = ir.AddressOf(a, 'p')
    b.add_instruction(p)
    c = ir.Const(1, 'c', ir.i32)
    b.add_instruction(c)
    b.add_instruction(ir.Store(c, p, volatile=True))
    b.add_instruction(ir.Load(p, 'l', ir.i32, volatile=True))
    b.add_instruction(ir.Exit())
    out['fix_volatile'] = m
    m, f, b = _proc(ir)
    a = ir.Alloc('a', 4, 4)
    b.add_instruction(a)
    p = ir.AddressOf(a, 'p')
    b.add_instruction(p)
    b.add_instruction(ir.CopyBlob(p, p, 4))
    b.add_instruction(ir.Exit())
    out['fix_copyblob'] = m
    m, f, b = _proc(ir)
    b.add_instruction(ir.Undefined('u', ir.i32))
    b.add_instruction(ir.Exit())
    out['fix_undefined'] = m

    def fwd(mk, xty):
        m, f, b = _proc(ir)
        b1, b2 = ir.Block('b1'), ir.Block('b2')
        f.add_block(b1)
        f.add_block(b2)
        b.add_instruction(ir.Jump(b2))
        x = ir.Const(3, 'x', xty)
        b2.add_instruction(x)
        b2.add_instruction(ir.Jump(b1))
        for i in mk(m, x):
            b1.add_instruction(i)
        b1.add_instruction(ir.Exit())
        return m
    out['fix_fwdtype'] = fwd(lambda m, x: [ir.Unop('-', x, 'y', ir.i32)], ir.i32)
    # defects of ir.Instruction.replace_use / ProcedureCall.replace_use reached through DictReader
    out['fix_ru_generic'] = fwd(lambda m, x: [ir.Store(x, x)], ir.ptr)
    # phi whose two inputs are the same later-listed value (Phi.replace_use)
    m, f, b = _proc(ir)
    bj, ba, bb, bd = ir.Block('j'), ir.Block('a'), ir.Block('b'), ir.Block('d')
    for k in (bj, ba, bb, bd):
        f.add_block(k)
    b.add_instruction(ir.Jump(bd))
    x = ir.Const(3, 'x', ir.i32)
    bd.add_instruction(x)
    bd.add_instruction(ir.CJump(x, '==', x, ba, bb))
    ba.add_instruction(ir.Jump(bj))
    bb.add_instruction(ir.Jump(bj))
    ph = ir.Phi('p', ir.i32)
    bj.add_instruction(ph)
    ph.set_incoming(ba, x)
    ph.set_incoming(bb, x)
    bj.add_instruction(ir.Exit())
    out['fix_ru_phi'] = m

    def call2(m, x):
        e = ir.ExternalProcedure('xp', [ir.i32, ir.i32])
        m.add_external(e)
        return [ir.ProcedureCall(e, [x, x])]
    out['fix_ru_call'] = fwd(call2, ir.i32)
    return out


def real_roundtrip(irutils, m):
    return irutils.from_json(irutils.to_json(m))


def oracle(irimport, irutils, m):
    """None when the real round trip reproduces the module, else a short description"""
    try:
        m2 = real_roundtrip(irutils, m)
    except Exception as ex:   # noqa: BLE001
        return 'exception %s: %s' % (type(ex).__name__, str(ex)[:80])
    try:
        return irimport.diff_py(irimport.module_to_py(m), irimport.module_to_py(m2, allow_dangling=True))
    except irimport.NotRepresentable as ex:
        return 'reconstructed module not representable: %s' % ex


def classify(d):
    """coarse class of an oracle failure (used as the de-duplication / known-finding key)"""
    if d is None:
        return None
    if 'NotImplementedError' in d:
        return 'instruction-kind-not-serialisable'
    if 'type mismatch ptr' in d:
        return 'operand-type-mismatch-in-reader'
    if 'KeyError' in d:
        return 'forward-double-use-replace_use'
    if "'unres'" in d or 'unres' in d:
        return 'reference-left-unresolved'
    if "'loc' vs" in d or "'param' vs" in d or "'glob' vs" in d:
        return 'operand-bound-to-another-value'
    if '<store>' in d or '<load>' in d:
        return 'volatile-lost'
    if 'bytes' in d and 'None' in d:
        return 'variable-value-lost'
    if "('blob'" in d or "'blob'" in d or 'blob' in d:
        return 'blob-type-changed'
    import re
    tags = re.findall(r'<([a-z]+)>', d)
    return 'structural-difference' + (' in ' + tags[-1] if tags else '') if d.startswith('module') else 'other: ' + d[:60]


# ---------------------------------------------------------------- JSON rendering
def json_term(d, irimport):
    if d is None:
        return 'JNull'
    if isinstance(d, bool):
        return 'JBool true' if d else 'JBool false'
    if isinstance(d, int):
        return 'JNum %s' % coq_z(d)
    if isinstance(d, float):
        return 'JObj [("$float64"%%string, JNum %d)]' % irimport.float_bits(d)
    if isinstance(d, str):
        return 'JStr %s' % coq_str(d)
    if isinstance(d, list):
        return 'JList [%s]' % '; '.join(json_term(x, irimport) for x in d)
    if isinstance(d, dict):
        return 'JObj [%s]' % '; '.join('(%s, %s)' % (coq_str(k), json_term(v, irimport)) for k, v in d.items())
    raise TypeError(repr(d))


def json_val(d, irimport):
    """Python value whose vlib.to_val equals Lib.Json.json_to_val of the same JSON value"""
    if isinstance(d, float):
        return (('$float64', irimport.float_bits(d)),)
    if isinstance(d, list):
        return [json_val(x, irimport) for x in d]
    if isinstance(d, dict):
        return tuple((k, json_val(v, irimport)) for k, v in d.items())
    return d


def cfg_term(flags):
    return '(mk_jcfg %s)' % ' '.join('true' if flags[k] else 'false' for k in FLAGS)


# ---------------------------------------------------------------- corpus for the bounded theorem
def forward_double_use(t):
    """does some instruction of the canonical module t use a value defined LATER in print order in two
    operand slots (or as a repeated call argument)?  (the region of the former replace_use findings)"""
    for f in t[3]:
        defined = 0
        for b in f[4]:
            for i in b[2]:
                if i[0] == 'phi':
                    refs = [r for _, r in i[4]]
                elif i[0] == 'callf':
                    refs = [i[4]] + list(i[5])
                elif i[0] == 'callp':
                    refs = [i[1]] + list(i[2])
                else:
                    refs = [x for x in i[1:] if isinstance(x, tuple) and len(x) == 2 and x[0] in ('loc', 'glob', 'param')]
                own = i[1] if i[0] in ('const', 'binop', 'unop', 'cast', 'load', 'alloc', 'addressof', 'literal',
                                       'phi', 'undefined', 'callf') else None
                fwd = [r for r in refs if r[0] == 'loc' and r[1] > defined]
                if len(fwd) != len(set(fwd)):
                    return True
                if own is not None:
                    defined = own
    return False


def corpus_modules(irgen, irimport):
    """16 generated modules, at least 5 of them with a forward double use / repeated forward call argument"""
    rng = random.Random(1600)
    plain, double = [], []
    k = 0
    while (len(plain) < 11 or len(double) < 5) and k < 400:
        feats = None if k % 2 else tuple(f for f in irgen.ALL_FEATURES if f != 'shuffle')
        m = irgen.gen_module(rng, size=1 + k % 3, features=feats, name='c%d' % k)
        k += 1
        if forward_double_use(irimport.module_to_py(m)):
            if len(double) < 5:
                double.append(m)
        elif len(plain) < 11:
            plain.append(m)
    return plain + double


def regen(ctx):
    """Gen/c16_corpus.v: generated modules (fixed seed) for the bounded round-trip theorem"""
    import irgen
    import irimport
    from ppci import ir
    mods = corpus_modules(irgen, irimport) + [witnesses(ir)[k] for k in ('fix_ru_generic', 'fix_ru_phi', 'fix_ru_call')]
    text = ['(* generated by tools/props/c16.py from tools/gen/irgen.py (seed 1600); do not edit *)',
            'From PV Require Import Lib.Py Spec.IRSyntax.', 'From Coq Require Import String.', 'Open Scope Z_scope.',
            'Definition corpus : list modul := [']
    text.append(';\n'.join(irimport.module_to_coq(m) for m in mods))
    text.append('].')
    ctx.write_gen('c16_corpus', '\n'.join(text) + '\n')
    ctx.cov['stages']['gen_c16_corpus'] = {'modules': len(mods)}
    return mods


def run(ctx):
    from vlib import ensure_repo_on_path
    ensure_repo_on_path()
    import irgen
    import irimport
    from ppci import ir, irutils
    from ppci.irutils import io as irio
    import logging
    logging.getLogger('verifier').setLevel(logging.ERROR)

    regen(ctx)
    ok, _ = ctx.build(['Proofs/C16_irjson.vo', 'Proofs/C16_roundtrip.vo'])
    if ok:
        ctx.check_props('Props/C16.v')

    # ---- 1. witnesses: one per defect, replayed on the implementation on every run
    wit = witnesses(ir)
    flags = {}
    for k in FLAGS:
        d = oracle(irimport, irutils, wit[k])
        flags[k] = d is None
        if d is not None:
            ctx.violation({'fn': 'from_json(to_json(m))', 'key': k, 'class': classify(d), 'witness': k,
                           'module_json': _safe_json(irio, wit[k]), 'difference': d,
                           'how_to_replay': 'PYTHONPATH=%s /venv/bin/python -c "import sys; sys.path[:0]=[\'/verif/tools\',\'/verif/tools/gen\']; '
                                            'from props import c16; c16.replay_witness(%r)"' % (REPO, k)})
    ctx.cov['stages']['implementation_flags'] = flags
    cfg = cfg_term(flags)

    # ---- 2. correspondence on generated modules
    n = 40 if ctx.quick() else 400
    cases, recs = [], []
    nontriv = 0
    dist = {'writer_ok': 0, 'writer_exc': 0, 'rt_ok': 0, 'rt_exc': 0}
    mods = [wit[k] for k in sorted(wit)]
    for k in range(n):
        feats = None if k % 4 else tuple(f for f in irgen.ALL_FEATURES if f != 'shuffle')
        if k % 4 in (1, 3):
            # + locals/parameters shadowing module-level names, calls to later functions; every other one also
            # several blob types of equal size / different alignment in get_type positions
            feats = irgen.ALL_FEATURES_XB if k % 4 == 1 else irgen.ALL_FEATURES_X
        mods.append(irgen.gen_module(ctx.rng, size=1 + k % 4, features=feats, name='m%d' % k))
    for m in mods:
        term = irimport.module_to_coq(m)
        try:
            d = irio.to_dict(m)
            wv = OkV(json_val(d, irimport))
            dist['writer_ok'] += 1
        except Exception:   # noqa: BLE001
            wv = Internal
            dist['writer_exc'] += 1
        try:
            m2 = real_roundtrip(irutils, m)
            rv = OkV(irimport.module_to_py(m2, allow_dangling=True))
            dist['rt_ok'] += 1
            nontriv += 1 if m.functions else 0
        except Exception:   # noqa: BLE001
            rv = Internal
            dist['rt_exc'] += 1
        cases.append(('let m := %s in (to_dict %s m, roundtrip %s m)' % (term, cfg, cfg), (wv, rv)))
        recs.append(('to_dict+roundtrip', m))
    ctx.cov['distinct_nontrivial'] += nontriv
    ctx.cov['stages']['correspondence_distribution'] = dist
    for m in mods[len(wit)::max(1, n // 6)][:6]:
        ctx.note_sample({'module': m.name, 'stats': m.stats()})
    if ctx.build(['Model/IrJson.vo'])[0]:
        bad = ctx.run_cases('irjson', ['Lib.Json', 'Spec.IRSyntax', 'Model.IrJson'], cases, shard=12)
        if bad:
            for i in bad[:4]:
                ctx.log('model/implementation disagree:', recs[i][0], 'module', recs[i][1].name)
            ctx.failed_stages.append(('correspondence', 'Model.IrJson disagrees with ppci.irutils.io on %d cases, first: %s of module %s'
                                      % (len(bad), recs[bad[0]][0], recs[bad[0]][1].name)))

    # ---- 3. search (independent oracle), deeper when something failed or tier is thorough
    search(ctx, deep=(not ctx.quick()) or bool(ctx.failed_stages))
    ctx.cov['exhaustive'] = False


def _safe_json(irio, m):
    try:
        return json.loads(irio.to_json(m))
    except Exception as ex:   # noqa: BLE001
        return 'to_json raises %s' % type(ex).__name__


def search(ctx, deep=False):
    from vlib import ensure_repo_on_path
    ensure_repo_on_path()
    import irgen
    import irimport
    from ppci import irutils
    from ppci.irutils import io as irio
    import logging
    logging.getLogger('verifier').setLevel(logging.ERROR)
    n = 1500 if deep else 250
    rng = random.Random(ctx.seed * 7919 + 16)
    classes = {}
    for k in range(n):
        m = irgen.gen_module(rng, size=1 + k % 4, features=(irgen.ALL_FEATURES_XB if k % 4 == 1 else irgen.ALL_FEATURES_X) if k % 2 else None,
                             name='s%d' % k)
        d = oracle(irimport, irutils, m)
        if d is None:
            continue
        c = classify(d)
        classes[c] = classes.get(c, 0) + 1
        if classes[c] == 1:
            ctx.violation({'fn': 'from_json(to_json(m))', 'key': c, 'class': c, 'difference': d,
                           'generator': {'seed': ctx.seed * 7919 + 16, 'index': k},
                           'module_json': _safe_json(irio, m)})
    ncf = 0
    try:
        cmods = c_frontend_modules()
    except Exception as ex:   # noqa: BLE001
        ctx.log('C front-end corpus not available: %s' % ex)
        cmods = []
    for name, m in cmods:
        ncf += 1
        d = oracle(irimport, irutils, m)
        if d is not None:
            c = 'c-frontend: ' + classify(d)
            classes[c] = classes.get(c, 0) + 1
            if classes[c] == 1:
                ctx.violation({'fn': 'from_json(to_json(m))', 'key': c, 'class': c, 'difference': d, 'c_source': name,
                               'module_json': _safe_json(irio, m)})
    ctx.cov['stages']['oracle_search'] = {'modules': n, 'c_frontend_modules': ncf, 'failure_classes': classes}
    ctx.cov['evaluations'] += n


C_SOURCES = [
    "struct A {int x, y;}; struct B {double d;}; int fa(struct A a) { return a.x + a.y; } double fb(struct B b) { return b.d; } "
    "int g(struct A a, struct B b) { return fa(a) + (int)fb(b); }",
    "struct P {char c[8];}; struct Q {long l;}; struct P mk(struct Q q) { struct P p; p.c[0] = (char)q.l; return p; } "
    "long use(struct P p, struct Q q) { return p.c[0] + q.l; }",
    "struct S {short a, b, c, d;}; struct T {int i; int j;}; struct U {double d;}; void cp(struct S *s, struct T *t, struct U *u); "
    "int h(struct S s, struct T t, struct U u) { cp(&s, &t, &u); return s.a + t.i; }",
]


def c_frontend_modules():
    """modules from the C front-end with by-value struct parameters (blob types of equal size, different alignment)"""
    import io
    from ppci.api import c_to_ir
    out = []
    for k, src in enumerate(C_SOURCES):
        for arch in ('x86_64', 'arm'):
            out.append(('c%d_%s' % (k, arch), c_to_ir(io.StringIO(src), arch)))
    return out


def replay_witness(k):
    from vlib import ensure_repo_on_path
    ensure_repo_on_path()
    import irimport
    from ppci import ir, irutils
    print(k, '->', oracle(irimport, irutils, witnesses(ir)[k]))


MANIFEST = {
    'text': 'proof: unbounded Coq theorem c16_roundtrip - for every well-formed IR module that satisfies the constructor invariants '
            'of ppci.ir, DictReader applied to the JSON value written by DictWriter reconstructs exactly the module (externals, '
            'initialised globals, subroutines, blocks, every instruction kind, types, constants, volatile flags; forward '
            'references and calls to later subroutines included). The code as found violated the property in 8 ways (5 in '
            'io.py, 3 in ir.py replace_use): 8 Coq refutations, each witness replayed on the implementation on every run; all '
            'fixed in /repo',
    'note': 'trusted: hand model Model/IrJson.v (differentially checked against io.py in both directions on ~50 modules per '
            'run, with per-defect switches probed on the implementation), tools/irimport.py, the json text layer '
            '(json.dumps/loads), Coq kernel. Modules whose locals shadow module-level names are outside wf_modul and are '
            'covered by correspondence and search only.',
    'technique': 'hand model + Coq proof (reader-state invariants) + differential correspondence',
}
