"""C22 — search-only (VALIDATION, not proof) stage for comparison opcodes and their consumers.
wasm2ppci keeps a comparison pending on its value stack and fuses it with the consumer (CJump), so every
comparison (integer signed/unsigned, f32/f64 incl. NaN, +-0.0, +-inf) is executed alone and followed by
i32.eqz, i32.eqz i32.eqz, br_if, if/else, select, eqz+br_if, eqz+if, eqz+select, store to a local then reuse,
and used twice, on the python target, against a reference written from the core spec (4.3.2 irelop, 4.3.3 frelop:
any comparison with a NaN operand is false except ne)."""
import math

INT_REL = ['eq', 'ne', 'lt_s', 'lt_u', 'gt_s', 'gt_u', 'le_s', 'le_u', 'ge_s', 'ge_u']
FLT_REL = ['eq', 'ne', 'lt', 'gt', 'le', 'ge']

# consumer name -> (wasm text around {C} = the instructions leaving the comparison result on the stack,
#                   reference as a function of the comparison result c in {0, 1})
CONSUMERS = {
    'plain': ('{C}', lambda c: c),
    'eqz': ('{C} (i32.eqz)', lambda c: 1 - c),
    'eqz_eqz': ('{C} (i32.eqz) (i32.eqz)', lambda c: c),
    'br_if': ('(block (result i32) (i32.const 10) {C} (br_if 0) (drop) (i32.const 20))', lambda c: 10 if c else 20),
    'if_else': ('{C} (if (result i32) (then (i32.const 11)) (else (i32.const 22)))', lambda c: 11 if c else 22),
    'select': ('(i32.const 7) (i32.const 9) {C} (select)', lambda c: 7 if c else 9),
    'eqz_br_if': ('(block (result i32) (i32.const 10) {C} (i32.eqz) (br_if 0) (drop) (i32.const 20))',
                  lambda c: 20 if c else 10),
    'eqz_if_else': ('{C} (i32.eqz) (if (result i32) (then (i32.const 11)) (else (i32.const 22)))',
                    lambda c: 22 if c else 11),
    'eqz_select': ('(i32.const 7) (i32.const 9) {C} (i32.eqz) (select)', lambda c: 9 if c else 7),
    'local_reuse': ('{C} (local.set {L}) (local.get {L}) (i32.const 5) (i32.mul) (local.get {L}) (i32.add)',
                    lambda c: 6 * c),
    'used_twice': ('{C} (local.tee {L}) (i32.eqz) (i32.const 2) (i32.mul) (local.get {L}) (i32.add)',
                   lambda c: 2 * (1 - c) + c),
}


def all_cmps():
    """[(opcode, operand type, arity)]"""
    out = []
    for t in ('i32', 'i64'):
        out.append(('%s.eqz' % t, t, 1))
        for r in INT_REL:
            out.append(('%s.%s' % (t, r), t, 2))
    for t in ('f32', 'f64'):
        for r in FLT_REL:
            out.append(('%s.%s' % (t, r), t, 2))
    return out


def fn(op, cons):
    return '%s__%s' % (op.replace('.', '_'), cons)


def module_text():
    funcs = []
    for op, ty, ar in all_cmps():
        params = ' '.join('(param %s)' % ty for _ in range(ar))
        gets = ' '.join('(local.get %d)' % i for i in range(ar))
        cmpi = '%s (%s)' % (gets, op)
        for cons, (tmpl, _ref) in CONSUMERS.items():
            body = tmpl.replace('{C}', cmpi).replace('{L}', str(ar))
            funcs.append('(func $%s (export "%s") %s (result i32) (local i32) %s)' % (fn(op, cons), fn(op, cons), params, body))
    return '(module\n' + '\n'.join(funcs) + ')'


def reference(op, args):
    """the comparison result 0/1 per the spec; integer operands are ppci's signed ints"""
    ty, name = op.split('.')
    if ty[0] == 'i':
        n = 32 if ty == 'i32' else 64
        if name == 'eqz':
            return int(args[0] % (1 << n) == 0)
        a, b = args
        if name.endswith('_u') or name in ('eq', 'ne'):
            a, b = a % (1 << n), b % (1 << n)
        base = name[:2]
    else:
        a, b = args
        if math.isnan(a) or math.isnan(b):
            return int(name == 'ne')
        base = name
    return int({'eq': a == b, 'ne': a != b, 'lt': a < b, 'gt': a > b, 'le': a <= b, 'ge': a >= b}[base])


def pools(rng):
    nan, inf = float('nan'), float('inf')
    f64 = [0.0, -0.0, 1.0, -1.0, inf, -inf, nan, 1.5, 5e-324, rng.uniform(-4, 4)]
    f32 = [0.0, -0.0, 1.0, -1.0, inf, -inf, nan, 1.5, 0.25]
    out = {'f64': f64, 'f32': f32}
    for t, n in (('i32', 32), ('i64', 64)):
        mn, mx = -(1 << (n - 1)), (1 << (n - 1)) - 1
        out[t] = [0, 1, -1, 2, -2, mn, mx, rng.randrange(mn, mx + 1)]
    return out


def fmt(x):
    return repr(x)


def cmp_stage(ctx):
    """returns the number of evaluations; mismatches go through ctx.violation (dedup per opcode+consumer)"""
    from props import c22_exec as X
    try:
        inst = X.instantiate_ops(module_text(), 'python')
    except Exception as ex:   # noqa: BLE001
        ctx.violation({'fn': 'comparison/consumer module', 'args': [], 'kind': 'cmp-search',
                       'what': 'instantiation failed: %r' % (ex,)})
        return 0
    pl = pools(ctx.rng)
    n = bad = 0
    for op, ty, ar in all_cmps():
        vals = pl[ty]
        tuples = [(a,) for a in vals] if ar == 1 else [(a, b) for a in vals for b in vals]
        for cons, (_tmpl, ref) in CONSUMERS.items():
            reported = False
            for args in tuples:
                exp = ref(reference(op, args))
                got = X.run_export(inst, fn(op, cons), args)
                n += 1
                if not (got[0] == 'ok' and got[1] == exp):
                    bad += 1
                    if not reported:
                        reported = True
                        ctx.violation({'fn': '%s ; %s' % (op, cons), 'args': [fmt(a) for a in args], 'kind': 'cmp-search',
                                       'expected': exp, 'actual': got[1] if got[0] == 'ok' else '%s (%s)' % got,
                                       'wasm': CONSUMERS[cons][0].replace('{C}', '<operands> (%s)' % op).replace('{L}', str(ar)),
                                       'how_to_replay': 'tools/props/c22_cmp.py: instantiate(Module(module_text()), target="python")'
                                                        '.exports.%s(%s)' % (fn(op, cons), ', '.join(fmt(a) for a in args))})
    ctx.cov['stages']['comparison_consumer_search'] = {
        'evaluations': n, 'mismatches': bad, 'comparisons': len(all_cmps()), 'consumers': sorted(CONSUMERS),
        'note': 'validation only (differential test), not a proof'}
    ctx.cov['evaluations'] += n
    return n
