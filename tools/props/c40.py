"""C40 — x86-64 code interoperates with the System V ABI (DESIGN §4 C40). PARTIAL (LEVEL 'other').

tie I: regen() exports from the current /repo to coq/Gen/Tab_x86abi.v
         * the argument register lists and the stack slot sizes of determine_arg_locations
           (read from the function's AST, sysv branch; fail-closed, cross-checked by probing),
         * callee_save / caller_save lists, allocatable registers of every register class,
           arch.info.alias of the saved registers, register class and size of each IR type.
tie H: coq/Model/X86Abi.v mirrors determine_arg_locations, determine_rv_location, the stack
       accounting of gen_call, the reads of gen_function_enter, gen_prologue / gen_epilogue
       as lists of abstract stack operations; every run compares model and implementation on
       sampled signatures and synthetic frames.
Spec: coq/Spec/SysVSpec.v (psABI parameter passing, callee-saved set, abstract stack machine).
Search: independent Python SysV oracle against the real determine_arg_locations / gen_call /
       gen_function_enter / gen_prologue / gen_epilogue; optional gcc link-and-run (thorough).
"""
import ast
import itertools
import json
import os
import re
import subprocess
import sys

import vlib
from vlib import OkV, Diag, Internal, TieBroken

LEVEL = 'other'
RULE = ('signatures: every length 0..10 over the 11 scalar IR types {i8,i16,i32,i64,u8,u16,u32,u64,ptr,f32,f64}: all '
        'signatures of length <= 2, homogeneous and two-type boundary signatures around the 6/8 register limits, plus '
        'seeded random ones (quick ~1200 signatures, thorough ~6500); frames: stacksize in a boundary pool x every subset of the '
        'exported callee_save list (through aliases). distinct non-trivial = distinct signature with at least one stack-passed '
        'argument, or distinct frame with stacksize > 0 or a saved register')
EXPLANATION = ('PARTIAL. Proved (Coq, all signatures / all frames): argument and return locations of the model equal the psABI '
               'assignment; the callee reads every stack argument where the caller pushed it; rsp is 16-byte aligned at the '
               'call; prologue+body+epilogue restore rsp, rbp and every saved register on an abstract stack machine; every '
               'allocatable ABI-callee-saved register is covered by callee_save, every other allocatable register by the call '
               'clobber list. NOT modelled: instruction encodings and semantics of the emitted moves (sign/zero extension, '
               'movss/movsd), struct (blob) arguments, varargs (al), wincc, register allocation itself, ELF/relocations, '
               'native execution. The hand model is tied to the code by differential correspondence only.')
TRUSTED = ['hand model coq/Model/X86Abi.v == ppci/arch/x86_64/arch.py (checked by per-run correspondence on sampled signatures/frames)',
           'table exporter in tools/props/c40.py (AST read of determine_arg_locations + introspection of registers.py/ArchInfo)',
           'mapping of ppci instruction objects to abstract stack operations in tools/props/c40.py (by class name and printed syntax)',
           'reading of the psABI 1.0 section 3.2 and of the Intel SDM register numbering in coq/Spec/SysVSpec.v']
ASSUMPTIONS = ['sysv convention only (no "wincc" option)', 'scalar arguments only; virtual register class of an argument = '
               'arch.info.value_classes[type]', 'function bodies keep rsp where the prologue left it and write only below rsp and '
               'into [rbp-stacksize, rbp)', 'a 4-byte read at the start of an 8-byte slot yields the low half (little endian)']

TYPES = ['i8', 'i16', 'i32', 'i64', 'u8', 'u16', 'u32', 'u64', 'ptr', 'f32', 'f64']
COQTY = {t: t.upper() for t in TYPES}
CLS = {'Register8': 'R8c', 'Register16': 'R16c', 'Register32': 'R32c', 'Register64': 'R64c',
       'XmmRegisterSingle': 'XSc', 'XmmRegisterDouble': 'XDc'}
CLSTAG = {'R8c': 8, 'R16c': 16, 'R32c': 32, 'R64c': 64, 'XSc': 132, 'XDc': 164}
SRC = 'ppci/arch/x86_64/arch.py'


# ---------------------------------------------------------------- implementation access
class Impl:
    def __init__(self):
        vlib.ensure_repo_on_path()
        from ppci import ir
        from ppci.api import get_arch
        from ppci.arch.x86_64 import registers
        from ppci.arch.stack import Frame, StackLocation
        from ppci.arch.registers import Register
        self.ir, self.R, self.Frame, self.StackLocation, self.Register = ir, registers, Frame, StackLocation, Register
        self.arch = get_arch('x86_64')
        self.ty = {t: getattr(ir, t) for t in TYPES}

    def regt(self, r):
        """(name, num, class tag) of a real register"""
        return (r.name, r.num, CLSTAG[CLS[type(r).__name__]])

    def loct(self, l):
        if isinstance(l, self.StackLocation):
            return ('stack', l.offset, l.size)
        return ('reg', self.regt(l))

    def arg_locations(self, sig):
        return [self.loct(l) for l in self.arch.determine_arg_locations([self.ty[t] for t in sig])]

    def vregs(self, frame, sig):
        return [(self.ty[t], frame.new_reg(self.arch.info.value_classes[self.ty[t]])) for t in sig]

    # -- instruction lists -> abstract operations (mirrors Model.X86AbiTypes.mop)
    def abstract(self, instrs, argvregs):
        """map an instruction list to abstract ops; argvregs: list of virtual registers (index = arg)"""
        R = self.R
        idx = {id(v): i for i, v in enumerate(argvregs)}
        acc_family = {R.rax, R.eax, R.ax, R.al}
        acc = None
        out = []
        for ins in instrs:
            cn = type(ins).__name__
            txt = str(ins)
            if cn == 'RegisterUseDef':
                continue
            if cn == 'Label':
                out.append(('label',))
                continue
            if cn in ('Db',):
                out.append(('db',))
                continue
            m = re.fullmatch(r'(sub|add) rsp, (-?\d+)', txt)
            if m:
                out.append((m.group(1), int(m.group(2))))
                continue
            if txt == 'mov rbp, rsp':
                out.append(('movfpsp',))
                continue
            if cn in ('Push', 'PushXmmRegisterDouble', 'PushXmmRegisterSingle'):
                r = ins.used_registers[0]
                if id(r) in idx:
                    if cn == 'PushXmmRegisterSingle':
                        # a float is pushed as  sub rsp, 4 ; (sub rsp, 4 ; movss [rsp], r): one eightbyte
                        if out and out[-1] == ('sub', 4):
                            out.pop()
                            out.append(('pusharg', idx[id(r)]))
                        else:
                            out.append(('unknown', 'push of a 4-byte float slot: ' + txt))
                    else:
                        out.append(('pusharg', idx[id(r)]))
                elif r in acc_family and acc is not None:
                    out.append(('pusharg', acc))
                elif r.is_colored and not id(r) in idx:
                    out.append(('push', self.regt(r)))
                else:
                    out.append(('unknown', txt))
                continue
            if cn in ('Pop', 'PopXmmRegisterDouble', 'PopXmmRegisterSingle'):
                out.append(('pop', self.regt(ins.defined_registers[0])))
                continue
            if cn in ('Call', 'CallReg'):
                out.append(('call',))
                acc = None
                continue
            if cn == 'Ret':
                out.append(('ret',))
                continue
            m = re.fullmatch(r'(mov|movss|movsd|movsx) (\S+), \[rbp, (-?\d+)\]', txt)
            if m and len(ins.defined_registers) == 1 and id(ins.defined_registers[0]) in idx:
                d = ins.defined_registers[0]
                out.append(('argfromstack', idx[id(d)], int(m.group(3)), d.bitsize))
                continue
            if m and len(ins.defined_registers) == 1 and ins.defined_registers[0] in acc_family:
                acc = ('stack', int(m.group(3)))      # parameter loaded into rax, narrowed below
                continue
            defs, uses = list(ins.defined_registers), list(ins.used_registers)
            if re.match(r'(mov|movss|movsd|movsx) ', txt) and len(defs) == 1 and len(uses) == 1:
                d, u = defs[0], uses[0]
                src = idx.get(id(u), acc if u in acc_family else None)
                if d in acc_family:
                    acc = src if id(u) in idx or u in acc_family else ('reg', self.regt(u))
                    continue
                if id(d) in idx:        # callee: parameter vreg receives a value
                    if u in acc_family and isinstance(acc, tuple) and acc[0] == 'stack':
                        out.append(('argfromstack', idx[id(d)], acc[1], d.bitsize))
                    elif u in acc_family and isinstance(acc, tuple):
                        out.append(('argfromreg', idx[id(d)], acc[1]))
                    elif u.is_colored:
                        out.append(('argfromreg', idx[id(d)], self.regt(u)))
                    else:
                        out.append(('unknown', txt))
                    continue
                if d.is_colored and isinstance(src, int):
                    out.append(('argtoreg', self.regt(d), src))
                    continue
                if (not d.is_colored) and u.is_colored:
                    out.append(('rvfrom', self.regt(u)))
                    continue
            out.append(('unknown', txt))
        return out

    def gen_call(self, sig, rv=None):
        fr = self.Frame('caller')
        args = self.vregs(fr, sig)
        rvp = None
        if rv is not None:
            rvp = (self.ty[rv], fr.new_reg(self.arch.info.value_classes[self.ty[rv]]))
        ins = list(self.arch.gen_call(fr, 'callee', args, rvp))
        return self.abstract(ins, [a[1] for a in args])

    def gen_function_enter(self, sig):
        fr = self.Frame('callee')
        args = self.vregs(fr, sig)
        ins = list(self.arch.gen_function_enter(args))
        return self.abstract(ins, [a[1] for a in args])

    # -- by-value aggregates: signature elements are type names or ('b', size)
    def xtypes(self, xs):
        return [self.ir.BlobDataTyp(x[1], 8 if x[1] % 8 == 0 else (4 if x[1] % 4 == 0 else 1)) if isinstance(x, tuple)
                else self.ty[x] for x in xs]

    def arg_locations_x(self, xs):
        return [self.loct(l) for l in self.arch.determine_arg_locations(self.xtypes(xs))]

    def call_rsp_drop_x(self, xs):
        """bytes rsp has been lowered by when the call instruction of gen_call executes"""
        fr = self.Frame('caller')
        args, off = [], 0
        for x, t in zip(xs, self.xtypes(xs)):
            if isinstance(x, tuple):
                off -= x[1]
                args.append((t, self.StackLocation(off, x[1])))
            else:
                args.append((t, fr.new_reg(self.arch.info.value_classes[t])))
        drop = 0
        for ins in self.arch.gen_call(fr, 'callee', args, None):
            cn, txt = type(ins).__name__, str(ins)
            m = re.fullmatch(r'sub rsp, (-?\d+)', txt)
            if m:
                drop += int(m.group(1))
            elif cn == 'Push':
                drop += 8
            elif cn == 'PushXmmRegisterDouble':
                drop += 8
            elif cn == 'PushXmmRegisterSingle':
                drop += 4
            elif cn in ('Call', 'CallReg'):
                return drop
        raise RuntimeError('no call instruction')

    def frame(self, stacksize, used_names):
        fr = self.Frame('f')
        fr.stacksize = stacksize
        fr.used_regs = {self.reg_by_name(n) for n in used_names}
        return fr

    def reg_by_name(self, key):
        """key = 'name/classTag' (xmm0 exists as single and double)"""
        if not hasattr(self, '_byname'):
            regs = []
            for rc in self.arch.info.register_classes:
                regs += list(rc.registers or [])
            for k, v in self.arch.info.alias.items():
                regs += [k] + list(v)
            regs += [self.R.rbp, self.R.rsp, self.R.r12, self.R.r13]
            self._byname = {'%s/%d' % (r.name, CLSTAG[CLS[type(r).__name__]]): r for r in regs}
        return self._byname[key]

    def prologue(self, stacksize, used):
        return self.abstract(list(self.arch.gen_prologue(self.frame(stacksize, used))), [])

    def epilogue(self, stacksize, used):
        return self.abstract(list(self.arch.gen_epilogue(self.frame(stacksize, used))), [])


def outcome(fn, *a):
    """OkV(value) | Internal (NotImplementedError, assert, ... : none of these is a documented diagnostic)"""
    try:
        return OkV(fn(*a))
    except Exception:    # noqa: BLE001
        return Internal


# ---------------------------------------------------------------- table export (tie I)
def _attr_reg(node, regmod):
    if isinstance(node, ast.Attribute) and isinstance(node.value, ast.Name) and node.value.id == 'registers':
        return getattr(regmod, node.attr)
    raise TieBroken('determine_arg_locations: register expression not of the form registers.<name>: %s' % ast.dump(node)[:80])


def read_arg_tables(impl):
    """read int_regs / float_regs (sysv branch) and the stack slot size expressions from the AST of
    X86_64Arch.determine_arg_locations; fail-closed"""
    path = os.path.join(vlib.REPO, SRC)
    tree = ast.parse(open(path).read())
    fn = None
    for node in ast.walk(tree):
        if isinstance(node, ast.ClassDef) and node.name == 'X86_64Arch':
            for b in node.body:
                if isinstance(b, ast.FunctionDef) and b.name == 'determine_arg_locations':
                    fn = b
    if fn is None:
        raise TieBroken('X86_64Arch.determine_arg_locations not found')
    tabs = {}
    for st in fn.body:
        if isinstance(st, ast.If) and 'wincc' in ast.dump(st.test):
            for a in st.orelse:
                if isinstance(a, ast.Assign) and len(a.targets) == 1 and isinstance(a.targets[0], ast.Name) \
                        and a.targets[0].id in ('int_regs', 'float_regs') and isinstance(a.value, ast.List):
                    pairs = []
                    for el in a.value.elts:
                        if not (isinstance(el, ast.Tuple) and len(el.elts) == 2):
                            raise TieBroken('register list element is not a pair')
                        pairs.append((_attr_reg(el.elts[0], impl.R), _attr_reg(el.elts[1], impl.R)))
                    tabs[a.targets[0].id] = pairs
    if set(tabs) != {'int_regs', 'float_regs'}:
        raise TieBroken('int_regs / float_regs literals of the sysv branch not found')
    loop = [st for st in fn.body if isinstance(st, ast.For)]
    if len(loop) != 1 or not isinstance(loop[0].body[0], ast.If):
        raise TieBroken('argument loop of determine_arg_locations has an unexpected shape')
    slots = []
    branch = loop[0].body[0]
    for _ in range(2):
        inner = [s for s in branch.body if isinstance(s, ast.If)]
        if len(inner) != 1:
            raise TieBroken('register/stack decision not found')
        asg = [s for s in inner[0].orelse if isinstance(s, ast.Assign) and isinstance(s.targets[0], ast.Name)
               and s.targets[0].id == 'arg_size']
        if len(asg) != 1:
            raise TieBroken('arg_size assignment not found')
        v = asg[0].value
        if isinstance(v, ast.Constant) and isinstance(v.value, int):
            slots.append(lambda t, c=v.value: c)
        elif isinstance(v, ast.Call) and isinstance(v.func, ast.Attribute) and v.func.attr == 'get_size':
            slots.append(lambda t: impl.arch.info.get_size(impl.ty[t]))
        else:
            raise TieBroken('arg_size expression not understood: ' + ast.dump(v)[:80])
        if not (branch.orelse and isinstance(branch.orelse[0], ast.If)):
            raise TieBroken('type dispatch chain too short')
        branch = branch.orelse[0]
    tabs['int_slot'] = slots[0]
    tabs['fp_slot'] = slots[1]
    return tabs


def coq_reg(impl, r):
    return '(mkreg "%s" %d %s)' % (r.name, r.num, CLS[type(r).__name__])


def table_text(impl):
    tabs = read_arg_tables(impl)
    a = impl.arch
    cr = lambda r: coq_reg(impl, r)
    L = ['(* GENERATED by tools/props/c40.py from %s and registers.py — do not edit *)' % SRC,
         'From PV Require Import Lib.Py Model.X86AbiTypes.', 'From Coq Require Import String.',
         'Open Scope Z_scope.', 'Local Open Scope string_scope.', '']
    for nm in ('int_regs', 'float_regs'):
        L.append('Definition tab_%s : list (reg * reg) := [%s].' % (
            nm, '; '.join('(%s, %s)' % (cr(x), cr(y)) for x, y in tabs[nm])))
    isl = {tabs['int_slot'](t) for t in TYPES if t not in ('f32', 'f64')}
    if len(isl) != 1:
        # the model has one constant for integers (the code says "arg_size = 8"); anything else breaks the tie
        raise TieBroken('integer stack slot size is not a single constant: %r' % sorted(isl))
    L.append('Definition tab_int_slot : Z := %d.' % isl.pop())
    L.append('Definition tab_fp_slot (t : ity) : Z := match t with F32 => %d | _ => %d end.' % (
        tabs['fp_slot']('f32'), tabs['fp_slot']('f64')))
    L.append('Definition tab_type_size (t : ity) : Z := match t with %s end.' % ' | '.join(
        '%s => %d' % (COQTY[t], a.info.get_size(impl.ty[t])) for t in TYPES))
    L.append('Definition tab_class_of_type (t : ity) : rcls := match t with %s end.' % ' | '.join(
        '%s => %s' % (COQTY[t], CLS[a.info.value_classes[impl.ty[t]].__name__]) for t in TYPES))
    L.append('Definition tab_callee_save : list reg := [%s].' % '; '.join(cr(r) for r in a._callee_save))
    L.append('Definition tab_caller_save : list reg := [%s].' % '; '.join(cr(r) for r in a._caller_save))
    alloc = []
    for rc in a.info.register_classes:
        for r in rc.registers or []:
            if r not in alloc:
                alloc.append(r)
    L.append('Definition tab_allocatable : list reg := [%s].' % ';\n  '.join(cr(r) for r in alloc))
    al = []
    for r in list(a._callee_save) + list(a._caller_save):
        al.append('(%s, [%s])' % (cr(r), '; '.join(cr(x) for x in a.info.alias.get(r, []))))
    L.append('Definition tab_alias : list (reg * list reg) := [%s].' % ';\n  '.join(al))
    # per-repair switches, probed from the witnesses of the recorded defects on every run
    sw = {'tab_call_push_fp': isinstance(outcome(impl.gen_call, ['f64'] * 9, None), OkV)
          and isinstance(outcome(impl.gen_call, ['f32'] * 9, None), OkV),
          'tab_call_push_small': isinstance(outcome(impl.gen_call, ['i64'] * 6 + ['i8'], None), OkV)
          and isinstance(outcome(impl.gen_call, ['i64'] * 6 + ['u16'], None), OkV),
          'tab_enter_small': isinstance(outcome(impl.gen_function_enter, ['i64'] * 6 + ['i8']), OkV)
          and isinstance(outcome(impl.gen_function_enter, ['i64'] * 6 + ['u16']), OkV)}
    for k in sorted(sw):
        L.append('Definition %s : bool := %s.' % (k, 'true' if sw[k] else 'false'))
    tabs['switches'] = sw
    L.append('Definition tab_rbp : reg := %s.' % cr(impl.R.rbp))
    L.append('Definition tab_rsp : reg := %s.' % cr(impl.R.rsp))
    return '\n'.join(L) + '\n', tabs


def regen(ctx):
    impl = Impl()
    try:
        text, tabs = table_text(impl)
    except TieBroken as ex:
        ctx.log('table export failed:', ex)
        ctx.failed_stages.append(('export', str(ex)))
        raise
    changed = ctx.write_gen('Tab_x86abi', text)
    ctx.cov['stages']['gen_Tab_x86abi'] = {'file': SRC, 'changed_on_disk': changed,
                                           'int_regs': [x.name for x, _ in tabs['int_regs']],
                                           'float_regs': [y.name for _, y in tabs['float_regs']],
                                           'fp_slot_f32': tabs['fp_slot']('f32'), 'switches': tabs['switches']}
    return impl, tabs


# ---------------------------------------------------------------- independent SysV oracle (search)
INT_SEQ = ['rdi', 'rsi', 'rdx', 'rcx', 'r8', 'r9']       # psABI 3.2.3
HW_NUM = {'rax': 0, 'rcx': 1, 'rdx': 2, 'rbx': 3, 'rsp': 4, 'rbp': 5, 'rsi': 6, 'rdi': 7,
          'r8': 8, 'r9': 9, 'r10': 10, 'r11': 11, 'r12': 12, 'r13': 13, 'r14': 14, 'r15': 15}
ABI_CALLEE_SAVED = {3, 5, 12, 13, 14, 15}


def sysv_places(sig):
    """psABI placement of scalar arguments: ('g', hwnum) | ('x', n) | ('m', offset from rsp at the call)"""
    ni = nf = stk = 0
    out = []
    for t in sig:
        if t in ('f32', 'f64'):
            if nf < 8:
                out.append(('x', nf))
                nf += 1
            else:
                out.append(('m', stk))
                stk += 8
        else:
            if ni < 6:
                out.append(('g', HW_NUM[INT_SEQ[ni]]))
                ni += 1
            else:
                out.append(('m', stk))
                stk += 8
    return out


def phys_of(regt):
    name, num, tag = regt
    if tag in (132, 164):
        return ('x', num)
    if tag == 8 and 4 <= num < 8:
        return ('g', num - 4)
    return ('g', num)


def impl_places(impl, sig):
    out = []
    for l in impl.arg_locations(sig):
        out.append(('m', l[1] - 16) if l[0] == 'stack' else phys_of(l[1]))
    return out


def simulate(ops, rsp, regs=None, mem=None):
    """the abstract stack machine of Spec/SysVSpec.v re-implemented for the search (8-byte pushes)"""
    regs = dict(regs or {})
    mem = dict(mem or {})
    at_call = None
    for o in ops:
        k = o[0]
        if k in ('label', 'db', 'rvfrom', 'argfromreg', 'argfromstack'):
            continue
        if k == 'push':
            rsp -= 8
            mem[rsp] = regs.get(phys_of(o[1]), ('init', phys_of(o[1])))
        elif k == 'pusharg':
            rsp -= 8
            mem[rsp] = ('arg', o[1])
        elif k == 'pop':
            if rsp not in mem:
                return None
            regs[phys_of(o[1])] = mem[rsp]
            rsp += 8
        elif k == 'sub':
            rsp -= o[1]
        elif k == 'add':
            rsp += o[1]
        elif k == 'movfpsp':
            regs[('g', 5)] = ('addr', rsp)
        elif k == 'argtoreg':
            regs[phys_of(o[1])] = ('arg', o[2])
        elif k == 'call':
            at_call = (rsp, dict(regs), dict(mem))
        elif k == 'body':
            b = regs.get(('g', 5))
            if not b or b[0] != 'addr':
                return None
            for a in list(mem):
                if (b[1] - o[1] - 8 < a < b[1]) or a < rsp:
                    mem[a] = ('junk',)
            for p in o[2]:
                regs[p] = ('junk',)
        elif k == 'ret':
            if mem.get(rsp) != ('retaddr',):
                return None
            rsp += 8
        else:
            return None
    return rsp, regs, mem, at_call


def defect_places(sig):
    """what the psABI walk gives when a stack-passed float takes a 4-byte slot (the reported defect)"""
    out, shift = [], 0
    for t, w in zip(sig, sysv_places(sig)):
        if w[0] == 'm':
            out.append(('m', w[1] - shift))
            if t == 'f32':
                shift += 4
        else:
            out.append(w)
    return out


def stack_classes(sig):
    cl = set()
    for t, w in zip(sig, sysv_places(sig)):
        if w[0] == 'm':
            cl.add('fp' if t in ('f32', 'f64') else ('small-int' if t in ('i8', 'u8', 'i16', 'u16') else 'int'))
    return cl


def check_signature(impl, ctx, sig):
    """implementation vs psABI oracle for one signature; reports violations; returns evaluations"""
    n = 1
    want = sysv_places(sig)
    got = impl_places(impl, sig)
    if got != want:
        bad = [i for i, (a, b) in enumerate(zip(got, want)) if a != b]
        ctx.violation({'fn': 'determine_arg_locations', 'args': list(sig), 'expected': [list(x) for x in want],
                       'actual': [list(x) for x in got], 'first_wrong_argument': bad[0] if bad else None,
                       'key': 'f32-stack-slot-4-bytes' if got == defect_places(sig) else 'determine_arg_locations:other',
                       'how_to_replay': 'PYTHONPATH=$REPO python -c "from ppci import ir; from ppci.api import get_arch; '
                                        'print(get_arch(\'x86_64\').determine_arg_locations([%s]))"' % ', '.join('ir.' + t for t in sig)})
    call = outcome(impl.gen_call, list(sig), None)
    enter = outcome(impl.gen_function_enter, list(sig))
    n += 2
    sc = stack_classes(sig)
    for nm, o in (('gen_call', call), ('gen_function_enter', enter)):
        if not isinstance(o, OkV):
            cause = sorted(sc & ({'fp', 'small-int'} if nm == 'gen_call' else {'small-int'}))
            ctx.violation({'fn': nm, 'args': list(sig),
                           'key': ('NotImplemented:stack-passed-' + '+'.join(cause)) if cause else nm + ':exception:other',
                           'what': 'exception (NotImplementedError) for a stack-passed %s argument' % '/'.join(cause or ['?']),
                           'expected': 'an instruction sequence', 'actual': 'exception',
                           'how_to_replay': 'call X86_64Arch.%s with virtual registers of the value classes of %r' % (nm, list(sig))})
        elif any(x[0] == 'unknown' for x in o.v):
            ctx.violation({'fn': nm, 'args': list(sig), 'what': 'instruction not understood by the abstraction',
                           'actual': [x for x in o.v if x[0] == 'unknown'][:3]})
    if isinstance(call, OkV):
        rsp0 = 1 << 20
        r = simulate(call.v, rsp0)
        if r is None or r[3] is None:
            ctx.violation({'fn': 'gen_call', 'args': list(sig), 'what': 'call sequence gets stuck on the stack machine'})
        else:
            rsp_end, _, _, (rsp_call, regs_call, mem_call) = r
            if rsp_call % 16 != 0:
                ctx.violation({'fn': 'gen_call', 'args': list(sig), 'what': 'rsp not 16-byte aligned at the call',
                               'expected': 0, 'actual': rsp_call % 16, 'key': 'gen_call:alignment'})
            if rsp_end != rsp0:
                ctx.violation({'fn': 'gen_call', 'args': list(sig), 'what': 'rsp not restored after the call',
                               'expected': 0, 'actual': rsp_end - rsp0, 'key': 'gen_call:balance'})
            for i, w in enumerate(want):       # every argument is where the psABI says
                have = mem_call.get(rsp_call + w[1]) if w[0] == 'm' else regs_call.get(w)
                if have != ('arg', i):
                    ctx.violation({'fn': 'gen_call', 'args': list(sig), 'key': 'gen_call:placement',
                                   'what': 'argument %d is not at its psABI place at the call' % i,
                                   'expected': list(w), 'actual': repr(have)})
                    break
    if isinstance(enter, OkV):
        seen = {}
        for o in enter.v:
            if o[0] == 'argfromstack':
                seen[o[1]] = ('m', o[2] - 16)
            elif o[0] == 'argfromreg':
                seen[o[1]] = phys_of(o[2])
        for i, w in enumerate(want):
            if seen.get(i) != w:
                ctx.violation({'fn': 'gen_function_enter', 'args': list(sig),
                               'key': 'f32-stack-slot-4-bytes' if seen.get(i) == defect_places(sig)[i] else 'gen_function_enter:placement',
                               'what': 'parameter %d is not read from its psABI place' % i,
                               'expected': list(w), 'actual': repr(seen.get(i))})
                break
    return n


def check_frame(impl, ctx, stacksize, used):
    pro = impl.prologue(stacksize, used)
    epi = impl.epilogue(stacksize, used)
    rsp0 = (1 << 20) + 8
    clob = {phys_of(impl.regt(impl.reg_by_name(u))) for u in used}
    ops = pro + [('body', stacksize, sorted(clob))] + epi
    r = simulate(ops, rsp0, mem={rsp0: ('retaddr',)})
    rec = {'fn': 'gen_prologue/gen_epilogue', 'args': [stacksize, sorted(used)]}
    if any(x[0] == 'unknown' for x in ops):
        ctx.violation(dict(rec, what='instruction not understood by the abstraction'))
        return 1
    if r is None:
        ctx.violation(dict(rec, what='prologue/body/epilogue gets stuck (pop of an unwritten slot, clobbered return address)',
                           key='frame:stuck'))
        return 1
    rsp_end, regs, mem, _ = r
    if rsp_end != rsp0 + 8:
        ctx.violation(dict(rec, what='rsp after ret differs from entry rsp + 8', expected=0, actual=rsp_end - rsp0 - 8,
                           key='frame:rsp'))
    for p in [('g', n) for n in sorted(ABI_CALLEE_SAVED)]:
        v = regs.get(p, ('init', p))
        if v != ('init', p):
            ctx.violation(dict(rec, what='ABI callee-saved register %r not restored' % (p,), actual=repr(v), key='frame:callee-saved'))
            break
    # alignment after the prologue
    rp = simulate(pro, rsp0, mem={rsp0: ('retaddr',)})
    if rp and rp[0] % 16 != 0:
        ctx.violation(dict(rec, what='rsp after the prologue is not 16-byte aligned', actual=rp[0] % 16, key='frame:alignment'))
    return 1


def check_tables(impl, ctx):
    a = impl.arch
    cs = list(a._callee_save)
    cl = list(a._caller_save)
    n = 0
    for rc in a.info.register_classes:
        for r in rc.registers or []:
            n += 1
            p = phys_of(impl.regt(r))
            preserved = p[0] == 'g' and p[1] in ABI_CALLEE_SAVED
            if p in (('g', 4), ('g', 5)):
                ctx.violation({'fn': 'register_classes', 'args': [r.name], 'what': 'rsp/rbp is allocatable'})
            tab = cs if preserved else cl
            if not any(r in a.info.alias.get(c, ()) for c in tab):
                ctx.violation({'fn': 'callee_save' if preserved else 'caller_save', 'args': [r.name],
                               'what': 'allocatable register %s (%s by the ABI) is not covered by the %s list'
                                       % (r.name, 'preserved' if preserved else 'clobbered', 'callee_save' if preserved else 'caller_save'),
                               'how_to_replay': 'inspect ppci/arch/x86_64/registers.py'})
    for c in cl:
        p = phys_of(impl.regt(c))
        if p[0] == 'g' and p[1] in ABI_CALLEE_SAVED:
            pass    # over-approximating the clobbers is harmless
    return n


def sysv_places_x(xs):
    """psABI placement with class MEMORY aggregates (size > 16): ('m', off) for scalars, ('M', off, size) for aggregates"""
    ni = nf = stk = 0
    out = []
    for x in xs:
        if isinstance(x, tuple):
            sz = (x[1] + 7) // 8 * 8
            out.append(('M', stk, sz))
            stk += sz
        elif x in ('f32', 'f64'):
            if nf < 8:
                out.append(('x', nf)); nf += 1
            else:
                out.append(('m', stk)); stk += 8
        else:
            if ni < 6:
                out.append(('g', HW_NUM[INT_SEQ[ni]])); ni += 1
            else:
                out.append(('m', stk)); stk += 8
    return out


def blob_signatures(ctx, thorough):
    rng = ctx.rng
    sizes = [17, 20, 24, 32, 40, 48, 100, 24, 32]
    out = [[('b', 24)], [('b', 20), ('b', 24)], ['i64', ('b', 24), 'f64'], [('b', 32)] + ['i64'] * 7, [('b', 4)], [('b', 8)],
           [('b', 12), 'i64'], [('b', 16)], ['i64'] * 7 + [('b', 24)], [('b', 40), 'f64', ('b', 24), 'i32']]
    for _ in range(300 if thorough else 70):
        n = rng.randrange(1, 9)
        out.append([('b', rng.choice(sizes)) if rng.random() < 0.4 else rng.choice(['i64', 'i32', 'f64', 'ptr', 'f32']) for _ in range(n)])
    return out


def check_blob_signature(impl, ctx, xs):
    """aggregates by value: the implementation against the psABI. Aggregates of at most 16 bytes belong in
    registers (class INTEGER/SSE); larger ones in memory, each rounded up to eightbytes; rsp aligned at the call"""
    locs = impl.arg_locations_x(xs)
    small = [x for x, l in zip(xs, locs) if isinstance(x, tuple) and x[1] <= 16 and l[0] == 'stack']
    show = [list(x) if isinstance(x, tuple) else x for x in xs]
    if small:
        ctx.violation({'fn': 'determine_arg_locations', 'args': show, 'key': 'struct-by-value:small-aggregate-on-stack',
                       'what': 'an aggregate of %d bytes (class INTEGER/SSE, at most two eightbytes) is passed on the stack; '
                               'the psABI passes it in registers' % small[0][1]})
    else:
        want = sysv_places_x(xs)
        got = [(('M', l[1] - 16, l[2]) if isinstance(x, tuple) else ('m', l[1] - 16)) if l[0] == 'stack' else phys_of(l[1])
               for x, l in zip(xs, locs)]
        if [g[:2] for g in got] != [w[:2] for w in want]:
            odd = any(isinstance(x, tuple) and x[1] % 8 for x in xs)
            ctx.violation({'fn': 'determine_arg_locations', 'args': show, 'expected': [list(w) for w in want],
                           'actual': [list(g) for g in got],
                           'key': 'struct-by-value:size-not-rounded-to-eightbyte' if odd else 'struct-by-value:placement'})
    drop = outcome(impl.call_rsp_drop_x, xs)
    if isinstance(drop, OkV) and drop.v % 16 != 0:
        odd = any(isinstance(x, tuple) and x[1] % 8 for x in xs)
        ctx.violation({'fn': 'gen_call', 'args': show, 'what': 'rsp not 16-byte aligned at the call', 'actual': drop.v % 16,
                       'key': 'gen_call:blob-padding' if odd else 'gen_call:alignment'})
    return 2


# ---------------------------------------------------------------- generators
def signatures(ctx, thorough):
    rng = ctx.rng
    sigs = [()]
    sigs += [(t,) for t in TYPES]
    sigs += list(itertools.product(TYPES, repeat=2))
    for t in TYPES:
        for n in (5, 6, 7, 8, 9, 10):
            sigs.append((t,) * n)
    for a in TYPES:                      # boundary: fill the registers with one type, then one/two of another
        for b in TYPES:
            base = 8 if a in ('f32', 'f64') else 6
            if len(sigs) < 10 ** 6:
                sigs.append((a,) * base + (b,))
                sigs.append((a,) * (base - 1) + (b, a))
                if base + 2 <= 10:
                    sigs.append((a,) * base + (b, a))
    for a, b in itertools.product(['i64', 'i32', 'i8', 'ptr'], ['f64', 'f32']):
        sigs.append((a, b) * 5)
        sigs.append((b,) * 4 + (a,) * 6)
    n_rand = 6000 if thorough else 700
    for _ in range(n_rand):
        n = rng.choice([3, 4, 5, 6, 7, 8, 9, 10, 10, 10])
        pool = rng.choice([TYPES, TYPES, ['i64', 'i32', 'ptr', 'u32', 'u64'], ['f32', 'f64', 'i64'], ['i8', 'i16', 'u8', 'u16', 'i64', 'f64']])
        sigs.append(tuple(rng.choice(pool) for _ in range(n)))
    seen, out = set(), []
    for s in sigs:
        if s not in seen and len(s) <= 10:
            seen.add(s)
            out.append(s)
    return out


def frames(impl, ctx, thorough):
    a = impl.arch
    key = lambda r: '%s/%d' % (r.name, CLSTAG[CLS[type(r).__name__]])
    cs = list(a._callee_save)
    alias_keys = []
    for c in cs:
        alias_keys.append([key(x) for x in a.info.alias.get(c, [c])])
    others = ['rax/64', 'rcx/64', 'r10/64', 'eax/32', 'xmm3/164', 'al/8']
    sizes = [0, 1, 7, 8, 15, 16, 17, 24, 31, 32, 40, 100, 4096] + ([ctx.rng.randrange(1, 5000) for _ in range(12)] if thorough else [])
    out = []
    for mask in range(1 << len(cs)):
        for variant in range(3 if thorough else 2):
            used = []
            for i in range(len(cs)):
                if mask >> i & 1:
                    ak = alias_keys[i]
                    used.append(ak[0] if variant == 0 else ak[ctx.rng.randrange(len(ak))])
            used += ctx.rng.sample(others, ctx.rng.randrange(0, 3))
            for sz in sizes:
                out.append((sz, tuple(used)))
    seen, res = set(), []
    for f in out:
        if f not in seen:
            seen.add(f)
            res.append(f)
    return res


# ---------------------------------------------------------------- rendering for the model
def coq_sig(sig):
    return '[%s]' % '; '.join(COQTY[t] for t in sig)


def coq_used(impl, used):
    return '[%s]' % '; '.join(coq_reg(impl, impl.reg_by_name(u)) for u in used)


OPCODE = {'label': 0, 'push': 1, 'pop': 2, 'pusharg': 3, 'sub': 4, 'add': 5, 'movfpsp': 6, 'argtoreg': 7, 'call': 8,
          'rvfrom': 9, 'argfromreg': 10, 'argfromstack': 11, 'ret': 12, 'reg': 0, 'stack': 1, 'unknown': 99, 'db': 98}


def enc(x):
    """numeric rendering matching the ToVal instances of Model/X86AbiTypes.v (names of registers dropped)"""
    if isinstance(x, tuple):
        if len(x) == 3 and isinstance(x[0], str) and isinstance(x[1], int) and x[2] in CLSTAG.values() and x[0] not in OPCODE:
            return (x[1], x[2])
        if x and isinstance(x[0], str) and x[0] in OPCODE:
            if x[0] == 'unknown':
                return (99,)
            return (OPCODE[x[0]],) + tuple(enc(y) for y in x[1:])
        return tuple(enc(y) for y in x)
    if isinstance(x, list):
        return [enc(y) for y in x]
    return x


HP = 2305843009213693951


def hmix(h, x):
    return (h * 1000003 + x + 12345) % HP


def pyhash(v, h=7):
    """the digest of Model/X86AbiTypes.v (vhash) over the value as vlib.to_val would render it"""
    if v is Internal or isinstance(v, Internal):
        return hmix(h, 9)
    if v is Diag or isinstance(v, Diag):
        return hmix(h, 8)
    if v is None:
        return hmix(h, 6)
    if isinstance(v, OkV):
        return pyhash(v.v, hmix(h, 7))
    if isinstance(v, bool):
        return hmix(hmix(h, 2), int(v))
    if isinstance(v, int):
        return hmix(hmix(h, 1), v)
    if isinstance(v, (list, tuple)):
        h = hmix(h, 4 if isinstance(v, list) else 5)
        for x in v:
            h = pyhash(x, h)
        return hmix(h, 17)
    raise TypeError(repr(v))


def val_ops(o):
    """implementation outcome -> value comparable with toval of the model"""
    if not isinstance(o, OkV):
        return o
    return OkV(enc([tuple(x) for x in o.v]))


# ---------------------------------------------------------------- witnesses of the known defects
WITNESSES = [
    ('determine_arg_locations', ['f32'] * 10),
    ('gen_function_enter', ['f32'] * 10),
    ('gen_call', ['f64'] * 9),
    ('gen_call', ['i64'] * 6 + ['i8']),
    ('gen_function_enter', ['i64'] * 6 + ['i8']),
]


def search(ctx, impl=None, deep=False):
    impl = impl or Impl()
    n = 0
    sigs = signatures(ctx, deep)
    if not deep:
        sigs = sigs[:700]
    # witnesses of the recorded defects are re-executed on the implementation on every run
    sigs = [tuple(w[1]) for w in WITNESSES] + [x for x in sigs if list(x) not in [w[1] for w in WITNESSES]]
    for s in sigs:
        n += check_signature(impl, ctx, s)
    for (sz, used) in frames(impl, ctx, deep):
        n += check_frame(impl, ctx, sz, list(used))
    n += check_tables(impl, ctx)
    for xs in blob_signatures(ctx, deep):
        n += check_blob_signature(impl, ctx, xs)
    for t in TYPES:      # return value register
        n += 1
        got = outcome(lambda: phys_of(impl.regt(impl.arch.determine_rv_location(impl.ty[t]))))
        want = ('x', 0) if t in ('f32', 'f64') else ('g', 0)
        if not (isinstance(got, OkV) and got.v == want):
            ctx.violation({'fn': 'determine_rv_location', 'args': [t], 'expected': list(want),
                           'actual': list(got.v) if isinstance(got, OkV) else 'exception'})
    ctx.cov['stages']['oracle_search'] = {'signatures': len(sigs), 'evaluations': n}
    ctx.cov['evaluations'] += n
    if deep:
        gcc_search(ctx, impl)


def gcc_search(ctx, impl):
    """thorough only, never required: gcc-compiled caller, ppci-compiled callee, run natively"""
    import shutil
    import io
    if not shutil.which('gcc'):
        ctx.cov['stages']['gcc_search'] = 'gcc not available'
        return
    try:
        from ppci import api
        from ppci.format.elf import write_elf
        work = os.path.join(ctx.work, 'gcc')
        os.makedirs(work, exist_ok=True)
        cty = {'i8': 'char', 'i16': 'short', 'i32': 'int', 'i64': 'long', 'f32': 'float', 'f64': 'double'}
        done = 0
        for k in range(12):
            n = ctx.rng.randrange(7, 13)
            sig = [ctx.rng.choice(['i32', 'i64', 'f64', 'f32', 'i64', 'f64']) for _ in range(n)]
            params = ', '.join('%s a%d' % (cty[t], i) for i, t in enumerate(sig))
            expr = ' + '.join('a%d * %d.0' % (i, i + 1) for i in range(n))
            src = 'double callee(%s) { return %s; }\n' % (params, expr)
            vals = [ctx.rng.randrange(1, 50) for _ in range(n)]
            want = float(sum(v * (i + 1) for i, v in enumerate(vals)))
            try:
                obj = api.cc(io.StringIO(src), 'x86_64')
                with open(os.path.join(work, 'callee.o'), 'wb') as f:
                    write_elf(obj, f, type='relocatable')
            except Exception as ex:     # noqa: BLE001  (front-end limits are not C40's business)
                continue
            with open(os.path.join(work, 'main.c'), 'w') as f:
                f.write('#include <stdio.h>\ndouble callee(%s);\nint main(){ printf("%%.1f\\n", callee(%s)); return 0; }\n'
                        % (params, ', '.join(str(v) for v in vals)))
            p = subprocess.run('gcc -no-pie main.c callee.o -o t.exe 2>/dev/null && timeout -s KILL 20 ./t.exe', shell=True, cwd=work,
                               stdout=subprocess.PIPE, stderr=subprocess.DEVNULL, text=True, timeout=60)
            done += 1
            got = p.stdout.strip()
            if p.returncode != 0 or got != '%.1f' % want:
                ctx.violation({'fn': 'native:gcc-caller/ppci-callee', 'args': sig, 'values': vals, 'expected': '%.1f' % want,
                               'actual': got, 'key': 'native:' + ('f32-stack' if 'f32' in [t for t, w in zip(sig, sysv_places(sig)) if w[0] == 'm'] else 'other'),
                               'source': src})
        ctx.cov['stages']['gcc_search'] = {'programs_run': done}
    except Exception as ex:   # noqa: BLE001
        ctx.cov['stages']['gcc_search'] = 'skipped: %r' % (ex,)


def run(ctx):
    import time
    t0 = time.time()
    lap = lambda what: ctx.log('%-28s t=%.1fs' % (what, time.time() - t0))
    impl, tabs = regen(ctx)
    lap('tables exported')
    ok, _ = ctx.build(['Proofs/C40_x86abi.vo'])
    lap('proofs built (incl. lock wait)')
    if ok:
        ctx.check_props('Props/C40.v')
    lap('props checked')
    thorough = not ctx.quick()
    # ---- correspondence: hand model vs implementation
    if ctx.build(['Model/X86Abi.vo', 'Lib/Val.vo'])[0]:
        cases, recs = [], []
        sigs = signatures(ctx, thorough)
        nontriv = 0
        for s in sigs:
            cs = coq_sig(s)
            locs = outcome(impl.arg_locations, list(s))
            cases.append(('determine_arg_locations %s' % cs, enc(locs.v) if isinstance(locs, OkV) else locs))
            recs.append(('determine_arg_locations', s))
            rvt = ctx.rng.choice([None] + TYPES)
            call = outcome(impl.gen_call, list(s), rvt)
            cases.append(('gen_call %s %s' % (cs, '(Some %s)' % COQTY[rvt] if rvt else 'None'), val_ops(call)))
            recs.append(('gen_call', s))
            ent = outcome(impl.gen_function_enter, list(s))
            cases.append(('gen_function_enter %s' % cs, val_ops(ent)))
            recs.append(('gen_function_enter', s))
            if any(w[0] == 'm' for w in sysv_places(s)):
                nontriv += 1
        for t in TYPES:
            cases.append(('determine_rv_location %s' % COQTY[t], enc(impl.regt(impl.arch.determine_rv_location(impl.ty[t])))))
            recs.append(('determine_rv_location', (t,)))
        frs = frames(impl, ctx, thorough)
        for (sz, used) in frs:
            cu = coq_used(impl, used)
            cases.append(('gen_prologue %d %s' % (sz, cu), enc([tuple(x) for x in impl.prologue(sz, list(used))])))
            recs.append(('gen_prologue', (sz, used)))
            cases.append(('gen_epilogue %d %s' % (sz, cu), enc([tuple(x) for x in impl.epilogue(sz, list(used))])))
            recs.append(('gen_epilogue', (sz, used)))
            if sz > 0 or any(u.split('/')[0] in ('rbx', 'ebx', 'bx', 'bl', 'bh', 'r14', 'r14d', 'r15', 'r15d') for u in used):
                nontriv += 1
        bsigs = blob_signatures(ctx, thorough)
        for xs in bsigs:
            cx = '[%s]' % '; '.join('XB %d' % x[1] if isinstance(x, tuple) else 'XT %s' % COQTY[x] for x in xs)
            cases.append(('determine_arg_locations_x %s' % cx, enc(impl.arg_locations_x(xs))))
            recs.append(('determine_arg_locations(blobs)', xs))
            d = outcome(impl.call_rsp_drop_x, xs)
            if isinstance(d, OkV):
                cases.append(('call_rsp_drop_x %s' % cx, d.v))
                recs.append(('gen_call(blobs) rsp drop', xs))
            nontriv += 1
        ctx.cov['distinct_nontrivial'] += nontriv
        ctx.cov['stages']['correspondence'] = {'signatures': len(sigs), 'frames': len(frs), 'cases': len(cases)}
        for r in recs[:: max(1, len(recs) // 8)]:
            ctx.note_sample({'fn': r[0], 'input': repr(r[1])[:120]})
        full = cases[:: max(1, len(cases) // 60)]            # a few cases compared structurally, all by digest
        cases = [('digest (%s)' % m, pyhash(v)) for m, v in cases]
        bad = ctx.run_cases('x86abi', ['Model.X86AbiTypes', 'Gen.Tab_x86abi', 'Model.X86Abi'], cases, shard=800)
        bad2 = ctx.run_cases('x86abi_full', ['Model.X86AbiTypes', 'Gen.Tab_x86abi', 'Model.X86Abi'], full)
        if bad2:
            ctx.failed_stages.append(('correspondence', 'structural comparison disagrees on %d sampled cases' % len(bad2)))
        if bad:
            for i in bad[:5]:
                ctx.log('model/implementation disagree on', recs[i][0], recs[i][1])
            ctx.failed_stages.append(('correspondence', 'Model.X86Abi disagrees with ppci/arch/x86_64/arch.py on %d cases, first: %s %r'
                                      % (len(bad), recs[bad[0]][0], recs[bad[0]][1])))
    lap('correspondence done')
    # ---- search against the independent oracle (cheap always; deep when something failed / thorough)
    search(ctx, impl, deep=thorough or bool(ctx.failed_stages))
    lap('search done')
    ctx.cov['exhaustive'] = False


MANIFEST = {
    'text': 'partial (level other): Coq theorems over a hand model of the x86-64 calling-convention code (determine_arg_locations, '
            'determine_rv_location, gen_call, gen_function_enter, gen_prologue, gen_epilogue, get_callee_saved) and over register '
            'tables exported from the current source: for every scalar signature the argument and return locations equal the psABI '
            'assignment (except stack-passed f32, a reported defect: 4-byte slots); whenever gen_call succeeds the callee reads each '
            'stack argument from the slot the caller pushed; rsp is 16-byte aligned at the call and after the prologue; for every '
            'frame size and used-register set prologue+body+epilogue return with rsp, rbp and all saved registers restored on an '
            'abstract stack machine; every allocatable register the ABI preserves is covered by callee_save, every other one by the '
            'call clobber list. NOT covered: semantics/encoding of the emitted instructions, struct and variadic arguments, wincc, '
            'native execution. Also proved: memory arguments of any int/float mixture occupy consecutive eightbytes left to right; '
            'by-value structs (ir blobs, always copied to the stack at their exact size) equal the psABI exactly for class MEMORY '
            'aggregates of a size divisible by 8 and are refuted (reported) for aggregates of at most 16 bytes, for sizes not divisible '
            'by 8, and for the call-site padding with such sizes. Stack-passed float/double and 8/16-bit arguments raise '
            'NotImplementedError until the two proposed repairs are applied; the model follows through probed switches.',
    'note': 'trusted: Coq kernel; hand model tied to the code only by per-run differential correspondence (~1200 signatures x 3 '
            'functions, ~200 frames x 2) and an AST/introspection table export; psABI/SDM reading in Spec/SysVSpec.v; the '
            'instruction-to-abstract-operation mapping in tools/props/c40.py. No axioms.',
    'technique': 'Coq proof over hand model + exported tables, differential correspondence, independent psABI oracle search',
}
