"""C40 — x86-64 code interoperates with the System V ABI (DESIGN §4 C40). PARTIAL (LEVEL 'other').

tie I: regen() exports from the current /repo to coq/Gen/Tab_x86abi.v
         * the argument register lists and the stack slot sizes of determine_arg_locations
           (read from the function's AST, sysv branch; fail-closed, cross-checked by probing),
         * callee_save / caller_save lists, allocatable registers of every register class,
           arch.info.alias of the saved registers, register class and size of each IR type.
tie H: coq/Model/X86Abi.v mirrors determine_arg_locations, determine_rv_location, the stack
       accounting of gen_call, the reads of gen_function_enter, gen_prologue / gen_epilogue
       as lists of abstract stack operations; every run compares model and implementation on
       sampled signatures and synthetic frames.
Spec: coq/Spec/SysVSpec.v (psABI parameter passing, callee-saved set, abstract stack machine).
Search: independent Python SysV oracle against the real determine_arg_locations / gen_call /
       gen_function_enter / gen_prologue / gen_epilogue; optional gcc link-and-run (thorough).
"""
import ast
import itertools
import json
import os
import re
import subprocess
import sys

import vlib
from vlib import OkV, Diag, Internal, TieBroken

LEVEL = 'other'
RULE = ('signatures: every length 0..10 over the 11 scalar IR types {i8,i16,i32,i64,u8,u16,u32,u64,ptr,f32,f64}: all '
        'signatures of length <= 2, homogeneous and two-type boundary signatures around the 6/8 register limits, plus '
        'seeded random ones (quick ~1500, thorough ~6000); frames: stacksize in a boundary pool x every subset of the '
        'exported callee_save list (through aliases). distinct non-trivial = distinct signature with at least one stack-passed '
        'argument, or distinct frame with stacksize > 0 or a saved register')
EXPLANATION = ('PARTIAL. Proved (Coq, all signatures / all frames): argument and return locations of the model equal the psABI '
               'assignment; the callee reads every stack argument where the caller pushed it; rsp is 16-byte aligned at the '
               'call; prologue+body+epilogue restore rsp, rbp and every saved register on an abstract stack machine; every '
               'allocatable ABI-callee-saved register is covered by callee_save, every other allocatable register by the call '
               'clobber list. NOT modelled: instruction encodings and semantics of the emitted moves (sign/zero extension, '
               'movss/movsd), struct (blob) arguments, varargs (al), wincc, register allocation itself, ELF/relocations, '
               'native execution. The hand model is tied to the code by differential correspondence only.')
TRUSTED = ['hand model coq/Model/X86Abi.v == ppci/arch/x86_64/arch.py (checked by per-run correspondence on sampled signatures/frames)',
           'table exporter in tools/props/c40.py (AST read of determine_arg_locations + introspection of registers.py/ArchInfo)',
           'mapping of ppci instruction objects to abstract stack operations in tools/props/c40.py (by class name and printed syntax)',
           'reading of the psABI 1.0 section 3.2 and of the Intel SDM register numbering in coq/Spec/SysVSpec.v']
ASSUMPTIONS = ['sysv convention only (no "wincc" option)', 'scalar arguments only; virtual register class of an argument = '
               'arch.info.value_classes[type]', 'function bodies keep rsp where the prologue left it and write only below rsp and '
               'into [rbp-stacksize, rbp)', 'a 4-byte read at the start of an 8-byte slot yields the low half (little endian)']

TYPES = ['i8', 'i16', 'i32', 'i64', 'u8', 'u16', 'u32', 'u64', 'ptr', 'f32', 'f64']
COQTY = {t: t.upper() for t in TYPES}
CLS = {'Register8': 'R8c', 'Register16': 'R16c', 'Register32': 'R32c', 'Register64': 'R64c',
       'XmmRegisterSingle': 'XSc', 'XmmRegisterDouble': 'XDc'}
CLSTAG = {'R8c': 8, 'R16c': 16, 'R32c': 32, 'R64c': 64, 'XSc': 132, 'XDc': 164}
SRC = 'ppci/arch/x86_64/arch.py'


# ---------------------------------------------------------------- implementation access
class Impl:
    def __init__(self):
        vlib.ensure_repo_on_path()
        from ppci import ir
        from ppci.api import get_arch
        from ppci.arch.x86_64 import registers
        from ppci.arch.stack import Frame, StackLocation
        from ppci.arch.registers import Register
        self.ir, self.R, self.Frame, self.StackLocation, self.Register = ir, registers, Frame, StackLocation, Register
        self.arch = get_arch('x86_64')
        self.ty = {t: getattr(ir, t) for t in TYPES}

    def regt(self, r):
        """(name, num, class tag) of a real register"""
        return (r.name, r.num, CLSTAG[CLS[type(r).__name__]])

    def loct(self, l):
        if isinstance(l, self.StackLocation):
            return ('stack', l.offset, l.size)
        return ('reg', self.regt(l))

    def arg_locations(self, sig):
        return [self.loct(l) for l in self.arch.determine_arg_locations([self.ty[t] for t in sig])]

    def vregs(self, frame, sig):
        return [(self.ty[t], frame.new_reg(self.arch.info.value_classes[self.ty[t]])) for t in sig]

    # -- instruction lists -> abstract operations (mirrors Model.X86AbiTypes.mop)
    def abstract(self, instrs, argvregs):
        """map an instruction list to abstract ops; argvregs: list of virtual registers (index = arg)"""
        R = self.R
        idx = {id(v): i for i, v in enumerate(argvregs)}
        acc_family = {R.rax, R.eax, R.ax, R.al}
        acc = None
        out = []
        for ins in instrs:
            cn = type(ins).__name__
            txt = str(ins)
            if cn == 'RegisterUseDef':
                continue
            if cn == 'Label':
                out.append(('label',))
                continue
            if cn in ('Db',):
                out.append(('db',))
                continue
            m = re.fullmatch(r'(sub|add) rsp, (-?\d+)', txt)
            if m:
                out.append((m.group(1), int(m.group(2))))
                continue
            if txt == 'mov rbp, rsp':
                out.append(('movfpsp',))
                continue
            if cn in ('Push', 'PushXmmRegisterDouble', 'PushXmmRegisterSingle'):
                r = ins.used_registers[0]
                if id(r) in idx:
                    out.append(('pusharg', idx[id(r)]))
                elif r in acc_family and acc is not None:
                    out.append(('pusharg', acc))
                elif r.is_colored and not id(r) in idx:
                    out.append(('push', self.regt(r)))
                else:
                    out.append(('unknown', txt))
                continue
            if cn in ('Pop', 'PopXmmRegisterDouble', 'PopXmmRegisterSingle'):
                out.append(('pop', self.regt(ins.defined_registers[0])))
                continue
            if cn in ('Call', 'CallReg'):
                out.append(('call',))
                acc = None
                continue
            if cn == 'Ret':
                out.append(('ret',))
                continue
            m = re.fullmatch(r'(mov|movss|movsd|movsx) (\S+), \[rbp, (-?\d+)\]', txt)
            if m and len(ins.defined_registers) == 1 and id(ins.defined_registers[0]) in idx:
                d = ins.defined_registers[0]
                out.append(('argfromstack', idx[id(d)], int(m.group(3)), d.bitsize))
                continue
            defs, uses = list(ins.defined_registers), list(ins.used_registers)
            if re.match(r'(mov|movss|movsd|movsx) ', txt) and len(defs) == 1 and len(uses) == 1:
                d, u = defs[0], uses[0]
                src = idx.get(id(u), acc if u in acc_family else None)
                if d in acc_family:
                    acc = src if id(u) in idx or u in acc_family else ('reg', self.regt(u))
                    continue
                if id(d) in idx:        # callee: parameter vreg receives a value
                    if u in acc_family and isinstance(acc, tuple):
                        out.append(('argfromreg', idx[id(d)], acc[1]))
                    elif u.is_colored:
                        out.append(('argfromreg', idx[id(d)], self.regt(u)))
                    else:
                        out.append(('unknown', txt))
                    continue
                if d.is_colored and isinstance(src, int):
                    out.append(('argtoreg', self.regt(d), src))
                    continue
                if (not d.is_colored) and u.is_colored:
                    out.append(('rvfrom', self.regt(u)))
                    continue
            out.append(('unknown', txt))
        return out

    def gen_call(self, sig, rv=None):
        fr = self.Frame('caller')
        args = self.vregs(fr, sig)
        rvp = None
        if rv is not None:
            rvp = (self.ty[rv], fr.new_reg(self.arch.info.value_classes[self.ty[rv]]))
        ins = list(self.arch.gen_call(fr, 'callee', args, rvp))
        return self.abstract(ins, [a[1] for a in args])

    def gen_function_enter(self, sig):
        fr = self.Frame('callee')
        args = self.vregs(fr, sig)
        ins = list(self.arch.gen_function_enter(args))
        return self.abstract(ins, [a[1] for a in args])

    def frame(self, stacksize, used_names):
        fr = self.Frame('f')
        fr.stacksize = stacksize
        fr.used_regs = {self.reg_by_name(n) for n in used_names}
        return fr

    def reg_by_name(self, key):
        """key = 'name/classTag' (xmm0 exists as single and double)"""
        name, tag = key.split('/')
        for rc in self.arch.info.register_classes:
            for r in rc.registers or []:
                if r.name == name and CLSTAG[CLS[type(r).__name__]] == int(tag):
                    return r
        for r in (self.R.rbp, self.R.rsp, self.R.r12, self.R.r13):
            if r.name == name:
                return r
        raise KeyError(key)

    def prologue(self, stacksize, used):
        return self.abstract(list(self.arch.gen_prologue(self.frame(stacksize, used))), [])

    def epilogue(self, stacksize, used):
        return self.abstract(list(self.arch.gen_epilogue(self.frame(stacksize, used))), [])


def outcome(fn, *a):
    """OkV(value) | Internal (NotImplementedError, assert, ... : none of these is a documented diagnostic)"""
    try:
        return OkV(fn(*a))
    except Exception:    # noqa: BLE001
        return Internal


# ---------------------------------------------------------------- table export (tie I)
def _attr_reg(node, regmod):
    if isinstance(node, ast.Attribute) and isinstance(node.value, ast.Name) and node.value.id == 'registers':
        return getattr(regmod, node.attr)
    raise TieBroken('determine_arg_locations: register expression not of the form registers.<name>: %s' % ast.dump(node)[:80])


def read_arg_tables(impl):
    """read int_regs / float_regs (sysv branch) and the stack slot size expressions from the AST of
    X86_64Arch.determine_arg_locations; fail-closed"""
    path = os.path.join(vlib.REPO, SRC)
    tree = ast.parse(open(path).read())
    fn = None
    for node in ast.walk(tree):
        if isinstance(node, ast.ClassDef) and node.name == 'X86_64Arch':
            for b in node.body:
                if isinstance(b, ast.FunctionDef) and b.name == 'determine_arg_locations':
                    fn = b
    if fn is None:
        raise TieBroken('X86_64Arch.determine_arg_locations not found')
    tabs = {}
    for st in fn.body:
        if isinstance(st, ast.If) and 'wincc' in ast.dump(st.test):
            for a in st.orelse:
                if isinstance(a, ast.Assign) and len(a.targets) == 1 and isinstance(a.targets[0], ast.Name) \
                        and a.targets[0].id in ('int_regs', 'float_regs') and isinstance(a.value, ast.List):
                    pairs = []
                    for el in a.value.elts:
                        if not (isinstance(el, ast.Tuple) and len(el.elts) == 2):
                            raise TieBroken('register list element is not a pair')
                        pairs.append((_attr_reg(el.elts[0], impl.R), _attr_reg(el.elts[1], impl.R)))
                    tabs[a.targets[0].id] = pairs
    if set(tabs) != {'int_regs', 'float_regs'}:
        raise TieBroken('int_regs / float_regs literals of the sysv branch not found')
    loop = [st for st in fn.body if isinstance(st, ast.For)]
    if len(loop) != 1 or not isinstance(loop[0].body[0], ast.If):
        raise TieBroken('argument loop of determine_arg_locations has an unexpected shape')
    slots = []
    branch = loop[0].body[0]
    for _ in range(2):
        inner = [s for s in branch.body if isinstance(s, ast.If)]
        if len(inner) != 1:
            raise TieBroken('register/stack decision not found')
        asg = [s for s in inner[0].orelse if isinstance(s, ast.Assign) and isinstance(s.targets[0], ast.Name)
               and s.targets[0].id == 'arg_size']
        if len(asg) != 1:
            raise TieBroken('arg_size assignment not found')
        v = asg[0].value
        if isinstance(v, ast.Constant) and isinstance(v.value, int):
            slots.append(lambda t, c=v.value: c)
        elif isinstance(v, ast.Call) and isinstance(v.func, ast.Attribute) and v.func.attr == 'get_size':
            slots.append(lambda t: impl.arch.info.get_size(impl.ty[t]))
        else:
            raise TieBroken('arg_size expression not understood: ' + ast.dump(v)[:80])
        if not (branch.orelse and isinstance(branch.orelse[0], ast.If)):
            raise TieBroken('type dispatch chain too short')
        branch = branch.orelse[0]
    tabs['int_slot'] = slots[0]
    tabs['fp_slot'] = slots[1]
    return tabs


def coq_reg(impl, r):
    return '(mkreg "%s" %d %s)' % (r.name, r.num, CLS[type(r).__name__])


def table_text(impl):
    tabs = read_arg_tables(impl)
    a = impl.arch
    cr = lambda r: coq_reg(impl, r)
    L = ['(* GENERATED by tools/props/c40.py from %s and registers.py — do not edit *)' % SRC,
         'From PV Require Import Lib.Py Model.X86AbiTypes.', 'From Coq Require Import String.',
         'Open Scope Z_scope.', 'Local Open Scope string_scope.', '']
    for nm in ('int_regs', 'float_regs'):
        L.append('Definition tab_%s : list (reg * reg) := [%s].' % (
            nm, '; '.join('(%s, %s)' % (cr(x), cr(y)) for x, y in tabs[nm])))
    isl = {tabs['int_slot'](t) for t in TYPES if t not in ('f32', 'f64')}
    if len(isl) != 1:
        # the model has one constant for integers (the code says "arg_size = 8"); anything else breaks the tie
        raise TieBroken('integer stack slot size is not a single constant: %r' % sorted(isl))
    L.append('Definition tab_int_slot : Z := %d.' % isl.pop())
    L.append('Definition tab_fp_slot (t : ity) : Z := match t with F32 => %d | _ => %d end.' % (
        tabs['fp_slot']('f32'), tabs['fp_slot']('f64')))
    L.append('Definition tab_type_size (t : ity) : Z := match t with %s end.' % ' | '.join(
        '%s => %d' % (COQTY[t], a.info.get_size(impl.ty[t])) for t in TYPES))
    L.append('Definition tab_class_of_type (t : ity) : rcls := match t with %s end.' % ' | '.join(
        '%s => %s' % (COQTY[t], CLS[a.info.value_classes[impl.ty[t]].__name__]) for t in TYPES))
    L.append('Definition tab_callee_save : list reg := [%s].' % '; '.join(cr(r) for r in a._callee_save))
    L.append('Definition tab_caller_save : list reg := [%s].' % '; '.join(cr(r) for r in a._caller_save))
    alloc = []
    for rc in a.info.register_classes:
        for r in rc.registers or []:
            if r not in alloc:
                alloc.append(r)
    L.append('Definition tab_allocatable : list reg := [%s].' % ';\n  '.join(cr(r) for r in alloc))
    al = []
    for r in list(a._callee_save) + list(a._caller_save):
        al.append('(%s, [%s])' % (cr(r), '; '.join(cr(x) for x in a.info.alias.get(r, []))))
    L.append('Definition tab_alias : list (reg * list reg) := [%s].' % ';\n  '.join(al))
    L.append('Definition tab_rbp : reg := %s.' % cr(impl.R.rbp))
    L.append('Definition tab_rsp : reg := %s.' % cr(impl.R.rsp))
    return '\n'.join(L) + '\n', tabs


def regen(ctx):
    impl = Impl()
    try:
        text, tabs = table_text(impl)
    except TieBroken as ex:
        ctx.log('table export failed:', ex)
        ctx.failed_stages.append(('export', str(ex)))
        raise
    changed = ctx.write_gen('Tab_x86abi', text)
    ctx.cov['stages']['gen_Tab_x86abi'] = {'file': SRC, 'changed_on_disk': changed,
                                           'int_regs': [x.name for x, _ in tabs['int_regs']],
                                           'float_regs': [y.name for _, y in tabs['float_regs']],
                                           'fp_slot_f32': tabs['fp_slot']('f32')}
    return impl, tabs
