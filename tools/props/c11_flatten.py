"""C11 — fail-closed flattening pre-pass for the relocation classes (tie T for calc/apply bodies).

Each modelled relocation class (props/reloc_common.KINDS) has a short `apply(self, sym_value, data, reloc_value)`
or `calc(self, sym_value, reloc_value)` method. This pre-pass extracts the method with `ast` from the file of the
CURRENT source tree, checks every structural assumption (anything unexpected raises py2coq.Unsupported) and emits
a plain function py2coq can translate:
  self.addend                      -> parameter addend (any other use of self is an error)
  bv = BitView(data, 0, N)         -> dropped; N remembered
  bv[a:b] = e                      -> data = bv_set(data, N, a, b, e)            (Model.Reloc.bv_set, hand model of
                                                                                 BitView.__setitem__, proved in C11_bits)
  helper(bv, x)  (module function) -> inlined (its own bv[a:b] = e statements rewritten the same way)
  data[i] = e / data[i] |= e       -> data = set_byte(data, i, e) / set_byte(data, i, data[i] | e)
  assert x in range(a, b, s), msg  -> assert a <= x and x < b and (x - a) % s == 0
  the default token apply (token = self.token.from_data(data); setattr(token, self.field, self.calc(...));
  token.encode())                  -> the class is a calc-class: `calc` is flattened, the field write stays the
                                      hand model tok_apply with the parts exported from the token class (tie I)
wrap_negative / align / encode_imm32 are the Gen.bitfun translations; isinsrange is flattened from rvc_relocations.
"""
import ast
import os
import py2coq
U = py2coq.Unsupported


def src(n):
    return ast.unparse(n)


def find_class(tree, name):
    for n in tree.body:
        if isinstance(n, ast.ClassDef) and n.name == name:
            return n
    raise U('class %s not found' % name)


def find_def(body, name):
    for n in body:
        if isinstance(n, ast.FunctionDef) and n.name == name:
            return n
    return None


def strip_doc(body):
    if body and isinstance(body[0], ast.Expr) and isinstance(body[0].value, ast.Constant) and isinstance(body[0].value.value, str):
        return body[1:]
    return body


DEFAULT_APPLY = ['assert self.token is not None', 'token = self.token.from_data(data)',
                 'assert self.field is not None', 'assert hasattr(token, self.field)',
                 'setattr(token, self.field, self.calc(sym_value, reloc_value))']
DEFAULT_TAIL = (['return token.encode()'], ['data = token.encode()', 'return data'])


def is_default_apply(fn):
    st = [src(s) for s in strip_doc(fn.body)]
    return st[:5] == DEFAULT_APPLY and st[5:] in [list(t) for t in DEFAULT_TAIL]


class SelfSubst(ast.NodeTransformer):
    def visit_Attribute(self, node):
        if src(node) == 'self.addend':
            return ast.copy_location(ast.Name(id='addend', ctx=ast.Load()), node)
        return self.generic_visit(node)


def no_self(nodes, what):
    for n in nodes:
        for x in ast.walk(n):
            if isinstance(x, ast.Name) and x.id == 'self':
                raise U('%s: unexpected use of self in %s' % (what, src(n)[:70]))


def rewrite_range_assert(s):
    """assert x in range(a, b, step)[, msg] -> arithmetic"""
    if isinstance(s, ast.Assert) and isinstance(s.test, ast.Compare) and len(s.test.ops) == 1 and \
            isinstance(s.test.ops[0], ast.In) and isinstance(s.test.comparators[0], ast.Call) and \
            src(s.test.comparators[0].func) == 'range' and len(s.test.comparators[0].args) == 3:
        x = src(s.test.left)
        a, b, st = [src(z) for z in s.test.comparators[0].args]
        return ast.parse('assert (%s) <= %s and %s < (%s) and (%s - (%s)) %% (%s) == 0' % (a, x, x, b, x, a, st)).body[0]
    if isinstance(s, ast.Assert) and s.msg is not None:
        return ast.Assert(test=s.test, msg=None)
    return s


def flatten_body(stmts, module_tree, what, bvs=None):
    """rewrite a statement list; bvs: {bitview variable: N}"""
    bvs = dict(bvs or {})
    out = []
    for s in stmts:
        t = src(s)
        # bv = BitView(data, 0, N)
        if isinstance(s, ast.Assign) and len(s.targets) == 1 and isinstance(s.targets[0], ast.Name) and \
                isinstance(s.value, ast.Call) and src(s.value.func) == 'BitView':
            a = s.value.args
            if len(a) != 3 or src(a[0]) != 'data' or src(a[1]) != '0' or not isinstance(a[2], ast.Constant):
                raise U('%s: BitView shape %s' % (what, t))
            bvs[s.targets[0].id] = int(a[2].value)
            continue
        # bv[a:b] = e
        if isinstance(s, ast.Assign) and len(s.targets) == 1 and isinstance(s.targets[0], ast.Subscript) and \
                isinstance(s.targets[0].value, ast.Name) and s.targets[0].value.id in bvs:
            sl = s.targets[0].slice
            if not isinstance(sl, ast.Slice) or sl.step is not None or sl.lower is None or sl.upper is None:
                raise U('%s: BitView subscript %s' % (what, t))
            out.append(ast.parse('data = bv_set(data, %d, %s, %s, %s)' % (
                bvs[s.targets[0].value.id], src(sl.lower), src(sl.upper), src(s.value))).body[0])
            continue
        # helper(bv, args...)
        if isinstance(s, ast.Expr) and isinstance(s.value, ast.Call) and isinstance(s.value.func, ast.Name) and \
                s.value.args and isinstance(s.value.args[0], ast.Name) and s.value.args[0].id in bvs:
            h = find_def(module_tree.body, s.value.func.id)
            if h is None:
                raise U('%s: helper %s not found' % (what, s.value.func.id))
            params = [a.arg for a in h.args.args]
            args = [src(a) for a in s.value.args]
            if len(params) != len(args) or params[1:] != args[1:]:
                raise U('%s: helper call %s needs identical argument names' % (what, t))
            out += flatten_body(strip_doc(h.body), module_tree, what + '/' + h.name, {params[0]: bvs[args[0]]})
            continue
        # data[i] = e, data[i] |= e
        if isinstance(s, ast.Assign) and len(s.targets) == 1 and isinstance(s.targets[0], ast.Subscript) and \
                src(s.targets[0].value) == 'data' and isinstance(s.targets[0].slice, ast.Constant):
            out.append(ast.parse('data = set_byte(data, %d, %s)' % (s.targets[0].slice.value, src(s.value))).body[0])
            continue
        if isinstance(s, ast.AugAssign) and isinstance(s.op, ast.BitOr) and isinstance(s.target, ast.Subscript) and \
                src(s.target.value) == 'data' and isinstance(s.target.slice, ast.Constant):
            i = s.target.slice.value
            out.append(ast.parse('data = set_byte(data, %d, data[%d] | (%s))' % (i, i, src(s.value))).body[0])
            continue
        if isinstance(s, ast.If):
            s = ast.If(test=s.test, body=flatten_body(s.body, module_tree, what, bvs),
                       orelse=flatten_body(s.orelse, module_tree, what, bvs))
            out.append(s)
            continue
        for x in ast.walk(s):
            if isinstance(x, ast.Name) and x.id in bvs:
                raise U('%s: unexpected use of the BitView in %s' % (what, t[:70]))
        out.append(rewrite_range_assert(s))
    return out


def flatten_class(repo, kind, module, clsname):
    """returns (function name, FunctionDef, mode) with mode 'apply' | 'calc'"""
    path = os.path.join(repo, module.replace('.', '/') + '.py')
    tree = ast.parse(open(path).read())
    cls = find_class(tree, clsname)
    ap = find_def(cls.body, 'apply')
    calc = find_def(cls.body, 'calc')
    if ap is not None and not is_default_apply(ap):
        fn, mode, params = ap, 'apply', ['addend', 'sym_value', 'data', 'reloc_value']
        if [a.arg for a in ap.args.args] != ['self', 'sym_value', 'data', 'reloc_value']:
            raise U('%s.apply signature' % clsname)
    elif calc is not None:
        fn, mode, params = calc, 'calc', ['addend', 'sym_value', 'reloc_value']
        if [a.arg for a in calc.args.args] != ['self', 'sym_value', 'reloc_value']:
            raise U('%s.calc signature' % clsname)
    else:
        raise U('%s has neither apply nor calc' % clsname)
    body = [SelfSubst().visit(s) for s in strip_doc(fn.body)]
    body = flatten_body(body, tree, clsname)
    no_self(body, clsname)
    name = '%s_%s' % (mode, kind)
    text = 'def %s(%s):\n    pass\n' % (name, ', '.join(params))
    f = ast.parse(text).body[0]
    f.body = body
    ast.fix_missing_locations(f)
    return name, f, mode


def flat_source(repo, kinds):
    """kinds: {kind: (arch, module, class, name, size)}; returns (source text, entries, {kind: mode}, {kind: reason})"""
    fns, entries, modes, failed = [], [], {}, {}
    # isinsrange (rvc can_shrink) as is
    for kind, (_, module, clsname, _, _) in kinds.items():
        try:
            name, f, mode = flatten_class(repo, kind, module, clsname)
        except U as ex:
            failed[kind] = str(ex)
            continue
        fns.append(f)
        entries.append({'name': name, 'params': {'data': 'bytes'}} if mode == 'apply' else {'name': name})
        modes[kind] = mode
    return '\n\n'.join(src(f) for f in fns) + '\n', entries, modes, failed


def known_infos(bitfun_infos):
    k = {n: bitfun_infos[n] for n in ('wrap_negative', 'align', 'encode_imm32') if n in bitfun_infos}
    k['bv_set'] = py2coq.FnInfo('bv_set', ['data', 'length', 'a', 'b', 'v'], ['bytes', 'int', 'int', 'int', 'int'], 'bytes', False, [])
    k['set_byte'] = py2coq.FnInfo('set_byte', ['data', 'i', 'v'], ['bytes', 'int', 'int'], 'bytes', False, [])
    return k
