"""C20 — LEB128 encoding is the canonical specification encoding (DESIGN §4 C20).

tie T: Gen/leb128.v is regenerated from /repo/ppci/utils/leb128.py on every run; Props/C20.v states
unbounded theorems (every v : Z) about the regenerated definitions against Spec/Leb128Spec.v; the
model/implementation correspondence re-checks the translator on boundary values around +-2^(7k) and
+-2^(7k-1) (k <= 19), random big integers and empty / truncated / padded / malformed iterators; the
search oracle (an independent closed-form LEB128 reference written from the DWARF / WebAssembly
definition) looks for a concrete failing input on every run (deeper when a stage broke).
"""
from vlib import OkV, Diag, Internal, call_impl, to_term

LEVEL = 'proof'
RULE = ('model/implementation cases: both encoders on v = +-2^(7k)+d and +-2^(7k-1)+d (k = 0..19, |d| <= 2), '
        'small integers, seeded random integers of 1..140 bits (unsigned encoder also on negatives); both decoders '
        'on reference encodings of those values followed by random tail bytes, on zero/sign padded (non-minimal) '
        'encodings, on empty and truncated iterators and on a few iterators of out-of-range ints; '
        'non-trivial = distinct (function, argument) whose implementation outcome is a value and whose '
        'integer (encoded or decoded) is not 0')
EXPLANATION = ('Unbounded Coq theorems (every integer) about the regenerated Gen.leb128: encoder output is the unique '
               'canonical encoding of Spec/Leb128Spec.v, decoders invert it and consume exactly the encoding, unsigned '
               'encoder rejects negatives; on EVERY byte iterator the decoders either consume exactly one well-formed encoding '
               'or (no terminating byte) raise StopIteration, and any returned value comes from such an encoding. Correspondence and reference sweep are supporting validation of the '
               'translator and the source of concrete replayable inputs, not the proof.')
TRUSTED = ['tools/py2coq.py (translator, fail-closed; output cross-checked against the implementation on every run)',
           'Python int arithmetic == Coq Z arithmetic (floor shifts, two\'s-complement & | ^ on negative ints)',
           'iterator model: next(data) on an exhausted iterator raises StopIteration (= Internal StopIteration); '
           'the decoder receives an iterator over ints',
           'reading of DWARF 5 section 7.6 / WebAssembly binary format "Integers" in Spec/Leb128Spec.v '
           '(no bit-width limit N: ppci encodes unbounded integers)']
ASSUMPTIONS = ['the argument of the encoders is a Python int (the isinstance check of the unsigned encoder is modelled as true)',
               'fuel hypothesis of every theorem: fuel >= log2|v| / 7 + 2 loop iterations (met: Example c20_nonvacuous)',
               'decoder theorems are about iterators over well-formed encodings followed by arbitrary ints, and '
               '(c20_decode_truncated / c20_decode_total / c20_decode_ok_inv) about every iterator over bytes 0..255: without a '
               'terminating byte the decoders raise StopIteration; iterators of ints outside 0..255 are modelled and '
               'cross-checked only']

ENTRIES = [
    {'name': 'signed_leb128_encode'}, {'name': 'unsigned_leb128_encode'},
    {'name': 'signed_leb128_decode', 'params': {'data': 'iter'}},
    {'name': 'unsigned_leb128_decode', 'params': {'data': 'iter'}},
]
ENC = ('signed_leb128_encode', 'unsigned_leb128_encode')
DEC = ('signed_leb128_decode', 'unsigned_leb128_decode')


# ---------------------------------------------------------------- independent reference (closed form)
def ref_groups(u, n):
    """n little-endian 7-bit groups of the non-negative u, continuation flag on all but the last"""
    out = []
    for i in range(n):
        g = (u // (128 ** i)) % 128
        out.append(g + (128 if i < n - 1 else 0))
    return bytes(out)


def ref_uleb(v):
    """DWARF 7.6: shortest sequence of 7-bit groups holding v (at least one group)"""
    assert v >= 0
    n = 1
    while v >= 128 ** n:
        n += 1
    return ref_groups(v, n)


def ref_sleb(v):
    """shortest n with -2^(7n-1) <= v < 2^(7n-1); two's complement of v in 7n bits"""
    n = 1
    while not (-(2 ** (7 * n - 1)) <= v < 2 ** (7 * n - 1)):
        n += 1
    return ref_groups(v % (2 ** (7 * n)), n)


def ref_decode(data, signed):
    """(value, number of bytes consumed) or None when there is no terminating byte"""
    n = None
    for i, b in enumerate(data):
        if b < 128:
            n = i + 1
            break
    if n is None:
        return None
    u = sum((data[i] % 128) * 128 ** i for i in range(n))
    if signed and u >= 2 ** (7 * n - 1):
        u -= 2 ** (7 * n)
    return u, n


# ---------------------------------------------------------------- input pools
def boundary_values(kmax=19, wide=True):
    s = set(range(-130, 131) if wide else range(-66, 67))
    for k in range(0, kmax + 1):
        for e in ((7 * k, 7 * k - 1, 7 * k + 1) if wide else (7 * k, 7 * k - 1)):
            if e < 0:
                continue
            for d in ((-2, -1, 0, 1, 2) if wide else (-1, 0, 1)):
                s.add((1 << e) + d)
                s.add(-(1 << e) + d)
    return sorted(s)


def random_values(rng, n):
    out = []
    for _ in range(n):
        bits = rng.randrange(1, 141)
        v = rng.getrandbits(bits) | (1 << (bits - 1))
        out.append(v if rng.randrange(2) else -v)
    return out


class ImplHang(BaseException):
    """raised by the interval timer inside an implementation call that does not return (BaseException so that
    the `except Exception` of call_impl cannot swallow it)"""


HUNG = set()          # names of implementation functions that did not terminate on some input (this run)
CALL_SECONDS = 3.0


def _on_alarm(signum, frame):
    raise ImplHang()


def timed(ctx, name, arg, thunk):
    """thunk() under a per-call timer. A call that does not return is a violation (every theorem gives a result for
    every integer / well-formed encoding); the function is then not called again in this run."""
    import signal
    if name in HUNG:
        return None
    signal.signal(signal.SIGALRM, _on_alarm)
    signal.setitimer(signal.ITIMER_REAL, CALL_SECONDS)
    try:
        return thunk()
    except ImplHang:
        HUNG.add(name)
        ctx.violation({'fn': name, 'args': [arg], 'expected': 'a result or the documented ValueError',
                       'actual': 'no result after %.0f s (non-terminating loop)' % CALL_SECONDS,
                       'how_to_replay': replay_cmd(name, arg)})
        ctx.failed_stages.append(('termination', '%s does not return on %r' % (name, arg)))
        return None
    finally:
        signal.setitimer(signal.ITIMER_REAL, 0)


def impl_decode(fn, data):
    """run a decoder on an iterator over `data`; outcome = (value, ints left in the iterator)"""
    it = iter(list(data))
    try:
        v = fn(it)
    except (ValueError, TypeError):
        return Diag
    except Exception:   # noqa: BLE001  (StopIteration on truncated input)
        return Internal
    return OkV((v, list(it)))


def wrap(t):
    return t if t.startswith('(') or t.startswith('[') or t.isalnum() else '(%s)' % t


def model_call(name, arg):
    import py2coq
    if isinstance(arg, int) and abs(arg) >= (1 << 32):
        # hexadecimal literal: Coq parses it much faster than a 40-digit decimal one
        t = '(-0x%x)' % -arg if arg < 0 else '0x%x' % arg
    else:
        t = wrap(to_term(arg))
    return '%s FUEL %s' % (py2coq.cname(name), t)


def decoder_inputs(rng, values):
    """(label, list of ints) — mostly valid streams plus a small malformed stream"""
    out = []
    for v in values:
        for signed in (True, False):
            if not signed and v < 0:
                continue
            enc = ref_sleb(v) if signed else ref_uleb(v)
            tail = [rng.randrange(256) for _ in range(rng.randrange(0, 4))]
            out.append(('valid', list(enc) + tail))
    pad_src = [0, 1, -1, 63, 64, -64, -65, 127, 128, -128, 300, -300, 1 << 20, -(1 << 20), (1 << 63) - 1, -(1 << 63)]
    for v in pad_src:                       # non-minimal (padded) encodings
        for extra in (1, 2, 5):
            enc = ref_sleb(v)
            n = len(enc) + extra
            out.append(('padded', list(ref_groups(v % (2 ** (7 * n)), n)) + [0x55]))
            if v >= 0:
                enc = ref_uleb(v)
                out.append(('padded', list(ref_groups(v, len(enc) + extra)) + [0xAA, 0x80]))
    out.append(('truncated', []))
    for v in values[::7] + [64, -65, 300, -300, 1 << 20, -(1 << 63)]:   # valid encodings cut before their last byte
        enc = list(ref_sleb(v))
        for cut in {len(enc) - 1, len(enc) // 2}:
            out.append(('truncated', enc[:cut]))
    for n in (1, 2, 3, 10, 20):             # no terminating byte
        out.append(('truncated', [0x80 | rng.randrange(128) for _ in range(n)]))
        out.append(('truncated', [0xFF] * n))
    for _ in range(60):                     # arbitrary byte strings
        out.append(('random', [rng.randrange(256) for _ in range(rng.randrange(1, 24))]))
    # iterators over ints that are not bytes (the functions accept any iterator of ints)
    out += [('malformed', [300, 1]), ('malformed', [-1, 5]), ('malformed', [-128, 0x7F, 3]), ('malformed', [256 + 0x80, 0x41]),
            ('malformed', [1 << 40]), ('malformed', [-(1 << 40), 2]), ('malformed', [0x1C0, 0x40])]
    return out


# ---------------------------------------------------------------- search: implementation vs reference
def replay_cmd(fn, v):
    if fn in ENC:
        return 'PYTHONPATH=/repo python -c "from ppci.utils.leb128 import %s as f; print(list(f(%d)))"' % (fn, v)
    return 'PYTHONPATH=/repo python -c "from ppci.utils.leb128 import %s as f; it=iter(%r); print(f(it), list(it))"' % (fn, v)


def check_value(ctx, lb, v, tail):
    """the property on one integer; returns number of evaluations"""
    n = 0

    def enc(name, ref, diag=()):
        exp = ref(v)
        got = timed(ctx, name, v, lambda: call_impl(getattr(lb, name), [v], diag=diag))
        if got is not None and not (isinstance(got, OkV) and isinstance(got.v, (bytes, bytearray)) and bytes(got.v) == exp):
            ctx.violation({'fn': name, 'args': [v], 'expected': list(exp),
                           'actual': list(got.v) if isinstance(got, OkV) else 'exception',
                           'how_to_replay': replay_cmd(name, v)})
        return exp

    def dec(name, exp):
        data = list(exp) + tail
        d = timed(ctx, name, data, lambda: impl_decode(getattr(lb, name), data))
        if d is not None and not (isinstance(d, OkV) and d.v == (v, tail)):
            ctx.violation({'fn': name, 'args': [data], 'expected': [v, tail],
                           'actual': list(d.v) if isinstance(d, OkV) else 'exception',
                           'how_to_replay': replay_cmd(name, data)})
    # signed: canonical encoding + round trip
    dec('signed_leb128_decode', enc('signed_leb128_encode', ref_sleb))
    n += 2
    if v >= 0:
        dec('unsigned_leb128_decode', enc('unsigned_leb128_encode', ref_uleb))
        n += 2
    else:
        name = 'unsigned_leb128_encode'
        got = timed(ctx, name, v, lambda: call_impl(lb.unsigned_leb128_encode, [v], diag=(ValueError,)))
        n += 1
        if got is not None and got is not Diag:
            ctx.violation({'fn': name, 'args': [v], 'expected': 'ValueError',
                           'actual': list(got.v) if isinstance(got, OkV) else 'other exception',
                           'how_to_replay': replay_cmd(name, v)})
    return n


def oracle_sweep(ctx, lb, deep):
    """quick part always (exhaustive [-2^16, 2^16], boundaries to 2^134, 600 random); the deep part (exhaustive to
    2^20, 20000 random values) only when asked for and the quick part has not already produced a counterexample"""
    import random
    rng = random.Random(ctx.seed * 7919 + 20)
    n = 0
    nviol = len(ctx.violations) + len(ctx.known_hits)

    def exhaustive(lo, hi):                 # by increasing magnitude: the first hit is a smallest counterexample
        k = 0
        for a in range(lo, hi + 1):
            for v in ((a, -a) if a else (0,)):
                k += check_value(ctx, lb, v, [0x80, 0x7F] if v & 1 else [])
        return k
    lim = 1 << 16
    n += exhaustive(0, lim)
    for v in boundary_values(19):
        n += check_value(ctx, lb, v, [rng.randrange(256)])
    for v in random_values(rng, 600):
        n += check_value(ctx, lb, v, [rng.randrange(256) for _ in range(rng.randrange(3))])
    if deep and len(ctx.violations) + len(ctx.known_hits) == nviol:
        n += exhaustive(lim + 1, 1 << 20)
        lim = 1 << 20
        for v in random_values(rng, 20000):
            n += check_value(ctx, lb, v, [rng.randrange(256) for _ in range(rng.randrange(3))])
    ctx.cov['stages']['oracle_sweep'] = {'exhaustive_range': [-lim, lim], 'boundaries': len(boundary_values(19)),
                                         'evaluations': n}
    ctx.cov['evaluations'] += n
    return n


def load_impl():
    from vlib import ensure_repo_on_path
    ensure_repo_on_path()
    import importlib
    import ppci.utils.leb128 as lb
    importlib.reload(lb)
    return lb


def search(ctx):
    oracle_sweep(ctx, load_impl(), True)


def replay(rec):
    """re-execute a recorded counterexample on the current implementation; exit 1 while it still fails"""
    lb = load_impl()
    name, arg = rec['fn'], rec['args'][0]

    class _C:
        failed_stages = []

        def violation(self, r):
            print('still fails:', r['actual'])
    c = _C()
    if name in ENC:
        out = timed(c, name, arg, lambda: call_impl(getattr(lb, name), [arg], diag=(ValueError,)))
        shown = list(out.v) if isinstance(out, OkV) else ('hang' if out is None else out.__name__)
    else:
        out = timed(c, name, arg, lambda: impl_decode(getattr(lb, name), arg))
        shown = list(out.v) if isinstance(out, OkV) else ('hang' if out is None else out.__name__)
    print('%s(%r) -> %r   expected %r' % (name, arg, shown, rec.get('expected')))
    return 0 if shown == rec.get('expected') or (rec.get('expected') == 'ValueError' and out is Diag) else 1


def regen(ctx):
    return ctx.gen_T('leb128', 'ppci/utils/leb128.py', ENTRIES)


def self_test_reference():
    """the reference must reproduce the worked examples of the specifications"""
    assert ref_uleb(624485) == bytes([0xE5, 0x8E, 0x26]) and ref_sleb(-123456) == bytes([0xC0, 0xBB, 0x78])
    assert ref_uleb(0) == b'\x00' and ref_sleb(0) == b'\x00' and ref_sleb(-1) == b'\x7f'
    assert ref_sleb(63) == b'\x3f' and ref_sleb(64) == b'\xc0\x00' and ref_sleb(-64) == b'\x40' and ref_sleb(-65) == b'\xbf\x7f'
    assert ref_uleb(127) == b'\x7f' and ref_uleb(128) == b'\x80\x01' and ref_sleb(2) == b'\x02' and ref_sleb(-2) == b'\x7e'
    assert ref_decode([0xE5, 0x8E, 0x26, 9], False) == (624485, 3) and ref_decode([0xC0, 0xBB, 0x78], True) == (-123456, 3)
    assert ref_decode([0x80, 0x80], True) is None


def run(ctx):
    import time
    tm = ctx.cov['stages'].setdefault('timing_s', {})
    t0 = time.time()
    self_test_reference()
    HUNG.clear()
    lb = load_impl()
    infos, hashes = regen(ctx)
    ctx.build(['Proofs/C20_leb128.vo'])
    tm['build_proofs'] = round(time.time() - t0, 1)
    t0 = time.time()
    # always: counts the obligations even when the proofs no longer build (then it records a failed stage)
    ctx.check_props('Props/C20.v')
    tm['props'] = round(time.time() - t0, 1)
    t0 = time.time()
    # ---- correspondence: regenerated model vs implementation
    if ctx.build(['Gen/leb128.vo', 'Lib/Val.vo'])[0]:
        rng = ctx.rng
        values = sorted(boundary_values(19, wide=not ctx.quick()), key=abs) + random_values(rng, 60 if ctx.quick() else 300)
        cases, recs, seen = [], [], set()
        dist = {}

        def add(name, arg, out, label):
            key = (name, repr(arg))
            if key in seen:
                return
            seen.add(key)
            cases.append((model_call(name, arg), out))
            recs.append((name, arg, out))
            d = dist.setdefault(name, {}).setdefault(label, {'ok': 0, 'diag': 0, 'internal': 0})
            d['ok' if isinstance(out, OkV) else ('diag' if out is Diag else 'internal')] += 1

        for v in values:
            for name, diag in (('signed_leb128_encode', ()), ('unsigned_leb128_encode', (ValueError, TypeError))):
                out = timed(ctx, name, v, lambda: call_impl(getattr(lb, name), [v], diag=diag))
                if out is not None:
                    add(name, v, out, 'value' if v >= 0 or name.startswith('signed') else 'negative')
        dvals = values[::(5 if ctx.quick() else 3)] + [0, 1, -1, 63, 64, -64, -65]
        for label, data in decoder_inputs(rng, dvals):
            for name in DEC:
                out = timed(ctx, name, list(data), lambda: impl_decode(getattr(lb, name), data))
                if out is not None:
                    add(name, list(data), out, label)
        nontriv = 0
        for (name, arg, out) in recs:
            if isinstance(out, OkV):
                if name in ENC and arg != 0:
                    nontriv += 1
                elif name in DEC and out.v[0] != 0:
                    nontriv += 1
        ctx.cov['distinct_nontrivial'] += nontriv
        ctx.cov['stages']['correspondence_distribution'] = dist
        for r in recs[:: max(1, len(recs) // 8)]:
            ctx.note_sample({'fn': r[0], 'arg': repr(r[1])[:120],
                             'impl': (repr(list(r[2].v) if r[0] in ENC else r[2].v)[:120] if isinstance(r[2], OkV)
                                      else r[2].__name__)})
        bad = ctx.run_cases("leb128", ["Gen.leb128"], cases, shard=200)
        if bad:
            for i in bad[:5]:
                name, arg, out = recs[i]
                ctx.log('model/implementation disagree on', name, repr(arg)[:200], 'impl=',
                        out.v if isinstance(out, OkV) else out)
            ctx.failed_stages.append(('correspondence', 'Gen.leb128 disagrees with ppci.utils.leb128 on %d cases, first: %s %s'
                                      % (len(bad), recs[bad[0]][0], repr(recs[bad[0]][1])[:200])))
    tm['correspondence'] = round(time.time() - t0, 1)
    t0 = time.time()
    # ---- reference sweep: always (cheap), deep when a stage failed or tier is thorough
    oracle_sweep(ctx, lb, (not ctx.quick()) or bool(ctx.failed_stages))
    tm['oracle_sweep'] = round(time.time() - t0, 1)
    ctx.cov['exhaustive'] = False


MANIFEST = {
    'text': 'proof: unbounded Coq theorems (every integer v, no bit-width limit) about the four functions of ppci/utils/leb128.py: '
            'the signed and unsigned encoders return exactly the canonical LEB128 encoding of an independent specification '
            '(7-bit little-endian groups, continuation bit exactly on non-final bytes, shortest length; bytes in 0..255); that '
            'canonical encoding is unique, so any well-formed minimal byte string with value v equals the encoder output; both '
            'decoders return the specification value of every well-formed encoding (minimal or padded) and leave the iterator '
            'exactly after its last byte, hence decode(encode(v) ++ rest) = (v, rest); the unsigned encoder raises its ValueError '
            'for every negative integer; on every iterator over bytes the decoders are totally characterised: a well-formed '
            'prefix is decoded to its specification value, otherwise (no terminating byte, or empty) StopIteration is raised, and '
            'a returned (v, rest) always stems from exactly one well-formed encoding. The model is regenerated from the source by py2coq on every run.',
    'note': 'trusted: Coq kernel, tools/py2coq.py (cross-checked per run against the implementation on ~2000 boundary/random/malformed '
            'cases), Python int == Z, reading of DWARF/Wasm in Spec/Leb128Spec.v. Not covered by a theorem: iterators over ints outside 0..255 '
            '(modelled and cross-checked only); the isinstance(int) TypeError branch. '
            'No axioms.',
    'technique': 'Coq proof over py2coq-regenerated model + differential correspondence + independent reference sweep',
}
