"""C18 — Intel HEX files round-trip and are standard-conforming (DESIGN §4 C18).

tie H: coq/Model/Hexfile.v mirrors ppci/format/hexfile.py (HexLine.to_line/from_line, HexFile.add_region,
check, save, load) with fixes C18-1 (check) and C18-2 (start address record) applied, and keeps the functions
before the fixes (check_orig with the stale zip modelled exactly, save_orig) for the refutation theorems.
Every run: (1) model vs implementation on generated lines / region insertion sequences / saved files /
loaded texts; when the implementation still shows a defect the *_orig model is the one compared, and the
defect is reported with its witness; (2) an independent Python I32HEX reader (from the format definition)
applied to the real writer's output, compared with the regions that were put in; (3) the Coq reference
reader of Spec/IhexSpec.v applied to the real output and compared with (2).
"""
import io
import importlib
from vlib import OkV, Diag, Internal, ensure_repo_on_path

LEVEL = 'proof'
RULE = ('region sets: 1..6 regions, sizes 0..70, addresses near 0xFFFF*k and 2^16/2^24/2^32 boundaries, adjacent '
        'runs, overlapping pairs, random insertion order; lines: (address, type, data) incl. out-of-range fields and '
        'mutated texts; non-trivial = distinct region set with at least one non-empty region whose insertion sequence '
        'was accepted, plus distinct accepted lines')
EXPLANATION = ('Unbounded Coq theorems about Model.Hexfile against Spec.IhexSpec: line round trip and checksum/length; check is sound '
               '(same bytes, canonical result) and complete (any pairwise non-overlapping set of non-empty regions is accepted in any '
               'insertion order, an overlap is refused with HexFileException); save denotes the region bytes and the start address; '
               'load (save hf) = hf for every well-formed HexFile (canonical regions below 4 GiB, any 32-bit start address); load of ANY text '
               'the reference I32HEX reader accepts (non-empty, non-overlapping data records) yields exactly the denoted bytes and start '
               'address; saved lines are \':\' + lower-case hex, at most 71 characters; hand model tied '
               'to the implementation by correspondence on every run; refuted theorems are about check/save before fixes '
               'C18-1/C18-2, witnesses replayed on the implementation on every run')
TRUSTED = ['hand model coq/Model/Hexfile.v == ppci/format/hexfile.py (checked by correspondence only)',
           'reading of the Intel HEX (I32HEX) format in Spec/IhexSpec.v (cross-checked against an independent Python reader)',
           'struct.pack/unpack(">H"/">I"), binascii.hexlify, bytes.fromhex (without embedded white space), str.strip '
           'behave as modelled']
ASSUMPTIONS = ['HexFile.regions is only changed through add_region; files are sequences of lines',
               'regions are non-empty and end at or below 2^32 (property statement)']


# ---------------------------------------------------------------- independent I32HEX reader
class BadHex(Exception):
    pass


def ref_parse_record(line):
    """':LLAAAATT<data>CC' -> (offset, type, data). From the format definition only."""
    if not line.startswith(':'):
        raise BadHex('no start code')
    h = line[1:]
    if len(h) % 2 or len(h) < 10 or any(c not in '0123456789abcdefABCDEF' for c in h):
        raise BadHex('bad hex digits / too short')
    b = [int(h[i:i + 2], 16) for i in range(0, len(h), 2)]
    if b[0] != len(b) - 5:
        raise BadHex('length byte %d, %d data bytes present' % (b[0], len(b) - 5))
    if (-sum(b[:-1])) & 0xFF != b[-1]:
        raise BadHex('checksum %02x, expected %02x' % (b[-1], (-sum(b[:-1])) & 0xFF))
    return (b[1] << 8) | b[2], b[3], b[4:-1]


def ref_read(text):
    """-> (memory dict, start address or None); I32HEX only"""
    lines = [l for l in text.split('\n') if l != '']
    mem, start, ulba, eof = {}, None, 0, False
    for l in lines:
        if eof:
            raise BadHex('record after end-of-file record')
        off, t, d = ref_parse_record(l)
        if t == 0:
            for i, x in enumerate(d):
                a = (ulba << 16) + off + i
                if a >= 1 << 32:
                    raise BadHex('address beyond 4 GiB')
                if a in mem:
                    raise BadHex('address %#x written twice' % a)
                mem[a] = x
        elif t == 1:
            if d:
                raise BadHex('end-of-file record with data')
            eof = True
        elif t == 4:
            if len(d) != 2:
                raise BadHex('extended linear address record needs 2 bytes')
            ulba = (d[0] << 8) | d[1]
        elif t == 5:
            if len(d) != 4:
                raise BadHex('start linear address record needs 4 bytes')
            start = int.from_bytes(bytes(d), 'big')
        else:
            raise BadHex('record type %d is not I32HEX' % t)
    if not eof:
        raise BadHex('no end-of-file record')
    return mem, start


def ref_merge(regs):
    """canonical form of a set of non-overlapping regions: sorted, adjacent ones joined; None if overlapping"""
    out = []
    for a, d in sorted(regs, key=lambda r: r[0]):
        if out and out[-1][0] + len(out[-1][1]) > a:
            return None
        if out and out[-1][0] + len(out[-1][1]) == a:
            out[-1] = (out[-1][0], out[-1][1] + list(d))
        else:
            out.append((a, list(d)))
    return out


def self_test_reference():
    assert ref_parse_record(':01400000aa15') == (0x4000, 0, [0xaa])
    assert ref_parse_record(':00000001FF') == (0, 1, [])
    assert ref_parse_record(':020000040800F2') == (0, 4, [8, 0])
    assert ref_parse_record(':04000005aabbccdde9') == (0, 5, [0xaa, 0xbb, 0xcc, 0xdd])
    # example of the format description
    assert ref_parse_record(':10010000214601360121470136007EFE09D2190140')[0:2] == (0x100, 0)
    for bad in (':01400000aabb', ':0140002200aabb', '01400000aa15', ':0140000aa15'):
        try:
            ref_parse_record(bad)
        except BadHex:
            continue
        raise AssertionError(bad)
    mem, st = ref_read(':020000040001F9\n:02FFFE00AABB9C\n:0400000500001234B1\n:00000001FF\n')
    assert mem == {0x1FFFE: 0xAA, 0x1FFFF: 0xBB} and st == 0x1234, (mem, st)
    assert ref_merge([(32, [1]), (0, [2, 3]), (2, [4])]) == [(0, [2, 3, 4]), (32, [1])]


# ---------------------------------------------------------------- implementation harness
def load_impl():
    ensure_repo_on_path()
    import ppci.format.hexfile as hx
    importlib.reload(hx)
    return hx


def run_impl(hx, fn, diag=None):
    try:
        return OkV(fn())
    except (diag if diag is not None else (hx.HexFileException, ValueError)):
        return Diag
    except Exception:   # noqa: BLE001
        return Internal


def regs_of(hf):
    return [(r.address, list(r.data)) for r in hf.regions]


def impl_add_seq(hx, seq):
    def f():
        hf = hx.HexFile()
        for a, d in seq:
            hf.add_region(a, bytes(d))
        return regs_of(hf)
    return run_impl(hx, f)


def impl_build(hx, canon, start):
    """a HexFile holding exactly the canonical regions (inserted in order, nothing to merge)"""
    hf = hx.HexFile()
    for a, d in canon:
        hf.regions.append(hx.HexFileRegion(a, bytes(d)))
    hf.start_address = start
    return hf


def impl_save(hx, canon, start):
    def f():
        out = io.StringIO()
        impl_build(hx, canon, start).save(out)
        return out.getvalue()
    return run_impl(hx, f)


def impl_load(hx, text):
    def f():
        hf = hx.HexFile.load(io.StringIO(text))
        return (regs_of(hf), hf.start_address)
    return run_impl(hx, f)


def impl_to_line(hx, a, t, d):
    return run_impl(hx, lambda: hx.HexLine(a, t, bytes(d)).to_line(), diag=())


def impl_from_line(hx, s):
    def f():
        l = hx.HexLine.from_line(s)
        return (l.address, l.typ, list(l.data))
    return run_impl(hx, f)


# ---------------------------------------------------------------- Coq terms
def zt(v):
    return str(v) if v >= 0 else '(%d)' % v


def bl(d):
    if len(d) > 3000 and all(x == (i * 7 + 1) % 256 for i, x in enumerate(d)):
        return '(map (fun i => (i * 7 + 1) mod 256) (rangeZ 0 %d))' % len(d)
    return '[%s]' % '; '.join(str(x) for x in d)


def regl(rs):
    return '[%s]' % '; '.join('(%s, %s)' % (zt(a), bl(d)) for a, d in rs)


def strl(lines):
    return '[%s]' % '; '.join('"%s"%%string' % l.replace('"', '""') for l in lines)


def term_add_seq(seq, orig):
    fn = 'add_region_orig' if orig else 'add_region'
    t = 'Ok empty_hexfile'
    for a, d in seq:
        t = '(hf <- %s ;; %s hf %s %s)' % (t, fn, zt(a), bl(d))
    return 'hf <- %s ;; Ok (regions hf)' % t


# ---------------------------------------------------------------- generators
def rbytes(rng, n):
    return [rng.randrange(256) for _ in range(n)]


def gen_region_sets(ctx, count):
    """list of (label, [(addr, data)...]) in insertion order"""
    rng = ctx.rng
    anchors = [0, 1, 0x100, 0xFFFF - 40, 0xFFFF, 0x10000 - 16, 0x10000, 0xFFFF * 2, 0xFFFF * 2 - 30, 0x1FFF0, 0xFFFF * 3,
               0xFFFFF0, 0x1000000 - 35, 0xFFFF * 255, 0xFFFF * 4097, 0x7FFFFFF0, 0xFFFF0000 - 31, 0xFFFFFF00, (1 << 32) - 200]
    out = []
    # the witness of the refuted check theorem and its relatives
    w = [(0, list(range(16))), (32, list(range(32, 48))), (16, list(range(16, 32)))]
    out.append(('witness', w))
    out.append(('witness_perm', [w[0], w[2], w[1]]))
    out.append(('witness_perm', [w[2], w[1], w[0]]))
    while len(out) < count:
        kind = rng.choice(['adjacent_run', 'adjacent_run', 'separate', 'mixed', 'overlap', 'with_empty'])
        base = rng.choice(anchors) + rng.choice([0, 0, rng.randrange(0, 64)])
        regs = []
        a = base
        n = rng.randrange(1, 7)
        for k in range(n):
            size = rng.choice([1, 2, 16, 29, 30, 31, 60, 70, rng.randrange(1, 71)])
            if kind == 'with_empty' and rng.random() < 0.4:
                size = 0
            gap = 0 if kind == 'adjacent_run' else (rng.randrange(1, 40) if kind == 'separate' else rng.choice([0, 0, 1, 5, 0x10000]))
            if kind == 'overlap' and k == n - 1 and regs:
                gap = -rng.randrange(1, 1 + max(1, len(regs[-1][1])))
            a += gap
            regs.append((a, rbytes(rng, size)))
            a += size
        if regs and regs[-1][0] + len(regs[-1][1]) > (1 << 32) and rng.random() < 0.8:
            continue
        rng.shuffle(regs)
        out.append((kind, regs))
    return out


def canon_sets(ctx, count, big=True):
    """canonical (sorted, non-adjacent, non-empty, below 4 GiB) region lists + start address"""
    rng = ctx.rng
    out = []
    for _, regs in gen_region_sets(ctx, count * 3):
        regs = [(a, d) for a, d in regs if d]
        m = ref_merge(regs)
        if not m or m[-1][0] + len(m[-1][1]) > (1 << 32):
            continue
        out.append((m, rng.choice([0, 0, 1, 0x1234, 0x8000000, 0xFFFFFFFF, rng.randrange(1 << 32)])))
        if len(out) >= count:
            break
    big = [(0xF003, [(i * 7 + 1) % 256 for i in range(0x10000 + 50)])]
    if big:
        out.append((big, 0x100))
    out.append(([(0xFFFFFFE0, rbytes(rng, 32))], 5))
    out.append(([(0xFFFF, [1]), (0x1FFFE, [2, 3, 4]), (0x2FFFD, rbytes(rng, 70))], 0))
    return out


# ---------------------------------------------------------------- defect probes (witnesses of the refuted theorems)
W_CHECK = [(0, list(range(16))), (32, list(range(32, 48))), (16, list(range(16, 32)))]


def probe_check(hx):
    """True when check() still loses data on the witness"""
    r = impl_add_seq(hx, W_CHECK)
    return not (isinstance(r, OkV) and r.v == [(0, list(range(48)))])


def probe_start(hx):
    s = impl_save(hx, [(0x100, [97, 98, 99])], 0x1234)
    if not isinstance(s, OkV):
        return True
    r = impl_load(hx, s.v)
    return not (isinstance(r, OkV) and r.v[1] == 0x1234)


# ---------------------------------------------------------------- oracle
def oracle_sweep(ctx, hx, thorough):
    n = 0
    # (a) insertion sequences: result must be the canonical merge of what was put in (or a refusal iff overlapping)
    for label, seq in gen_region_sets(ctx, 150 if not thorough else 1500):
        n += 1
        if any(a < 0 for a, _ in seq):
            continue
        nonempty = all(d for _, d in seq)
        want = ref_merge(seq)
        got = impl_add_seq(hx, seq)
        rec = {'fn': 'HexFile.add_region', 'args': [[a, d] for a, d in seq],
               'how_to_replay': 'PYTHONPATH=/repo python -c "from ppci.format.hexfile import HexFile; hf=HexFile(); '
               '[hf.add_region(a, bytes(d)) for a, d in %r]; print(hf.regions)"' % ([(a, d) for a, d in seq],)}
        if not nonempty:
            continue   # the property speaks about non-empty regions
        if want is None:
            if isinstance(got, OkV):
                rec.update(key='overlap-accepted', expected='HexFileException (overlapping regions)', actual=repr(got.v)[:300])
                ctx.violation(rec)
        elif not isinstance(got, OkV):
            rec.update(key='add_region-exception', expected=repr(want)[:300], actual='exception')
            ctx.violation(rec)
        elif got.v != want:
            rec.update(key='check-loses-data', expected='regions %s' % [(a, len(d)) for a, d in want],
                       actual='regions %s' % [(a, len(d)) for a, d in got.v])
            ctx.violation(rec)
    # (b) save: independent reader on the real output; load(save) round trip
    for canon, start in canon_sets(ctx, 80 if not thorough else 600):
        n += 1
        out = impl_save(hx, canon, start)
        rec = {'fn': 'HexFile.save', 'regions': [[a, d if len(d) <= 400 else 'bytes x%d: (7*i+1)%%256' % len(d)] for a, d in canon],
               'start_address': start,
               'how_to_replay': 'build HexFile with these regions (add_region) and start_address, save to StringIO, '
                                'read with an independent Intel HEX reader / HexFile.load'}
        if not isinstance(out, OkV):
            rec.update(key='save-exception', expected='a hex file', actual='exception')
            ctx.violation(rec)
            continue
        try:
            mem, st = ref_read(out.v)
        except BadHex as ex:
            rec.update(key='save-malformed', expected='conforming I32HEX records', actual=str(ex), output_head=out.v[:300])
            ctx.violation(rec)
            continue
        want = {a + i: x for a, d in canon for i, x in enumerate(d)}
        if mem != want:
            diff = sorted(set(mem.items()) ^ set(want.items()))[:4]
            rec.update(key='save-denotation', expected='the region bytes at their addresses',
                       actual='decoded image differs, e.g. %s' % diff, output_head=out.v[:300])
            ctx.violation(rec)
            continue
        if (st or 0) != start:
            rec.update(key='start-address-not-saved', expected='start address %#x in a type 05 record' % start,
                       actual='file carries start address %r' % st, output_head=out.v[-120:])
            ctx.violation(rec)
            continue
        back = impl_load(hx, out.v)
        if not (isinstance(back, OkV) and back.v == (canon, start)):
            rec.update(key='load-save', expected='same regions and start address after load(save())',
                       actual=(repr([(a, len(d)) for a, d in back.v[0]]) + ' start=%r' % back.v[1])
                       if isinstance(back, OkV) else 'exception')
            ctx.violation(rec)
    return n


def search(ctx):
    hx = load_impl()
    n = oracle_sweep(ctx, hx, True)
    ctx.cov['stages']['oracle_sweep'] = n
    ctx.cov['evaluations'] += n


def regen(ctx):
    return None


def dist_add(dist, label, out):
    d = dist.setdefault(label, {'ok': 0, 'diag': 0, 'internal': 0})
    d['ok' if isinstance(out, OkV) else ('diag' if out is Diag else 'internal')] += 1


def run(ctx):
    import time
    tm = ctx.cov['stages'].setdefault('timing_s', {})
    self_test_reference()
    hx = load_impl()
    t0 = time.time()
    ctx.build(['Proofs/C18_hexfile.vo', 'Proofs/C18_refuted.vo', 'Proofs/C18_bounded.vo', 'Proofs/C18_loadsave.vo',
               'Proofs/C18_complete.vo', 'Proofs/C18_text.vo', 'Proofs/C18_reader.vo'])
    tm['build'] = round(time.time() - t0, 1)
    t0 = time.time()
    ctx.check_props('Props/C18.v')
    tm['props'] = round(time.time() - t0, 1)
    t0 = time.time()
    thorough = not ctx.quick()
    rng = ctx.rng
    check_defect = probe_check(hx)
    start_defect = probe_start(hx)
    ctx.cov['stages']['implementation_state'] = {'check_loses_data': check_defect, 'start_address_dropped': start_defect}
    if ctx.build(['Model/Hexfile.vo', 'Spec/IhexSpec.vo', 'Lib/Val.vo'])[0]:
        imports = ['Model.Hexfile', 'Spec.IhexSpec']
        # ---- 1. lines
        cases, info, dist = [], [], {}
        good_lines = []
        for a in [0, 1, 0xFF, 0x100, 0x4000, 0xFFFE, 0xFFFF, 0x10000, -1, rng.randrange(65536)]:
            for t in [0, 1, 2, 4, 5, 255, 256, -1]:
                for n in [0, 1, 2, 4, 16, 30, rng.randrange(0, 71), 255, 256][:: (1 if thorough or a in (0, 0xFFFF) else 2)]:
                    d = rbytes(rng, n)
                    out = impl_to_line(hx, a, t, d)
                    cases.append(('to_line (mkHexLine %s %s %s)' % (zt(a), zt(t), bl(d)), out))
                    info.append(('to_line', (a, t, n)))
                    dist_add(dist, 'to_line', out)
                    if isinstance(out, OkV) and n <= 70:
                        good_lines.append(out.v)
        texts = list(good_lines[::3])
        for s in good_lines[::5]:
            k = rng.randrange(1, len(s))
            texts.append(s[:k] + rng.choice('0123456789abcdefABCDEFgz:') + s[k + 1:])      # one character replaced
            texts.append(s[:-2])                                                             # checksum removed
            texts.append(s.upper())
            texts.append(s[1:])
            texts.append(s[:k])
        texts += ['', ':', ':0', ':00', ':00000001ff', ':00000001FF', ':01400000aa15', ':01400000aabb', ':0140002200aabb',
                  ':04000005aabbccdde9', ':04000001aabbccdded', ':020000040800f2', ':00', ':0000', ':000000', ':00000000',
                  ':0000000000', 'x00000001ff']
        seen = set()
        for s in texts:
            if s in seen or any(c in s for c in ' \t\n\r"'):
                continue
            seen.add(s)
            out = impl_from_line(hx, s)
            cases.append(('hl <- from_line "%s"%%string ;; Ok (address hl, typ hl, data hl)' % s, out))
            info.append(('from_line', s))
            dist_add(dist, 'from_line', out)
        ctx.cov['stages']['lines_distribution'] = dist
        nontriv = sum(1 for (c, o) in cases if isinstance(o, OkV))
        bad = ctx.run_cases('lines', imports, cases)
        if bad:
            ctx.log('model/implementation disagree on', info[bad[0]])
            ctx.failed_stages.append(('correspondence', 'Model.Hexfile line functions disagree with HexLine on %d cases, '
                                      'first: %r' % (len(bad), info[bad[0]])))
        # ---- 2. add_region sequences (check): compare the model of the behaviour the implementation has
        cases, info, dist = [], [], {}
        for label, seq in gen_region_sets(ctx, 220 if not thorough else 1200):
            out = impl_add_seq(hx, seq)
            cases.append((term_add_seq(seq, check_defect), OkV([(a, d) for a, d in out.v]) if isinstance(out, OkV) else out))
            info.append((label, [(a, len(d)) for a, d in seq]))
            dist_add(dist, label, out)
            if isinstance(out, OkV) and any(d for _, d in seq):
                nontriv += 1
        ctx.cov['stages']['add_region_distribution'] = dist
        ctx.cov['stages']['check_model_compared'] = 'check_orig' if check_defect else 'check'
        bad = ctx.run_cases('check', imports, cases)
        if bad:
            ctx.log('model/implementation disagree on add_region sequence', info[bad[0]])
            ctx.failed_stages.append(('correspondence', 'Model.Hexfile.%s disagrees with HexFile.add_region/check on %d '
                                      'sequences, first: %r' % ('check_orig' if check_defect else 'check', len(bad), info[bad[0]])))
        # ---- 3. save / load / Coq reference reader on the real output
        scases, lcases, rcases, sinfo = [], [], [], []
        dist = {}
        sets = canon_sets(ctx, 60 if not thorough else 400, big=thorough)   # the 64 KiB region: model side is slow, the oracle sees it
        # also non-canonical objects handed to save: empty regions, regions beyond 4 GiB
        sets += [([(0x10, [])], 0), ([(0xFFFFFFF0, rbytes(rng, 32))], 0), ([(0x100000000, [1, 2])], 0),
                 ([(0x1FFFF0000, [1])], 0), ([(5, [1])], 1 << 32), ([(5, [1])], -1)]
        for canon, start in sets:
            out = impl_save(hx, canon, start)
            dist_add(dist, 'save', out)
            biggish = sum(len(d) for _, d in canon) > 2000
            exp = OkV(out.v.split('\n')[:-1]) if isinstance(out, OkV) else out
            scases.append(('%s (mkHexFile %s %s)' % ('save_orig' if start_defect else 'save', regl(canon), zt(start)), exp))
            sinfo.append(([(a, len(d)) for a, d in canon], start))
            if isinstance(out, OkV) and not biggish:
                back = impl_load(hx, out.v)
                dist_add(dist, 'load', back)
                lcases.append(('hf <- load %s ;; Ok (regions hf, start_address hf)' % strl(exp.v),
                               OkV(([(a, d) for a, d in back.v[0]], back.v[1])) if isinstance(back, OkV) else back))
                try:
                    mem, st = ref_read(out.v)
                    blocks = []
                    ulba = 0
                    for l in exp.v:
                        off, t, d = ref_parse_record(l)
                        if t == 4:
                            ulba = (d[0] << 8) | d[1]
                        elif t == 0:
                            blocks.append(((ulba << 16) + off, d))
                    py = (blocks, st)
                except BadHex:
                    py = None
                rcases.append(('denote_file %s' % strl(exp.v), py))
        # load on hand-made and damaged texts
        base_texts = [c[0] for c in lcases[:: max(1, len(lcases) // 12)]]
        extra = [[':01400000aa15', '', '   w00t', ' :00000001ff  '], [':00000001FF', ':04000001aabbccdded'],
                 [':04000001aabbccdded'], [':04000005aabbccdde9'], [':01400000aabb'], [':0140002200aabb'],
                 [':020000021000ec', ':00000001ff'], [':0100000401f9'], [':0300000500000af5'], [':00000001ff', ':00000001ff'],
                 [':020000040001f9', ':02fffe00aabb9c', ':020000040002f8', ':020000001122cb', ':00000001ff'],
                 [':0100100001ee', ':0100110002ec', ':010010000fe0'], ['\t:01400000aa15\r', 'junk'], []]
        for lines in extra:
            text = '\n'.join(lines) + ('\n' if lines else '')
            back = impl_load(hx, text)
            dist_add(dist, 'load_handmade', back)
            lcases.append(('hf <- load %s ;; Ok (regions hf, start_address hf)' % strl([l.replace('\t', ' ').replace('\r', ' ') for l in lines]),
                           OkV(([(a, d) for a, d in back.v[0]], back.v[1])) if isinstance(back, OkV) else back))
        ctx.cov['stages']['save_load_distribution'] = dist
        ctx.cov['stages']['save_model_compared'] = 'save_orig' if start_defect else 'save'
        for name, cs in (('save', scases), ('load', lcases), ('reader', rcases)):
            bad = ctx.run_cases(name, imports, cs, shard=40)
            if bad:
                ctx.log('disagreement in stage', name, cs[bad[0]][0][:200])
                what = {'save': 'Model.Hexfile.save disagrees with HexFile.save', 'load': 'Model.Hexfile.load disagrees with HexFile.load',
                        'reader': 'Spec.IhexSpec.denote_file disagrees with the independent Python reader on real output'}[name]
                ctx.failed_stages.append(('correspondence' if name != 'reader' else 'spec_reader',
                                          '%s on %d cases, first: %s' % (what, len(bad), cs[bad[0]][0][:200])))
        ctx.cov['distinct_nontrivial'] += nontriv + sum(1 for c, o in scases if isinstance(o, OkV))
        ctx.note_sample({'fn': 'add_region', 'seq': repr(W_CHECK)[:160]})
        for i in (3, 11, 27):
            if i < len(sinfo):
                ctx.note_sample({'fn': 'save', 'regions(addr,len)': repr(sinfo[i][0])[:160], 'start': sinfo[i][1]})
    tm['correspondence'] = round(time.time() - t0, 1)
    t0 = time.time()
    # the implementation must agree with the proved (fixed) model: a remaining defect is a violation with its witness
    n = oracle_sweep(ctx, hx, thorough or bool(ctx.failed_stages) or check_defect or start_defect)
    ctx.cov['stages']['oracle_sweep'] = n
    ctx.cov['evaluations'] += n
    ctx.cov['exhaustive'] = False
    tm['oracle'] = round(time.time() - t0, 1)


MANIFEST = {
    'text': 'proof (all unbounded): HexLine.to_line/from_line round trip and every emitted line has correct length byte and '
            'two\'s-complement checksum; check() returns canonical (sorted, merged) regions with the same bytes at the same addresses, '
            'accepts every pairwise non-overlapping set of non-empty regions in any insertion order (order does not change the image) '
            'and refuses any overlap with HexFileException; the I32HEX denotation of save(hf) is the bytes of hf.regions incl. 64 KiB '
            'crossings, plus the start address; load(save(hf)) = hf (same region list, same start address) for every HexFile with '
            'canonical non-empty regions below 4 GiB and any 32-bit start address; load of any file the reference I32HEX reader gives a '
            'denotation (non-empty, non-overlapping data records, either hex case) returns canonical regions holding exactly the denoted '
            'bytes and the denoted start address; saved lines are \':\' + [0-9a-f]*, at most 71 characters. The merger/writer before fixes C18-1/C18-2 is '
            'refuted (bridging region loses data; start address never saved).',
    'note': 'hand model of ppci/format/hexfile.py tied to the implementation by correspondence on generated lines, insertion '
            'sequences and files on every run; trusted: Coq kernel, model correspondence, the reading of the Intel HEX format '
            '(cross-checked by an independent Python reader on the real output), struct/binascii/str.strip as modelled. Not covered '
            'by theorems: lines with surrounding white space / junk lines that load skips, bytes.fromhex with embedded white space '
            '(correspondence only). c18_load_save_bounded is a computational instance kept as a cross-check.',
    'technique': 'Coq proof over hand model + differential correspondence + independent reader',
}
