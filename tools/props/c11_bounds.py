"""Generic, model-free boundary stage for EVERY relocation class of EVERY architecture (used by C11 and C10).

No ISA knowledge and no model: each class is driven through its real `apply` as a black box
  f(v) = cls(None).apply(P + D0 + v*scale, zero template, P)          (P fixed, 16-aligned)
and calibrated from in-range applications only:
  scale  smallest step of the symbol address that changes the patched bytes (both accepted),
  D0     the displacement whose patched bytes are all zero (field value 0), searched around small displacements,
  w      smallest k with f(2^k) rejected or f(2^k) == f(-2^k)  ->  the field holds 2^w values,
  absolute classes (bytes independent of P) are probed on non-negative values only.
Then f is probed at v in {+-2^(w-1), +-2^w} + {-1, 0, 1}, 2^(w-1)-2, and -2..2. The field can hold 2^w values, so two
DIFFERENT accepted displacements with IDENTICAL patched bytes mean that one of them is "accepted but aliased": the
member with the smallest |v| (the negative one on a tie: two's complement) is the representable one, every other
member is reported, keyed by (class, boundary label such as '+2^(w-1)+1').  An error raised by apply is always fine.
Lax ranges that exist on the unchanged tree are known findings keyed per (class, boundary); a new aliased boundary
is a VIOLATION with a concrete replay.
"""
ARCHS = ['arm', 'arm:thumb', 'avr', 'm68k', 'microblaze', 'mips', 'msp430', 'or1k', 'riscv', 'riscv:rvc', 'stm8',
         'x86_64', 'xtensa', 'mcs6500', 'example']
P0 = 0x100000


def all_classes():
    from ppci.api import get_arch
    seen = {}
    for an in ARCHS:
        try:
            arch = get_arch(an)
        except Exception:   # noqa: BLE001
            continue
        for name, cls in sorted(arch.isa.relocation_map.items()):
            key = '%s.%s' % (cls.__module__, cls.__name__)
            if key not in seen:
                seen[key] = (an, name, cls)
    return seen


def run_apply(cls, S, size, P=P0):
    try:
        r = cls(None, offset=0, addend=0).apply(S, bytearray(size), P)
        return bytes(r)
    except RecursionError:
        return None
    except Exception:   # noqa: BLE001
        return None


def calibrate(cls):
    """-> dict(size, scale, D0, w, absolute) or None when the class cannot be calibrated"""
    try:
        size = cls.size()
    except Exception:   # noqa: BLE001
        return None
    # a base displacement that is accepted: pc-relative classes near the site, absolute classes near address 0
    base, origin = None, None
    for org in (P0, 0):
        for b in (0, 4, 8, 16, 32, 64):
            if run_apply(cls, org + b, size) is not None:
                base, origin = b, org
                break
        if base is not None:
            break
    if base is None:
        return None
    r0 = run_apply(cls, origin + base, size)
    scale = None
    for s in (1, 2, 4, 8, 16):
        r = run_apply(cls, origin + base + s, size)
        if r is not None and r != r0:
            scale = s
            break
    if scale is None:
        return None
    absolute = run_apply(cls, origin + base, size, P0 + 0x40) == r0 and \
        run_apply(cls, origin + base + scale, size, P0 + 0x40) == run_apply(cls, origin + base + scale, size)
    if not absolute and origin == 0:
        return None
    if absolute:
        D0 = -P0
    else:
        D0 = None
        zero = bytes(size)
        for j in sorted(range(-48, 49), key=abs):
            if run_apply(cls, P0 + base + j * scale, size) == zero:
                D0 = base + j * scale
                break
        if D0 is None:
            D0 = base
    f = lambda v: run_apply(cls, P0 + D0 + v * scale, size)   # noqa: E731
    w = None
    for k in range(1, 8 * size + 2):
        r = f(1 << k)
        if r is None or (not absolute and r == f(-(1 << k))) or (absolute and r == f(0)):
            w = k + (0 if absolute else 1)
            break
    if w is None:
        return None
    return {'size': size, 'scale': scale, 'D0': D0, 'w': w, 'absolute': absolute, 'f': f}


def probes(w, absolute):
    """{-2^(w-1)-1, -2^(w-1), -2^(w-1)+1, -1, 0, 1, 2^(w-1)-2, 2^(w-1)-1, 2^(w-1), 2^(w-1)+1, 2^w-1, 2^w} for fields
    calibrated as signed/pc-relative; the non-negative ones plus 2^w+1 for absolute fields"""
    h, f = 1 << (w - 1), 1 << w
    out = {-h - 1: '-2^(w-1)-1', -h: '-2^(w-1)', -h + 1: '-2^(w-1)+1', -1: '-1', 0: '0', 1: '+1', h - 2: '+2^(w-1)-2',
           h - 1: '+2^(w-1)-1', h: '+2^(w-1)', h + 1: '+2^(w-1)+1', f - 1: '+2^w-1', f: '+2^w'}
    if absolute:
        out = {v: l for v, l in out.items() if v >= 0}
        out[f + 1] = '+2^w+1'
    return out


# relocations that store a SLICE of the value by design (lo/hi parts of a split address): aliasing at 2^w is their
# purpose, not a range defect; their pairing is covered by the C11 pair theorems (riscv) or not at all (others)
PARTIAL = {'ppci.arch.riscv.relocations.Abs32Imm12Relocation', 'ppci.arch.riscv.relocations.RelImm12Relocation',
           'ppci.arch.riscv.relocations.Abs32Imm20Relocation', 'ppci.arch.riscv.relocations.RelImm20Relocation',
           'ppci.arch.or1k.instructions.ConstRelocation', 'ppci.arch.or1k.instructions.ConsthRelocation',
           'ppci.arch.avr.instructions.LdiHiAvrRelocation', 'ppci.arch.avr.instructions.LdiLoAvrRelocation'}


def class_findings(cls):
    """-> (calibration or None, [(label, v, representable v, patched bytes)])"""
    if '%s.%s' % (cls.__module__, cls.__name__) in PARTIAL:
        return None, []
    cal = calibrate(cls)
    if cal is None:
        return None, []
    groups = {}
    pr = probes(cal['w'], cal['absolute'])
    for v, label in pr.items():
        r = cal['f'](v)
        if r is not None:
            groups.setdefault(r, []).append(v)
    out = []
    for r, vs in groups.items():
        if len(vs) > 1:
            rep = min(vs, key=lambda x: (abs(x), x))
            for v in vs:
                if v != rep:
                    out.append((pr[v], v, rep, r))
    return cal, sorted(out, key=lambda x: x[1])


def reloc_boundary_stage(ctx):
    """run the stage; every aliased boundary goes through ctx.violation (KNOWN-FINDING when listed per (class, boundary))"""
    stats = {'classes': 0, 'calibrated': 0, 'not_calibrated': [], 'aliased': {}, 'evaluations': 0}
    for key, (an, name, cls) in sorted(all_classes().items()):
        stats['classes'] += 1
        cal, found = class_findings(cls)
        if cal is None:
            stats['not_calibrated'].append(key)
            continue
        stats['calibrated'] += 1
        stats['evaluations'] += len(probes(cal['w'], cal['absolute']))
        for (label, v, rep, r) in found:
            stats['aliased'].setdefault(key, []).append(label)
            S = P0 + cal['D0'] + v * cal['scale']
            ctx.violation({'fn': 'reloc_boundary', 'cls': key, 'boundary': label, 'arch': an, 'reloc': name,
                           'field_values': 2 ** cal['w'], 'scale': cal['scale'], 'displacement_units': v,
                           'aliases_displacement_units': rep,
                           'args': {'sym_value': S, 'data': [0] * cal['size'], 'reloc_value': P0},
                           'patched': list(r), 'key': 'boundary:%s:%s' % (key, label),
                           'what': '%s accepts displacement %d (x%d bytes) and patches the same bytes as for %d: accepted but aliased'
                                   % (key, v, cal['scale'], rep),
                           'how_to_replay': 'from %s import %s as C; C(None).apply(%d, bytearray(%d), %d) == C(None).apply(%d, bytearray(%d), %d)'
                                            % (cls.__module__, cls.__name__, S, cal['size'], P0,
                                               P0 + cal['D0'] + rep * cal['scale'], cal['size'], P0)})
    ctx.cov['stages']['reloc_boundary'] = stats
    ctx.cov['evaluations'] += stats['evaluations']
    return stats


def known_entries():
    """entries for the aliased boundaries of the CURRENT tree (used once to seed known_findings.json after triage)"""
    out = []
    for key, (an, name, cls) in sorted(all_classes().items()):
        cal, found = class_findings(cls)
        for (label, v, rep, r) in found:
            out.append({'property': 'C11', 'status': 'known',
                        'match': {'fn': 'reloc_boundary', 'cls': key, 'boundary': label},
                        'what': '%s %s: displacement %s (field holds 2^%d values, unit %d bytes) is accepted and aliases %d '
                                '(lax range check: wrap_negative / Token.__setitem__)' % (an, name, label, cal['w'], cal['scale'], rep)})
    return out
