"""C09 replay helpers: print an instruction instance, assemble the text with the REAL assembler of the
architecture, and compare section bytes + relocations with emitting the instance directly.
Also the Python mirrors of Model/AsmSyntax.v render/matches (validated against Coq by run_cases)."""
import random
from vlib import ensure_repo_on_path
ensure_repo_on_path()

IMM_POOL = [0, 1, 2, 3, 4, 5, 7, 8, 12, 15, 16, 31, 32, 63, 64, 100, 127, 128, 255, 256, 1000, 2047, 2048, 4095, 4096,
            32767, 32768, 65535, 65536, 1 << 20, (1 << 31) - 1, 1 << 31, (1 << 32) - 1,
            -1, -2, -4, -8, -16, -100, -128, -129, -2048, -32768, -(1 << 31)]
LABEL_POOL = ['lbl', 'main_loop', 'x1y', 'L_3', 'Zq9', '_start0']


def obj_view(obj):
    secs = sorted((s.name, bytes(s.data)) for s in obj.sections if s.data)
    names = {s.id: s.name for s in obj.symbols}
    rel = sorted((r.reloc_type, names.get(r.symbol_id, r.symbol_id), r.section, r.offset, r.addend)
                 for r in obj.relocations)
    return secs, rel


def direct_view(arch, ins):
    """what emitting the instance directly produces"""
    from ppci.binutils.objectfile import ObjectFile
    from ppci.binutils.outstream import BinaryOutputStream
    obj = ObjectFile(arch)
    st = BinaryOutputStream(obj)
    st.select_section('code')
    st.emit(ins)
    return obj_view(obj)


class Rejected(Exception):
    pass


def asm_view(arch, text, collect=None):
    """what the real assembler produces for the text; raises Rejected(msg) when it refuses"""
    from ppci.binutils.objectfile import ObjectFile
    from ppci.binutils.outstream import BinaryOutputStream
    from ppci.common import CompilerError, DiagnosticsManager
    obj = ObjectFile(arch)
    st = BinaryOutputStream(obj)
    st.select_section('code')
    if collect is not None:
        orig = st.do_emit

        def do_emit(item):
            collect.append(item)
            return orig(item)
        st.do_emit = do_emit
    a = arch.assembler
    try:
        a.prepare()
        a.assemble(text, st, DiagnosticsManager())
        a.flush()
    except CompilerError as ex:
        raise Rejected('CompilerError: %s' % str(getattr(ex, 'msg', ex))[:120])
    return obj_view(obj)


# ------------------------------------------------------------------ operand sampling
def leaves_of(entry):
    return [a for a in entry['syn'] if a[0] in ('reg', 'imm', 'lab', 'other')]


SMALL_POOL = [0, 1, 2, 3, 4, 7, 8, 16, 33, 100, 256, 300]


def imm_pool_for(info, entry):
    """classes whose encoded size grows with an immediate (dzero n, ds n) only get small immediates"""
    if 'imm_pool' in entry:
        return entry['imm_pool']
    lens = []
    for z in (8, 40):
        vals = []
        for lk in entry.get('leafkinds') or []:
            if lk[0] == 'reg':
                vals.append(info.regclasses[lk[1]]['objs'][0])
            elif lk[0] == 'imm':
                vals.append(z)
            elif lk[0] == 'lab':
                vals.append('lbl')
            else:
                vals = None
                break
        if vals is None:
            break
        try:
            lens.append(len(entry['build'](list(vals)).encode()))
        except Exception:   # noqa: BLE001
            lens.append(None)
    small = len(lens) == 2 and lens[0] is not None and lens[1] is not None and lens[0] != lens[1]
    entry['imm_pool'] = SMALL_POOL if small else IMM_POOL
    return entry['imm_pool']


def sample_instances(rng, info, entry, n, kws, tries=40):
    """up to n distinct (instance, values, model operands) whose encode() succeeds"""
    out, seen = [], set()
    entry['_pool'] = imm_pool_for(info, entry)
    want = n if leaves_of(entry) else 1
    for t in range(tries):
        if len(out) >= want:
            break
        vals, mops = sample_values_any(rng, info, entry, len(out) if t < 3 * want else 2, kws)
        if vals is None:
            return None
        key = repr(mops)
        if key in seen:
            continue
        try:
            ins = entry['build'](list(vals))
            ins.encode()
            ins.relocations()
        except Exception:   # noqa: BLE001   (out-of-range operand etc.: not an instance to test)
            continue
        seen.add(key)
        out.append((ins, vals, mops))
    return out


def sample_values_any(rng, info, entry, k, kws):
    """like sample_values, but entries with unmodelled register operands (avr pairs) draw real register objects"""
    vals, mops = [], []
    it = iter(entry.get('leafkinds') or [])
    for a in leaves_of(entry):
        lk = next(it, None)
        if a[0] == 'other' and lk and lk[0] == 'reg':
            a = ('reg', lk[1])
        if a[0] == 'reg':
            objs = info.regclasses[a[1]]['objs']
            i = 0 if k == 0 else len(objs) - 1 if k == 1 else rng.randrange(len(objs))
            vals.append(objs[i])
            mops.append(('r', i))
        elif a[0] == 'imm':
            pool = entry.get('_pool', IMM_POOL)
            z = rng.choice(pool) if pool is SMALL_POOL or k < 3 or rng.random() < 0.7 else rng.randrange(-70000, 70000)
            vals.append(z)
            mops.append(('i', z))
        elif a[0] == 'lab':
            s = rng.choice([x for x in LABEL_POOL if x.lower() not in kws])
            vals.append(s)
            mops.append(('l', s))
        elif lk and lk[0] == 'regset':
            objs = info.regclasses[lk[1]]['objs'] if lk[1] is not None else None
            if not objs:
                return None, None
            pick = sorted(rng.sample(range(min(8, len(objs))), 2))
            vals.append(lk[2]([objs[i] for i in pick]))
            mops.append(('s', pick))
        else:
            return None, None
    return vals, mops


# ------------------------------------------------------------------ Python mirrors of the Coq model
def py_render(info, syn, mops):
    """mirror of AsmSyntax.render: list of ('w', s) | ('n', z) | ('g', s), or None"""
    ops = list(mops)
    out = []
    for a in syn:
        if a[0] == 'sp':
            continue
        if a[0] == 'lit':
            out.append(('w', a[1]))
        elif a[0] == 'gl':
            out.append(('g', a[1]))
        elif a[0] == 'reg':
            if not ops or ops[0][0] != 'r':
                return None
            regs = info.regclasses[a[1]]['regs']
            if ops[0][1] >= len(regs):
                return None
            out.append(('w', regs[ops.pop(0)[1]][0]))
        elif a[0] == 'imm':
            if not ops or ops[0][0] != 'i':
                return None
            z = ops.pop(0)[1]
            out += [('g', '-'), ('n', -z)] if z < 0 else [('n', z)]
        elif a[0] == 'lab':
            if not ops or ops[0][0] != 'l':
                return None
            out.append(('w', ops.pop(0)[1]))
        else:
            return None
    return out if not ops else None


def py_matches(info, kws, rule, toks):
    """mirror of AsmSyntax.matches"""
    toks = list(toks)
    ops = []

    def typ(s):
        return s.lower() if s.lower() in kws else None
    for a in rule:
        if not toks:
            return None
        t = toks[0]
        if a[0] == 'lit':
            if t[0] != 'w' or typ(t[1]) != a[1]:
                return None
            toks.pop(0)
        elif a[0] == 'gl':
            if t[0] != 'g' or t[1] != a[1]:
                return None
            toks.pop(0)
        elif a[0] == 'reg':
            if t[0] != 'w' or typ(t[1]) is None:
                return None
            k = next((i for w, i in info.regclasses[a[1]]['rules'] if w == typ(t[1])), None)
            if k is None:
                return None
            ops.append(('r', k))
            toks.pop(0)
        elif a[0] == 'imm':
            if t[0] == 'n':
                ops.append(('i', t[1]))
                toks.pop(0)
            elif t == ('g', '-') and len(toks) > 1 and toks[1][0] == 'n':
                ops.append(('i', -toks[1][1]))
                del toks[:2]
            else:
                return None
        elif a[0] == 'lab':
            if t[0] != 'w':
                return None
            ops.append(('l', typ(t[1]) if (typ(t[1]) is not None and info.kwlabel_lower) else t[1]))
            toks.pop(0)
        else:
            return None
    return ops if not toks else None


def lex_view(info, text):
    """real lexer output in the model's token vocabulary; None when the lexer raises"""
    from ppci.arch.encoding import Syntax
    try:
        toks = info.lex(text)
    except Exception:   # noqa: BLE001
        return None
    out = []
    for typ, val in toks:
        if typ == 'NUMBER':
            out.append(('n', val))
        elif typ in Syntax.GLYPHS:
            out.append(('g', val))
        elif isinstance(val, str) and (typ == 'ID' or typ == val.lower()):
            out.append(('w', val))
        else:
            out.append(('?', '%s:%r' % (typ, val)))
    return out


def unbuild(info, cls, ins):
    """(variant path, model operand values) of a real instance, following its syntax; None if not expressible"""
    from ppci.arch.encoding import Operand
    path, mops = [], []
    for e in cls.syntax.syntax:
        if not isinstance(e, Operand):
            continue
        v = getattr(ins, e._name)
        c = e._cls
        if isinstance(c, tuple) or (isinstance(c, type) and not issubclass(c, info.Register) and c not in (int, str)
                                    and getattr(c, 'syntax', None) is not None):
            sub = unbuild(info, type(v), v)
            if sub is None:
                return None
            path += [type(v).__name__] + sub[0]
            mops += sub[1]
        elif isinstance(c, type) and issubclass(c, info.Register):
            k = info.rc_index.get(c)
            if k is None:
                return None
            objs = info.regclasses[k]['objs']
            i = next((n for n, r in enumerate(objs) if r is v), None)
            if i is None:
                i = next((n for n, r in enumerate(objs) if r.name == getattr(v, 'name', None)), None)
            if i is None:
                return None
            mops.append(('r', i))
        elif c is int:
            mops.append(('i', v))
        elif c is str:
            mops.append(('l', v))
        else:
            return None
    return path, mops
