"""C03 helper: pass runner, bookkeeping oracle, Python port of Spec/IRWf (search only).

Nothing here is trusted for the verdict of the verified validator: the Coq function
IRWf.wf_modul_b (proved sound w.r.t. IRWf.wf_function) is evaluated in coqc on the imported pass
outputs; `pywf` below is a line-by-line Python port used for fast search and minimisation and is
cross-checked against the Coq checker on every run (c03.py, stage wf_port).

  PASSES                   name -> factory of the real pass object (ppci.opt / api.optimize pipeline)
  operands(i)              the values an instruction really uses (attribute by attribute)
  bookkeeping(module)      list of discrepancies between the STORED uses / used_by / references /
                           phi inputs / instruction.block and the sets re-derived from the operands
  pywf(canon)              None | first violated clause of IRWf on irimport.module_to_py(m, True)
  run_pass(m, names)       apply the passes; returns None | (pass name, exception)
"""
from ppci import ir


def _passes():
    from ppci.opt.mem2reg import Mem2RegPromotor
    from ppci.opt.transform import RemoveAddZeroPass, DeleteUnusedInstructionsPass
    from ppci.opt.constantfolding import ConstantFolder
    from ppci.opt.cse import CommonSubexpressionEliminationPass
    from ppci.opt.tailcall import TailCallOptimization
    from ppci.opt.load_after_store import LoadAfterStorePass
    from ppci.opt.clean import CleanPass
    from ppci.opt.cjmp import CJumpPass
    return {
        'Mem2Reg': Mem2RegPromotor, 'RemoveAddZero': RemoveAddZeroPass, 'ConstantFolder': ConstantFolder,
        'CSE': CommonSubexpressionEliminationPass, 'TailCall': TailCallOptimization,
        'LoadAfterStore': LoadAfterStorePass, 'DeleteUnused': DeleteUnusedInstructionsPass,
        'CleanPass': CleanPass, 'CJumpPass': CJumpPass}


def _discover(passes):
    """every concrete ModulePass subclass defined in the ppci.opt package must be in PASSES: classes
    not in the hand-written table are added under their class name (so no pass is silently left out)"""
    import importlib
    import inspect
    import pkgutil
    import ppci.opt
    from ppci.opt.transform import ModulePass
    known = set(passes.values())
    added = []
    for mi in pkgutil.iter_modules(ppci.opt.__path__):
        try:
            mod = importlib.import_module('ppci.opt.' + mi.name)
        except Exception:      # noqa: BLE001
            continue
        for _, cls in inspect.getmembers(mod, inspect.isclass):
            if issubclass(cls, ModulePass) and not inspect.isabstract(cls) and cls not in known \
                    and cls.__module__.startswith('ppci.opt'):
                try:
                    cls()
                except Exception:      # noqa: BLE001  (needs constructor arguments: cannot be run blindly)
                    continue
                passes[cls.__name__] = cls
                known.add(cls)
                added.append(cls.__name__)
    return added


PASSES = _passes()
DISCOVERED = _discover(PASSES)
PIPELINE = ['Mem2Reg', 'RemoveAddZero', 'ConstantFolder', 'CSE', 'TailCall', 'LoadAfterStore',
            'DeleteUnused', 'CleanPass']          # api.optimize order (x3, then CJumpPass at -O3)


def pipeline_of_api():
    """the pass list of ppci.api.optimize read from its source (tie I for the pipeline)"""
    import ast
    import inspect
    from ppci import api
    src = inspect.getsource(api.optimize)
    tree = ast.parse(src)
    names = []
    for node in ast.walk(tree):
        if isinstance(node, ast.Assign) and getattr(node.targets[0], 'id', None) == 'opt_passes':
            lst = node.value.left if isinstance(node.value, ast.BinOp) else node.value
            names = [e.func.id for e in lst.elts]
    return names


def run_pass(m, names):
    for n in names:
        try:
            PASSES[n]().run(m)
        except Exception as ex:      # noqa: BLE001  (any exception of a pass is a crash)
            return n, ex
    return None


# ------------------------------------------------------------------ operands, re-derived
def operands(i):
    T = type(i)
    if T in (ir.Binop, ir.CJump):
        return [i.a, i.b]
    if T is ir.Unop:
        return [i.a]
    if T is ir.Cast:
        return [i.src]
    if T is ir.AddressOf:
        return [i.src]
    if T is ir.Load:
        return [i.address]
    if T is ir.Store:
        return [i.value, i.address]
    if T is ir.CopyBlob:
        return [i.dst, i.src]
    if T is ir.Phi:
        return list(i.inputs.values())
    if T in (ir.FunctionCall, ir.ProcedureCall):
        return [i.callee] + list(i.arguments)
    if T is ir.Return:
        return [i.result]
    if T is ir.InlineAsm:
        return list(i.input_values) + list(i.output_values)
    return []


def targets(i):
    if type(i) is ir.Jump:
        return [i.target]
    if type(i) is ir.CJump:
        return [i.lab_yes, i.lab_no]
    return []


def S(x):
    """str() of an ir object that never raises (deleted jumps cannot be printed)"""
    try:
        return str(x)
    except Exception:      # noqa: BLE001
        return '<%s deleted>' % type(x).__name__


def ids(xs):
    return sorted(set(id(x) for x in xs))


def bookkeeping(m):
    """independent re-derivation of the def-use and predecessor sets; returns a list of
    (class, text) discrepancies (empty = stored bookkeeping equals the derived sets)"""
    out = []
    attached = {}          # id(instr) -> (function, block)
    blocks_of = {}
    for f in m.functions:
        for b in f.blocks:
            blocks_of[id(b)] = f
            if b.function is not f:
                out.append(('block.function', '%s.%s' % (f.name, b.name)))
            for i in b.instructions:
                if id(i) in attached:
                    out.append(('listed-twice', S(i)))
                attached[id(i)] = (f, b)
                if i.block is not b:
                    out.append(('instr.block', '%s in %s' % (S(i), b.name)))
    values = []
    for f in m.functions:
        values += list(f.arguments)
        for b in f.blocks:
            for i in b.instructions:
                ops = operands(i)
                if ids(ops) != ids(i.uses):
                    out.append(('uses', '%s.%s: %s stored uses=%s operands=%s' % (
                        f.name, b.name, S(i), sorted(u.name for u in i.uses), sorted(o.name for o in ops))))
                if len(list(i.uses)) != len(ids(i.uses)):
                    out.append(('uses-dup', S(i)))
                for o in ops:
                    if id(i) not in [id(u) for u in o.used_by]:
                        out.append(('used_by-missing', '%s.%s: %s not in used_by of %s' % (
                            f.name, b.name, S(i), o.name)))
                    if isinstance(o, ir.LocalValue) and not isinstance(o, ir.Parameter) \
                            and id(o) not in attached:
                        out.append(('dangling-operand', '%s.%s: %s uses detached %s' % (
                            f.name, b.name, S(i), o.name)))
                if isinstance(i, ir.Value):
                    values.append(i)
                if type(i) is ir.Phi:
                    for pb in i.inputs:
                        if blocks_of.get(id(pb)) is not f:
                            out.append(('phi-block-outside', '%s.%s: %s has input from removed block %s' % (
                                f.name, b.name, S(i), pb.name)))
    values += list(m.externals) + list(m.variables) + list(m.functions)
    for v in values:
        for u in v.used_by:
            if id(u) not in attached:
                out.append(('used_by-stale', '%s is used_by detached %s' % (v.name, S(u))))
            elif id(v) not in [id(o) for o in operands(u)]:
                out.append(('used_by-extra', '%s is used_by %s which does not use it' % (v.name, S(u))))
        if len(list(v.used_by)) != len(ids(v.used_by)):
            out.append(('used_by-dup', v.name))
    for f in m.functions:
        derived = {id(b): [] for b in f.blocks}
        for b in f.blocks:
            for i in b.instructions:
                for t in targets(i):
                    if id(t) not in derived:
                        out.append(('target-outside', '%s.%s: %s' % (f.name, b.name, S(i))))
                    else:
                        derived[id(t)].append(i)
        for b in f.blocks:
            if ids(derived[id(b)]) != ids(b.references):
                out.append(('references', '%s.%s: stored=%s derived=%s' % (
                    f.name, b.name, sorted(S(r) for r in b.references),
                    sorted(S(r) for r in derived[id(b)]))))
    return out


# ------------------------------------------------------------------ Python port of Spec/IRWf.v
TERMS = ('jump', 'cjump', 'return', 'exit')


def i_def(i):
    k = i[0]
    if k in ('const', 'binop', 'unop', 'cast', 'load', 'phi', 'undefined', 'callf'):
        return (i[1], i[2], i[3])
    if k == 'alloc':
        return (i[1], i[2], ('blob', i[3], i[4]))
    if k == 'addressof':
        return (i[1], i[2], 'ptr')
    if k == 'literal':
        return (i[1], i[2], ('blob', len(i[3]), 1))
    return None


def i_uses(i):
    k = i[0]
    if k == 'binop':
        return [i[5], i[6]]
    if k == 'unop':
        return [i[5]]
    if k in ('cast', 'load'):
        return [i[4]]
    if k == 'addressof':
        return [i[3]]
    if k == 'store':
        return [i[1], i[2]]
    if k == 'copyblob':
        return [i[1], i[2]]
    if k == 'phi':
        return [r for _, r in i[4]]
    if k == 'callf':
        return [i[4]] + list(i[5])
    if k == 'callp':
        return [i[1]] + list(i[2])
    if k == 'cjump':
        return [i[1], i[3]]
    if k == 'return':
        return [i[1]]
    return []


def i_targets(i):
    if i[0] == 'jump':
        return [i[1]]
    if i[0] == 'cjump':
        return [i[4], i[5]]
    return []


def _reach(g, e, avoid=None):
    seen = set()
    if e == avoid:
        return seen
    seen.add(e)
    work = [e]
    while work:
        u = work.pop()
        for v in g[u]:
            if v < len(g) and v != avoid and v not in seen:
                seen.add(v)
                work.append(v)
    return seen


def pywf_func(mod, f):
    """None or the name of the first violated clause (clause names = Spec/IRWf.v)"""
    name, _, ret, params, blocks = f
    exts, gvars, funcs = mod[1], mod[2], mod[3]
    gnames = [e[1] for e in exts] + [g[0] for g in gvars] + [x[0] for x in funcs]
    if not blocks:
        return 'wf_entry'
    bidx = {}
    for k, b in enumerate(blocks):
        bidx.setdefault(b[0], k)
    if len(bidx) != len(blocks):
        return 'wf_block_ids'
    for b in blocks:
        ins = b[2]
        if not ins or ins[-1][0] not in TERMS or any(i[0] in TERMS for i in ins[:-1]):
            return 'wf_shape'
    n = len(blocks)
    g = [[bidx.get(t, n) for i in b[2] for t in i_targets(i)] for b in blocks]
    for row in g:
        if any(v >= n for v in row):
            return 'wf_targets'
    if len(_reach(g, 0)) != n:
        return 'wf_reachable'
    defs = {}
    names = [b[1] for b in blocks]
    nd = 0
    for bi, b in enumerate(blocks):
        for p, i in enumerate(b[2]):
            d = i_def(i)
            if d:
                nd += 1
                defs.setdefault(d[0], (bi, p, d[2]))
                names.append(d[1])
    if len(defs) != nd:
        return 'wf_def_ids'
    if len(set(names)) != len(names):
        return 'wf_names'
    domcache = {}

    def dom(d, w):
        if (d, w) not in domcache:
            domcache[(d, w)] = w not in _reach(g, 0, avoid=d)
        return domcache[(d, w)]

    def rty(r):
        if r[0] == 'loc':
            return defs[r[1]][2] if r[1] in defs else None
        if r[0] == 'param':
            return params[r[1]][1] if r[1] < len(params) else None
        if r[0] == 'glob':
            return 'ptr'
        return None

    preds = [[] for _ in blocks]
    for u, row in enumerate(g):
        for v in row:
            if u not in preds[v]:
                preds[v].append(u)
    sigs = {}
    for e in exts:
        if e[0] == 'efunc':
            sigs[e[1]] = (list(e[2]), e[3])
        elif e[0] == 'eproc':
            sigs[e[1]] = (list(e[2]), None)
    for x in funcs:
        sigs.setdefault(x[0], ([t for _, t in x[3]], x[2]))
    for bi, b in enumerate(blocks):
        for p, i in enumerate(b[2]):
            for r in i_uses(i):
                if r[0] == 'loc':
                    if r[1] not in defs:
                        return 'wf_defined'
                elif r[0] == 'param':
                    if r[1] >= len(params):
                        return 'wf_defined'
                elif r[0] == 'glob':
                    if r[1] not in gnames:
                        return 'wf_defined'
                else:
                    return 'wf_defined'
            if i[0] == 'phi':
                ks = [bidx.get(pb, n) for pb, _ in i[4]]
                if len(set(ks)) != len(ks) or sorted(ks) != sorted(preds[bi]):
                    return 'wf_phi_preds'
                for pb, r in i[4]:
                    if r[0] == 'loc':
                        bj = defs[r[1]][0]
                        if not dom(bj, bidx[pb]):
                            return 'wf_dom_phi'
            else:
                for r in i_uses(i):
                    if r[0] == 'loc':
                        bj, q, _ = defs[r[1]]
                        if not ((bj == bi and q < p) or (bj != bi and dom(bj, bi))):
                            return 'wf_dom'
            k = i[0]
            bad = False
            if k == 'binop':
                bad = rty(i[5]) != i[3] or rty(i[6]) != i[3]
            elif k == 'unop':
                bad = rty(i[5]) != i[3]
            elif k == 'load':
                bad = rty(i[4]) != 'ptr'
            elif k == 'store':
                bad = rty(i[2]) != 'ptr'
            elif k == 'copyblob':
                bad = rty(i[1]) != 'ptr' or rty(i[2]) != 'ptr'
            elif k == 'phi':
                bad = any(rty(r) != i[3] for _, r in i[4])
            elif k == 'cjump':
                bad = rty(i[1]) != rty(i[3])
            elif k == 'return':
                bad = ret is None or rty(i[1]) != ret
            elif k == 'exit':
                bad = ret is not None
            elif k in ('callf', 'callp'):
                callee, args = (i[4], i[5]) if k == 'callf' else (i[1], i[2])
                if rty(callee) != 'ptr':
                    bad = True
                elif callee[0] == 'glob' and callee[1] in sigs:
                    at, rt = sigs[callee[1]]
                    if k == 'callf':
                        bad = rt is None or rt != i[3] or [rty(a) for a in args] != at
                    else:
                        bad = rt is not None or [rty(a) for a in args] != at
            if bad:
                return 'wf_types'
    return None


def pywf(mod):
    for f in mod[3]:
        r = pywf_func(mod, f)
        if r:
            return '%s:%s' % (f[0], r)
    return None


# ------------------------------------------------------------------ IRStore scenarios (tie H of Model/IRStore.v)
VALS = [0, 1, 2, 3]          # pure values (ir.Parameter objects), instruction ids start at 10
BLKS = [0, 1, 2, 3]          # block 0 holds the instructions, 1..3 are jump targets / phi input blocks


def gen_scenario(rng):
    """(specs, op): specs = [(id, spec)], spec = ('plain', [(slot, v)]) | ('call', callee, [v]) |
    ('phi', [(b, v)]) | ('jump', [(slot, v)], [(name, b)]); biased towards repeated operands"""
    def val(pool):
        return rng.choice(pool)
    specs = []
    pool = list(VALS[:3])
    n = rng.randint(1, 3)
    for k in range(n):
        i = 10 + k
        few = pool[:2] if rng.random() < 0.6 else pool
        kind = rng.choice(['plain', 'plain', 'call', 'phi'])
        if kind == 'plain':
            sp = ('plain', [('a', val(few)), ('b', val(few))] if rng.random() < 0.8 else [('a', val(few))])
        elif kind == 'call':
            sp = ('call', val(few), [val(few) for _ in range(rng.randint(0, 3))])
        else:
            bs = rng.sample(BLKS[1:], rng.randint(1, 3))
            sp = ('phi', [(b, val(few)) for b in bs])
        specs.append((i, sp))
        pool.append(i)
    j = 10 + n
    if rng.random() < 0.7:
        if rng.random() < 0.7:
            t1 = rng.choice(BLKS[1:])
            t2 = t1 if rng.random() < 0.4 else rng.choice(BLKS[1:])
            few = pool[:2] if rng.random() < 0.6 else pool
            specs.append((j, ('jump', [('a', val(few)), ('b', val(few))], [('lab_yes', t1), ('lab_no', t2)])))
        else:
            specs.append((j, ('jump', [], [('target', rng.choice(BLKS[1:]))])))
    ids = [i for i, _ in specs]
    anyv = pool + [VALS[3]]
    kinds = {i: sp[0] for i, sp in specs}
    phis = [i for i in ids if kinds[i] == 'phi']
    jumps = [i for i in ids if kinds[i] == 'jump']
    choice = rng.random()
    if choice < 0.3:
        op = ('replace_use', rng.choice(ids), val(anyv), val(anyv))
    elif choice < 0.5:
        op = ('replace_by', val(anyv), val(anyv))
    elif choice < 0.58:
        cand = [i for i in ids if kinds[i] in ('plain', 'jump') and (specs[ids.index(i)][1][1])]
        if cand:
            c = rng.choice(cand)
            op = ('set_var', c, rng.choice([n for n, _ in specs[ids.index(c)][1][1]]), val(anyv))
        else:
            op = ('replace_by', val(anyv), val(anyv))
    elif choice < 0.68 and phis:
        op = ('set_incoming', rng.choice(phis), rng.choice(BLKS[1:]), val(anyv))
    elif choice < 0.76 and phis:
        op = ('del_incoming', rng.choice(phis), rng.choice(BLKS[1:]))
    elif choice < 0.84 and phis:
        op = ('replace_incoming', 0, rng.choice(BLKS[1:]),
              [rng.choice(BLKS[1:]) for _ in range(rng.randint(0, 2))])
    elif choice < 0.9 and jumps:
        j = jumps[0]
        name = rng.choice([n for n, _ in specs[ids.index(j)][1][2]])
        op = ('set_target', j, name, rng.choice(BLKS[1:]))
    elif choice < 0.94 and jumps:
        op = ('change_target', jumps[0], rng.choice(BLKS[1:]), rng.choice(BLKS[1:]))
    elif choice < 0.97:
        op = ('detach_delete', rng.choice(ids))
    else:
        op = ('remove_from_block', rng.choice(ids))
    return specs, op


def _cn(xs):
    return '[%s]' % '; '.join(str(x) for x in xs)


def _cpairs(ps, strkey):
    return '[%s]' % '; '.join('(%s, %d)' % ('"%s"%%string' % a if strkey else str(a), b) for a, b in ps)


def scenario_to_coq(specs, op):
    ss = []
    for i, sp in specs:
        if sp[0] == 'plain':
            t = 'SPlain %s' % _cpairs(sp[1], True)
        elif sp[0] == 'call':
            t = 'SCall %d %s' % (sp[1], _cn(sp[2]))
        elif sp[0] == 'phi':
            t = 'SPhi %s' % _cpairs(sp[1], False)
        else:
            t = 'SJump %s %s' % (_cpairs(sp[1], True), _cpairs(sp[2], True))
        ss.append('(%d, %s)' % (i, t))
    k = op[0]
    if k == 'replace_use':
        o = 'OReplaceUse %d %d %d' % op[1:]
    elif k == 'replace_by':
        o = 'OReplaceBy %d %d' % op[1:]
    elif k == 'set_var':
        o = 'OSetVar %d "%s"%%string %d' % op[1:]
    elif k == 'set_incoming':
        o = 'OSetIncoming %d %d %d' % op[1:]
    elif k == 'del_incoming':
        o = 'ODelIncoming %d %d' % op[1:]
    elif k == 'replace_incoming':
        o = 'OReplaceIncoming %d %d %s' % (op[1], op[2], _cn(op[3]))
    elif k == 'set_target':
        o = 'OSetTarget %d "%s"%%string %d' % op[1:]
    elif k == 'change_target':
        o = 'OChangeTarget %d %d %d' % op[1:]
    elif k == 'detach_delete':
        o = 'ODetachDelete %d' % op[1]
    else:
        o = 'ORemoveFromBlock %d' % op[1]
    return '[%s]%%nat' % '; '.join(ss), '(%s)%%nat' % o


def run_real_scenario(specs, op):
    """execute the scenario on real ppci.ir objects; returns the observation tuple or 'internal'"""
    m = ir.Module('m')
    f = ir.Procedure('f', ir.Binding.GLOBAL)
    m.add_function(f)
    B = {k: ir.Block('b%d' % k) for k in BLKS}
    for k in BLKS:
        f.add_block(B[k])
    f.entry = B[0]
    obj = {v: ir.Parameter('v%d' % v, ir.ptr) for v in VALS}
    for v in VALS:
        f.add_parameter(obj[v])
    key = {id(o): v for v, o in obj.items()}
    bkey = {id(b): k for k, b in B.items()}
    order = []
    try:
        for i, sp in specs:
            nm = 'i%d' % i
            if sp[0] == 'plain':
                vs = [obj[v] for _, v in sp[1]]
                o = ir.Binop(vs[0], '+', vs[1], nm, ir.ptr) if len(vs) == 2 else ir.Unop('-', vs[0], nm, ir.ptr)
            elif sp[0] == 'call':
                o = ir.FunctionCall(obj[sp[1]], [obj[a] for a in sp[2]], nm, ir.ptr)
            elif sp[0] == 'phi':
                o = ir.Phi(nm, ir.ptr)
                for b, v in sp[1]:
                    o.set_incoming(B[b], obj[v])
            else:
                if sp[1]:
                    o = ir.CJump(obj[sp[1][0][1]], '==', obj[sp[1][1][1]], B[sp[2][0][1]], B[sp[2][1][1]])
                else:
                    o = ir.Jump(B[sp[2][0][1]])
            B[0].add_instruction(o)
            obj[i] = o
            key[id(o)] = i
            order.append(i)
        k = op[0]
        if k == 'replace_use':
            obj[op[1]].replace_use(obj[op[2]], obj[op[3]])
        elif k == 'replace_by':
            obj[op[1]].replace_by(obj[op[2]])
        elif k == 'set_var':
            setattr(obj[op[1]], op[2], obj[op[3]])
        elif k == 'set_incoming':
            obj[op[1]].set_incoming(B[op[2]], obj[op[3]])
        elif k == 'del_incoming':
            obj[op[1]].del_incoming(B[op[2]])
        elif k == 'replace_incoming':
            B[op[1]].replace_incoming(B[op[2]], [B[n] for n in op[3]])
        elif k == 'set_target':
            obj[op[1]].set_target_block(op[2], B[op[3]])
        elif k == 'change_target':
            obj[op[1]].change_target(B[op[2]], B[op[3]])
        elif k == 'detach_delete':
            obj[op[1]].block.remove_instruction(obj[op[1]])
            obj[op[1]].delete()
        else:
            obj[op[1]].remove_from_block()
    except Exception:      # noqa: BLE001
        return 'internal'
    insts = []
    for i in order:
        o = obj[i]
        insts.append(([key[id(v)] for v in o._var_map.values()],
                      [key[id(v)] for v in getattr(o, 'arguments', [])],
                      [(bkey[id(b)], key[id(v)]) for b, v in getattr(o, 'inputs', {}).items()],
                      [bkey[id(b)] for b in getattr(o, '_block_map', {}).values()],
                      [key[id(v)] for v in o.uses],
                      o.block is not None))
    allv = VALS + order
    ubs = [[key[id(u)] for u in obj[v].used_by] if hasattr(obj[v], 'used_by') else [] for v in allv]
    refs = [[key[id(r)] for r in B[k].references] for k in BLKS]
    blks = [[key[id(x)] for x in B[k].instructions] for k in BLKS]
    return (insts, ubs, refs, blks), m


def probe_fixes():
    """which of the five ir.py repairs are present in the tree (by behaviour)"""
    def ok(specs, op):
        r = run_real_scenario(specs, op)
        return r != 'internal' and not bookkeeping(r[1])
    return {
        'fx_replace_use': ok([(10, ('plain', [('a', 0), ('b', 0)]))], ('replace_use', 10, 0, 1)),
        'fx_call': ok([(10, ('call', 0, [1, 1]))], ('replace_use', 10, 1, 2)),
        'fx_phi_replace': ok([(10, ('phi', [(1, 0), (2, 0)]))], ('replace_use', 10, 0, 1)),
        'fx_phi_incoming': ok([(10, ('phi', [(1, 0), (2, 0)]))], ('del_incoming', 10, 1)),
        'fx_jump_delete': ok([(10, ('jump', [('a', 0), ('b', 1)], [('lab_yes', 1), ('lab_no', 1)]))],
                             ('detach_delete', 10)),
        'fx_setter': ok([(10, ('plain', [('a', 0), ('b', 0)]))], ('set_var', 10, 'a', 1)),
        'fx_rfb': ok([(10, ('jump', [], [('target', 1)]))], ('remove_from_block', 10)),
    }


# ------------------------------------------------------------------ verifier model inputs (Model/Verify.v)
def _refmaps(m, f):
    vids, params, bids = {}, {}, {}
    for k, p in enumerate(f.arguments):
        params[id(p)] = k
    for k, b in enumerate(f.blocks):
        bids[id(b)] = k + 1
        for i in b.instructions:
            if isinstance(i, ir.Value):
                vids[id(i)] = len(vids) + 1
    gl = {id(g): g.name for g in list(m.externals) + list(m.variables) + list(m.functions)}

    def ref(v):
        if id(v) in vids:
            return ('loc', vids[id(v)])
        if id(v) in params:
            return ('param', params[id(v)])
        if id(v) in gl:
            return ('glob', gl[id(v)])
        return ('unres', v.name)
    return ref, bids


def vstates(m):
    """stored uses (as refs, OrderedSet order) and stored predecessors (block ids, 0 = none)"""
    out = []
    for f in m.functions:
        ref, bids = _refmaps(m, f)
        uses = [[[ref(u) for u in i.uses] for i in b.instructions] for b in f.blocks]
        preds = [[bids.get(id(getattr(r, 'block', None)), 0) for r in b.references] for b in f.blocks]
        out.append((uses, preds))
    return out


def _cref(r):
    if r[0] == 'loc':
        return 'Loc %d' % r[1]
    if r[0] == 'param':
        return 'Param %d' % r[1]
    return '%s "%s"' % ('Glob' if r[0] == 'glob' else 'Unres', r[1])


def vstates_to_coq(vs):
    def one(v):
        uses, preds = v
        u = '[%s]' % '; '.join('[%s]' % '; '.join('[%s]' % '; '.join(_cref(r) for r in ins) for ins in blk)
                               for blk in uses)
        # 0 is not a positive: a reference without block is rendered as an id beyond all blocks
        n = len(preds)
        p = '[%s]' % '; '.join('[%s]' % '; '.join('%d%%positive' % (b if b else n + 1) for b in blk)
                               for blk in preds)
        return 'mk_vstate %s %s' % (u, p)
    return '[%s]' % '; '.join(one(v) for v in vs)


def real_verify(m):
    from ppci.irutils.verify import verify_module
    from ppci.common import CompilerError
    try:
        verify_module(m)
        return 'ok'
    except (ValueError, TypeError, CompilerError):
        return 'diag'
    except Exception:       # noqa: BLE001
        return 'internal'


BREAKS = ('swap', 'foreign_operand', 'drop_phi_input', 'extra_phi_input', 'type_break', 'no_terminator',
          'dup_name', 'retarget', 'stale_uses', 'unop_type')


def mutate_break(rng, m, kind):
    try:
        return _mutate_break(rng, m, kind)
    except Exception:      # noqa: BLE001  (the edit itself hit a defect of the mutators)
        return False


def _mutate_break(rng, m, kind):
    """apply one deliberately breaking edit to a well-formed module (returns False if not applicable).
    Edits go through the public mutators (bookkeeping stays consistent) except 'stale_uses'."""
    fs = [f for f in m.functions if f.blocks]
    if not fs:
        return False
    f = rng.choice(fs)
    blocks = list(f.blocks)
    instrs = [(b, i) for b in blocks for i in b.instructions]
    if kind == 'swap':
        cand = [(b, k) for b in blocks for k in range(len(b.instructions) - 2)
                if not b.instructions[k].is_phi and not b.instructions[k + 1].is_phi]
        if not cand:
            return False
        b, k = rng.choice(cand)
        b.instructions[k], b.instructions[k + 1] = b.instructions[k + 1], b.instructions[k]
        return True
    if kind == 'foreign_operand':
        cand = [(b, i) for b, i in instrs if type(i) in (ir.Binop, ir.Unop, ir.Cast)]
        vals = [i for _, i in instrs if isinstance(i, ir.Value)]
        if not cand:
            return False
        b, i = rng.choice(cand)
        old = operands(i)[0]
        same = [v for v in vals if v.ty is old.ty and v is not old and v is not i]
        if not same:
            return False
        i.replace_use(old, rng.choice(same))
        return True
    phis = [(b, i) for b, i in instrs if type(i) is ir.Phi and i.inputs]
    if kind == 'drop_phi_input':
        if not phis:
            return False
        b, p = rng.choice(phis)
        p.del_incoming(rng.choice(list(p.inputs)))
        return True
    if kind == 'extra_phi_input':
        if not phis:
            return False
        b, p = rng.choice(phis)
        others = [x for x in blocks if x not in p.inputs and x not in b.predecessors]
        if not others:
            return False
        p.set_incoming(rng.choice(others), list(p.inputs.values())[0])
        return True
    if kind in ('type_break', 'unop_type'):
        want = (ir.Unop,) if kind == 'unop_type' else (ir.Binop, ir.Load, ir.Store, ir.CJump)
        cand = [(b, i) for b, i in instrs if type(i) in want]
        vals = [i for _, i in instrs if isinstance(i, ir.Value)] + list(f.arguments)
        if not cand:
            return False
        b, i = rng.choice(cand)
        old = operands(i)[-1]
        other = [v for v in vals if v.ty is not old.ty and v is not i]
        if not other:
            return False
        i.replace_use(old, rng.choice(other))
        return True
    if kind == 'no_terminator':
        b = rng.choice(blocks)
        if rng.random() < 0.5:
            t = b.instructions[-1]
            b.remove_instruction(t)
            t.delete()
        else:
            c = ir.Const(1, 'late', ir.i32)
            c.block = b
            b.instructions.append(c)
        return True
    if kind == 'dup_name':
        vals = [i for _, i in instrs if isinstance(i, ir.Value)]
        if len(vals) < 2:
            return False
        a, c = rng.sample(vals, 2)
        a.name = c.name if rng.random() < 0.7 else rng.choice(blocks).name
        return True
    if kind == 'retarget':
        jumps = [i for _, i in instrs if type(i) in (ir.Jump, ir.CJump)]
        if not jumps:
            return False
        j = rng.choice(jumps)
        old = rng.choice(j.targets)
        j.change_target(old, rng.choice(blocks))
        return True
    if kind == 'stale_uses':
        cand = [(b, i) for b, i in instrs if type(i) in (ir.Binop, ir.Unop, ir.Cast)]
        vals = [i for _, i in instrs if isinstance(i, ir.Value)]
        if not cand:
            return False
        b, i = rng.choice(cand)
        name = rng.choice(list(i._var_map))
        same = [v for v in vals if v.ty is i._var_map[name].ty and v is not i]
        if not same:
            return False
        i._var_map[name] = rng.choice(same)       # operand changed behind the bookkeeping's back
        return True
    return False


# ------------------------------------------------------------------ verifier gap witnesses (real objects)
def gap_witnesses():
    """name -> ill-formed module that the verifier as found accepts (Proofs/C03_verify.v w1..w4)"""
    def fn(params=()):
        m = ir.Module('w')
        f = ir.Function('f', ir.Binding.GLOBAL, ir.i32)
        m.add_function(f)
        ps = []
        for k, t in enumerate(params):
            p = ir.Parameter('a%d' % k, t)
            f.add_parameter(p)
            ps.append(p)
        e = f.add_block(ir.Block('entry'))
        f.entry = e
        return m, f, e, ps
    out = {}
    m, f, e, _ = fn()
    c = ir.Const(1, 'c', ir.i32)
    e.add_instruction(c)
    p = ir.Phi('p', ir.i32)
    e.add_instruction(p)
    p.set_incoming(e, c)
    e.add_instruction(ir.Return(p))
    out['vx_phi_exact'] = m
    m, f, e, _ = fn()
    c = ir.Const(1, 'c', ir.i8)
    e.add_instruction(c)
    c2 = ir.Const(1, 'c2', ir.i32)
    e.add_instruction(c2)
    u = ir.Unop('-', c2, 'u', ir.i32)     # the constructor checks the type, replace_use does not
    e.add_instruction(u)
    u.replace_use(c2, c)
    e.add_instruction(ir.Return(u))
    out['vx_unop'] = m
    m, f, e, _ = fn()
    c0 = ir.Const(1, 'c0', ir.i32)
    e.add_instruction(c0)
    x = ir.Binop(c0, '+', c0, 'x', ir.i32)
    e.add_instruction(x)
    c = ir.Const(2, 'c', ir.i32)
    e.add_instruction(c)
    e.add_instruction(ir.Return(x))
    x._var_map['a'] = c          # operands changed behind the bookkeeping: use before definition
    x._var_map['b'] = c
    out['vx_uses'] = m
    m, f, be, (a,) = fn([ir.i32])
    ba, bb, bj = [f.add_block(ir.Block(n)) for n in ('a', 'b', 'j')]
    c = ir.Const(1, 'c', ir.i32)
    be.add_instruction(c)
    be.add_instruction(ir.CJump(a, '==', c, ba, bb))
    x = ir.Const(5, 'x', ir.i32)
    ba.add_instruction(x)
    ba.add_instruction(ir.Jump(bj))
    bb.add_instruction(ir.Jump(bj))
    phi = ir.Phi('p', ir.i32)
    bj.add_instruction(phi)
    phi.set_incoming(ba, x)
    phi.set_incoming(bb, x)
    bj.add_instruction(ir.Return(phi))
    out['vx_phi_all'] = m
    return out


VXKEYS = ['vx_phi_exact', 'vx_unop', 'vx_uses', 'vx_phi_all']


def probe_vfixes():
    """which repairs of the verifier are present in the tree (a witness that is rejected = repaired)"""
    return {k: real_verify(m) != 'ok' for k, m in gap_witnesses().items()}
