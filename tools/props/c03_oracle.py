"""C03 helper: pass runner, bookkeeping oracle, Python port of Spec/IRWf (search only).

Nothing here is trusted for the verdict of the verified validator: the Coq function
IRWf.wf_modul_b (proved sound w.r.t. IRWf.wf_function) is evaluated in coqc on the imported pass
outputs; `pywf` below is a line-by-line Python port used for fast search and minimisation and is
cross-checked against the Coq checker on every run (c03.py, stage wf_port).

  PASSES                   name -> factory of the real pass object (ppci.opt / api.optimize pipeline)
  operands(i)              the values an instruction really uses (attribute by attribute)
  bookkeeping(module)      list of discrepancies between the STORED uses / used_by / references /
                           phi inputs / instruction.block and the sets re-derived from the operands
  pywf(canon)              None | first violated clause of IRWf on irimport.module_to_py(m, True)
  run_pass(m, names)       apply the passes; returns None | (pass name, exception)
"""
from ppci import ir


def _passes():
    from ppci.opt.mem2reg import Mem2RegPromotor
    from ppci.opt.transform import RemoveAddZeroPass, DeleteUnusedInstructionsPass
    from ppci.opt.constantfolding import ConstantFolder
    from ppci.opt.cse import CommonSubexpressionEliminationPass
    from ppci.opt.tailcall import TailCallOptimization
    from ppci.opt.load_after_store import LoadAfterStorePass
    from ppci.opt.clean import CleanPass
    from ppci.opt.cjmp import CJumpPass
    return {
        'Mem2Reg': Mem2RegPromotor, 'RemoveAddZero': RemoveAddZeroPass, 'ConstantFolder': ConstantFolder,
        'CSE': CommonSubexpressionEliminationPass, 'TailCall': TailCallOptimization,
        'LoadAfterStore': LoadAfterStorePass, 'DeleteUnused': DeleteUnusedInstructionsPass,
        'CleanPass': CleanPass, 'CJumpPass': CJumpPass}


PASSES = _passes()
PIPELINE = ['Mem2Reg', 'RemoveAddZero', 'ConstantFolder', 'CSE', 'TailCall', 'LoadAfterStore',
            'DeleteUnused', 'CleanPass']          # api.optimize order (x3, then CJumpPass at -O3)


def pipeline_of_api():
    """the pass list of ppci.api.optimize read from its source (tie I for the pipeline)"""
    import ast
    import inspect
    from ppci import api
    src = inspect.getsource(api.optimize)
    tree = ast.parse(src)
    names = []
    for node in ast.walk(tree):
        if isinstance(node, ast.Assign) and getattr(node.targets[0], 'id', None) == 'opt_passes':
            lst = node.value.left if isinstance(node.value, ast.BinOp) else node.value
            names = [e.func.id for e in lst.elts]
    return names


def run_pass(m, names):
    for n in names:
        try:
            PASSES[n]().run(m)
        except Exception as ex:      # noqa: BLE001  (any exception of a pass is a crash)
            return n, ex
    return None


# ------------------------------------------------------------------ operands, re-derived
def operands(i):
    T = type(i)
    if T in (ir.Binop, ir.CJump):
        return [i.a, i.b]
    if T is ir.Unop:
        return [i.a]
    if T is ir.Cast:
        return [i.src]
    if T is ir.AddressOf:
        return [i.src]
    if T is ir.Load:
        return [i.address]
    if T is ir.Store:
        return [i.value, i.address]
    if T is ir.CopyBlob:
        return [i.dst, i.src]
    if T is ir.Phi:
        return list(i.inputs.values())
    if T in (ir.FunctionCall, ir.ProcedureCall):
        return [i.callee] + list(i.arguments)
    if T is ir.Return:
        return [i.result]
    if T is ir.InlineAsm:
        return list(i.input_values) + list(i.output_values)
    return []


def targets(i):
    if type(i) is ir.Jump:
        return [i.target]
    if type(i) is ir.CJump:
        return [i.lab_yes, i.lab_no]
    return []


def S(x):
    """str() of an ir object that never raises (deleted jumps cannot be printed)"""
    try:
        return str(x)
    except Exception:      # noqa: BLE001
        return '<%s deleted>' % type(x).__name__


def ids(xs):
    return sorted(set(id(x) for x in xs))


def bookkeeping(m):
    """independent re-derivation of the def-use and predecessor sets; returns a list of
    (class, text) discrepancies (empty = stored bookkeeping equals the derived sets)"""
    out = []
    attached = {}          # id(instr) -> (function, block)
    blocks_of = {}
    for f in m.functions:
        for b in f.blocks:
            blocks_of[id(b)] = f
            if b.function is not f:
                out.append(('block.function', '%s.%s' % (f.name, b.name)))
            for i in b.instructions:
                if id(i) in attached:
                    out.append(('listed-twice', S(i)))
                attached[id(i)] = (f, b)
                if i.block is not b:
                    out.append(('instr.block', '%s in %s' % (S(i), b.name)))
    values = []
    for f in m.functions:
        values += list(f.arguments)
        for b in f.blocks:
            for i in b.instructions:
                ops = operands(i)
                if ids(ops) != ids(i.uses):
                    out.append(('uses', '%s.%s: %s stored uses=%s operands=%s' % (
                        f.name, b.name, S(i), sorted(u.name for u in i.uses), sorted(o.name for o in ops))))
                if len(list(i.uses)) != len(ids(i.uses)):
                    out.append(('uses-dup', S(i)))
                for o in ops:
                    if id(i) not in [id(u) for u in o.used_by]:
                        out.append(('used_by-missing', '%s.%s: %s not in used_by of %s' % (
                            f.name, b.name, S(i), o.name)))
                    if isinstance(o, ir.LocalValue) and not isinstance(o, ir.Parameter) \
                            and id(o) not in attached:
                        out.append(('dangling-operand', '%s.%s: %s uses detached %s' % (
                            f.name, b.name, S(i), o.name)))
                if isinstance(i, ir.Value):
                    values.append(i)
                if type(i) is ir.Phi:
                    for pb in i.inputs:
                        if blocks_of.get(id(pb)) is not f:
                            out.append(('phi-block-outside', '%s.%s: %s has input from removed block %s' % (
                                f.name, b.name, S(i), pb.name)))
    values += list(m.externals) + list(m.variables) + list(m.functions)
    for v in values:
        for u in v.used_by:
            if id(u) not in attached:
                out.append(('used_by-stale', '%s is used_by detached %s' % (v.name, S(u))))
            elif id(v) not in [id(o) for o in operands(u)]:
                out.append(('used_by-extra', '%s is used_by %s which does not use it' % (v.name, S(u))))
        if len(list(v.used_by)) != len(ids(v.used_by)):
            out.append(('used_by-dup', v.name))
    for f in m.functions:
        derived = {id(b): [] for b in f.blocks}
        for b in f.blocks:
            for i in b.instructions:
                for t in targets(i):
                    if id(t) not in derived:
                        out.append(('target-outside', '%s.%s: %s' % (f.name, b.name, S(i))))
                    else:
                        derived[id(t)].append(i)
        for b in f.blocks:
            if ids(derived[id(b)]) != ids(b.references):
                out.append(('references', '%s.%s: stored=%s derived=%s' % (
                    f.name, b.name, sorted(S(r) for r in b.references),
                    sorted(S(r) for r in derived[id(b)]))))
    return out


# ------------------------------------------------------------------ Python port of Spec/IRWf.v
TERMS = ('jump', 'cjump', 'return', 'exit')


def i_def(i):
    k = i[0]
    if k in ('const', 'binop', 'unop', 'cast', 'load', 'phi', 'undefined', 'callf'):
        return (i[1], i[2], i[3])
    if k == 'alloc':
        return (i[1], i[2], ('blob', i[3], i[4]))
    if k == 'addressof':
        return (i[1], i[2], 'ptr')
    if k == 'literal':
        return (i[1], i[2], ('blob', len(i[3]), 1))
    return None


def i_uses(i):
    k = i[0]
    if k == 'binop':
        return [i[5], i[6]]
    if k == 'unop':
        return [i[5]]
    if k in ('cast', 'load'):
        return [i[4]]
    if k == 'addressof':
        return [i[3]]
    if k == 'store':
        return [i[1], i[2]]
    if k == 'copyblob':
        return [i[1], i[2]]
    if k == 'phi':
        return [r for _, r in i[4]]
    if k == 'callf':
        return [i[4]] + list(i[5])
    if k == 'callp':
        return [i[1]] + list(i[2])
    if k == 'cjump':
        return [i[1], i[3]]
    if k == 'return':
        return [i[1]]
    return []


def i_targets(i):
    if i[0] == 'jump':
        return [i[1]]
    if i[0] == 'cjump':
        return [i[4], i[5]]
    return []


def _reach(g, e, avoid=None):
    seen = set()
    if e == avoid:
        return seen
    seen.add(e)
    work = [e]
    while work:
        u = work.pop()
        for v in g[u]:
            if v < len(g) and v != avoid and v not in seen:
                seen.add(v)
                work.append(v)
    return seen


def pywf_func(mod, f):
    """None or the name of the first violated clause (clause names = Spec/IRWf.v)"""
    name, _, ret, params, blocks = f
    exts, gvars, funcs = mod[1], mod[2], mod[3]
    gnames = [e[1] for e in exts] + [g[0] for g in gvars] + [x[0] for x in funcs]
    if not blocks:
        return 'wf_entry'
    bidx = {}
    for k, b in enumerate(blocks):
        bidx.setdefault(b[0], k)
    if len(bidx) != len(blocks):
        return 'wf_block_ids'
    for b in blocks:
        ins = b[2]
        if not ins or ins[-1][0] not in TERMS or any(i[0] in TERMS for i in ins[:-1]):
            return 'wf_shape'
    n = len(blocks)
    g = [[bidx.get(t, n) for i in b[2] for t in i_targets(i)] for b in blocks]
    for row in g:
        if any(v >= n for v in row):
            return 'wf_targets'
    if len(_reach(g, 0)) != n:
        return 'wf_reachable'
    defs = {}
    names = [b[1] for b in blocks]
    nd = 0
    for bi, b in enumerate(blocks):
        for p, i in enumerate(b[2]):
            d = i_def(i)
            if d:
                nd += 1
                defs.setdefault(d[0], (bi, p, d[2]))
                names.append(d[1])
    if len(defs) != nd:
        return 'wf_def_ids'
    if len(set(names)) != len(names):
        return 'wf_names'
    domcache = {}

    def dom(d, w):
        if (d, w) not in domcache:
            domcache[(d, w)] = w not in _reach(g, 0, avoid=d)
        return domcache[(d, w)]

    def rty(r):
        if r[0] == 'loc':
            return defs[r[1]][2] if r[1] in defs else None
        if r[0] == 'param':
            return params[r[1]][1] if r[1] < len(params) else None
        if r[0] == 'glob':
            return 'ptr'
        return None

    preds = [[] for _ in blocks]
    for u, row in enumerate(g):
        for v in row:
            if u not in preds[v]:
                preds[v].append(u)
    sigs = {}
    for e in exts:
        if e[0] == 'efunc':
            sigs[e[1]] = (list(e[2]), e[3])
        elif e[0] == 'eproc':
            sigs[e[1]] = (list(e[2]), None)
    for x in funcs:
        sigs.setdefault(x[0], ([t for _, t in x[3]], x[2]))
    for bi, b in enumerate(blocks):
        for p, i in enumerate(b[2]):
            for r in i_uses(i):
                if r[0] == 'loc':
                    if r[1] not in defs:
                        return 'wf_defined'
                elif r[0] == 'param':
                    if r[1] >= len(params):
                        return 'wf_defined'
                elif r[0] == 'glob':
                    if r[1] not in gnames:
                        return 'wf_defined'
                else:
                    return 'wf_defined'
            if i[0] == 'phi':
                ks = [bidx.get(pb, n) for pb, _ in i[4]]
                if len(set(ks)) != len(ks) or sorted(ks) != sorted(preds[bi]):
                    return 'wf_phi_preds'
                for pb, r in i[4]:
                    if r[0] == 'loc':
                        bj = defs[r[1]][0]
                        if not dom(bj, bidx[pb]):
                            return 'wf_dom_phi'
            else:
                for r in i_uses(i):
                    if r[0] == 'loc':
                        bj, q, _ = defs[r[1]]
                        if not ((bj == bi and q < p) or (bj != bi and dom(bj, bi))):
                            return 'wf_dom'
            k = i[0]
            bad = False
            if k == 'binop':
                bad = rty(i[5]) != i[3] or rty(i[6]) != i[3]
            elif k == 'unop':
                bad = rty(i[5]) != i[3]
            elif k == 'load':
                bad = rty(i[4]) != 'ptr'
            elif k == 'store':
                bad = rty(i[2]) != 'ptr'
            elif k == 'copyblob':
                bad = rty(i[1]) != 'ptr' or rty(i[2]) != 'ptr'
            elif k == 'phi':
                bad = any(rty(r) != i[3] for _, r in i[4])
            elif k == 'cjump':
                bad = rty(i[1]) != rty(i[3])
            elif k == 'return':
                bad = ret is None or rty(i[1]) != ret
            elif k == 'exit':
                bad = ret is not None
            elif k in ('callf', 'callp'):
                callee, args = (i[4], i[5]) if k == 'callf' else (i[1], i[2])
                if rty(callee) != 'ptr':
                    bad = True
                elif callee[0] == 'glob' and callee[1] in sigs:
                    at, rt = sigs[callee[1]]
                    if k == 'callf':
                        bad = rt is None or rt != i[3] or [rty(a) for a in args] != at
                    else:
                        bad = rt is not None or [rty(a) for a in args] != at
            if bad:
                return 'wf_types'
    return None


def pywf(mod):
    for f in mod[3]:
        r = pywf_func(mod, f)
        if r:
            return '%s:%s' % (f[0], r)
    return None
