"""C30 state inventory — an `ast` scan (tool, not proof) for class-level or module-level MUTABLE state that is
written while compiling: such state survives from one compilation to the next in the same process, so the
output can depend on the process history (what was compiled earlier), which C30 forbids.

Scanned: ppci/{arch,codegen,binutils,lang,opt,irutils}/**.py.  A *site* is, inside a function or method:

  class_attr_write     `ClassName.attr = ..` / `ClassName.attr += ..` / `cls.attr = ..` / `type(self).attr ..` /
                       `self.__class__.attr ..`  (ClassName = any class defined in the package)
  class_attr_mutate    `ClassName.attr.append(..)` etc. / `ClassName.attr[k] = ..`
  global_stmt          `global X` (the function rebinds a module global)
  module_global_mutate a module-level name bound to a mutable literal/constructor is mutated in a function
                       (`G.append/add/update/extend/insert/pop/clear/setdefault/remove/discard(..)`, `G[k] = ..`, `G[k] += ..`, `del G[k]`)
  class_default_mutate a class-body attribute with a mutable default (`attr = []`, `{}`, `set()`, `dict()`, ..) is mutated
                       through `self.attr.append(..)` / `self.attr[k] = ..` / `self.attr += ..` in a class that never
                       rebinds `self.attr = ..` (so all instances share the one object)
  memo_cache           a function decorated with functools.lru_cache / cache (process-lifetime memo table)
  class_counter        a class-body attribute with an immutable default is updated with `self.attr += ..` / `self.attr -= ..`
                       in a class that has no plain `self.attr = ..` binding in any method — NOT shared state by itself (the
                       augmented assignment creates an instance attribute), listed only when read through the class name elsewhere
Key = file::qualified function::kind::target text (line numbers are not part of the key).
"""
import ast
import glob
import os

MUTATORS = {'append', 'add', 'update', 'extend', 'insert', 'pop', 'clear', 'setdefault', 'remove', 'discard',
            'appendleft', 'popitem', 'sort', 'reverse'}
MUTABLE_CTORS = {'list', 'dict', 'set', 'defaultdict', 'OrderedDict', 'OrderedSet', 'Counter', 'deque', 'bytearray'}
DIRS = ['arch', 'codegen', 'binutils', 'lang', 'opt', 'irutils']


def src(node):
    try:
        return ast.unparse(node)[:100]
    except Exception:   # noqa: BLE001
        return '<expr>'


def is_mutable_value(v):
    if isinstance(v, (ast.List, ast.Dict, ast.Set, ast.ListComp, ast.DictComp, ast.SetComp)):
        return True
    if isinstance(v, ast.Call):
        f = v.func
        name = f.id if isinstance(f, ast.Name) else (f.attr if isinstance(f, ast.Attribute) else None)
        return name in MUTABLE_CTORS
    return False


def files(repo):
    out = []
    for d in DIRS:
        out += glob.glob(os.path.join(repo, 'ppci', d, '**', '*.py'), recursive=True)
    return sorted(set(out))


def class_ref(node, class_names):
    """is `node` an expression denoting a class object?  returns a label or None"""
    if isinstance(node, ast.Name) and (node.id in class_names or node.id == 'cls'):
        return node.id
    if isinstance(node, ast.Attribute) and node.attr == '__class__':
        return src(node)
    if isinstance(node, ast.Call) and isinstance(node.func, ast.Name) and node.func.id == 'type' and len(node.args) == 1:
        return src(node)
    return None


def scan(repo):
    trees = {}
    class_names = set()
    for root, _, fs in os.walk(os.path.join(repo, 'ppci')):
        for fn in fs:
            if fn.endswith('.py'):
                p = os.path.join(root, fn)
                try:
                    t = ast.parse(open(p, encoding='utf-8').read())
                except SyntaxError:
                    continue
                trees[p] = t
                for n in ast.walk(t):
                    if isinstance(n, ast.ClassDef):
                        class_names.add(n.name)
    sites = []
    for p in files(repo):
        t = trees.get(p)
        if t is None:
            continue
        rel = os.path.relpath(p, repo)
        # module-level names bound to mutable values
        mod_mut = set()
        mod_names = set()
        for st in t.body:
            targets, value = [], None
            if isinstance(st, ast.Assign):
                targets, value = st.targets, st.value
            elif isinstance(st, ast.AnnAssign) and st.value is not None:
                targets, value = [st.target], st.value
            for tg in targets:
                if isinstance(tg, ast.Name):
                    mod_names.add(tg.id)
                    if is_mutable_value(value):
                        mod_mut.add(tg.id)

        def add(qual, kind, node, target):
            sites.append({'file': rel, 'line': node.lineno, 'function': qual, 'kind': kind, 'target': target})

        def scan_func(fnode, qual, klass):
            for dec in fnode.decorator_list:
                d = dec.func if isinstance(dec, ast.Call) else dec
                dn = d.id if isinstance(d, ast.Name) else (d.attr if isinstance(d, ast.Attribute) else '')
                if dn in ('lru_cache', 'cache', 'cached_property'):
                    add(qual, 'memo_cache', fnode, dn)
            local_names = {a.arg for a in fnode.args.args + fnode.args.kwonlyargs}
            for n in ast.walk(fnode):
                if isinstance(n, ast.Assign):
                    for tg in n.targets:
                        if isinstance(tg, ast.Name):
                            local_names.add(tg.id)
            for n in ast.walk(fnode):
                if isinstance(n, ast.Global):
                    for name in n.names:
                        add(qual, 'global_stmt', n, name)
                tgs = []
                if isinstance(n, ast.Assign):
                    tgs = n.targets
                elif isinstance(n, (ast.AugAssign, ast.AnnAssign)):
                    tgs = [n.target]
                elif isinstance(n, ast.Delete):
                    tgs = n.targets
                for tg in tgs:
                    base = tg
                    sub = False
                    if isinstance(base, ast.Subscript):
                        base, sub = base.value, True
                    if isinstance(base, ast.Attribute):
                        c = class_ref(base.value, class_names)
                        if c is not None:
                            add(qual, 'class_attr_mutate' if sub else 'class_attr_write', n, '%s.%s' % (c, base.attr))
                        elif (isinstance(base.value, ast.Name) and base.value.id == 'self' and klass is not None
                              and base.attr in klass['mutable_defaults'] and base.attr not in klass['rebound']
                              and (sub or isinstance(n, ast.AugAssign))):
                            add(qual, 'class_default_mutate', n, '%s.%s' % (klass['name'], base.attr))
                    elif isinstance(base, ast.Name) and sub and base.id in mod_mut and base.id not in local_names:
                        add(qual, 'module_global_mutate', n, base.id)
                if isinstance(n, ast.Call) and isinstance(n.func, ast.Attribute) and n.func.attr in MUTATORS:
                    recv = n.func.value
                    if isinstance(recv, ast.Name) and recv.id in mod_mut and recv.id not in local_names:
                        add(qual, 'module_global_mutate', n, recv.id)
                    elif isinstance(recv, ast.Attribute):
                        c = class_ref(recv.value, class_names)
                        if c is not None:
                            add(qual, 'class_attr_mutate', n, '%s.%s' % (c, recv.attr))
                        elif (isinstance(recv.value, ast.Name) and recv.value.id == 'self' and klass is not None
                              and recv.attr in klass['mutable_defaults'] and recv.attr not in klass['rebound']):
                            add(qual, 'class_default_mutate', n, '%s.%s' % (klass['name'], recv.attr))

        def walk(node, prefix, klass):
            for ch in ast.iter_child_nodes(node):
                if isinstance(ch, (ast.FunctionDef, ast.AsyncFunctionDef)):
                    scan_func(ch, prefix + ch.name, klass)
                elif isinstance(ch, ast.ClassDef):
                    info = {'name': ch.name, 'mutable_defaults': set(), 'rebound': set()}
                    for st in ch.body:
                        if isinstance(st, ast.Assign) and is_mutable_value(st.value):
                            for tg in st.targets:
                                if isinstance(tg, ast.Name):
                                    info['mutable_defaults'].add(tg.id)
                    for n in ast.walk(ch):
                        if isinstance(n, ast.Assign):
                            for tg in n.targets:
                                if isinstance(tg, ast.Attribute) and isinstance(tg.value, ast.Name) and tg.value.id == 'self':
                                    info['rebound'].add(tg.attr)
                    walk(ch, prefix + ch.name + '.', info)
                elif isinstance(ch, (ast.If, ast.Try, ast.With, ast.For, ast.While)):
                    walk(ch, prefix, klass)
        walk(t, '', None)
    sites.sort(key=lambda s: (s['file'], s['line'], s['kind'], s['target']))
    count = {}
    uniq = []
    for s in sites:
        base = '%s::%s::%s::%s' % (s['file'], s['function'], s['kind'], s['target'])
        count[base] = count.get(base, 0) + 1
        if count[base] > 1:
            continue            # several writes to the same target in one function are one site
        s['key'] = base
        uniq.append(s)
    return uniq, len(files(repo))


if __name__ == '__main__':
    import sys
    sites, nf = scan(sys.argv[1] if len(sys.argv) > 1 else '/repo')
    print(nf, 'files', len(sites), 'sites')
    for s in sites:
        print('%s:%d %s [%s] %s' % (s['file'], s['line'], s['function'], s['kind'], s['target']))
