"""C13 — linker relaxation preserves program behaviour (DESIGN §4 C13).

tie H: Model/Relax.v (do_relaxations, _apply_relaxation_holes) over Model/Reloc.v (can_shrink, do_shrink, apply),
cross-checked on every run against the real Linker.do_relaxations on generated riscv:rvc objects (state before /
after the relaxation phase compared field by field). Search oracle: every jump of the generated program is decoded
(Python twin of Spec/RelocSpec.v) in the relaxed link and in the unrelaxed link (relaxation switched off by
subclassing Linker): same target symbol, same link register, sections still aligned.
"""
from vlib import OkV, to_term
from props import reloc_common as rc
from props import c11
from props.reloc_common import w

LEVEL = 'proof'
RULE = ('generated riscv:rvc objects: 1-3 code sections in 1-2 memory images, each a sequence of nop blocks, `j L` (CB, '
        'cb_imm11) and `jal rd, L` (CBl, cbl_imm11, rd = ra mostly, sometimes x5) with labels at instruction boundaries; '
        'block sizes are drawn so that jump distances fall around +-2 KiB (the can_shrink boundary), +-1 MiB and small values; '
        'plus five deterministic programs run (search AND model correspondence) on every run, among them two multi-image '
        'layouts with shrunk jumps in an earlier image and referenced sections in later images; layout oracle: a section '
        'moves down by exactly 2 bytes per jump shrunk in earlier sections of its own image and never below its memory; '
        'non-trivial = distinct program in which at least one jump is shrunk')
EXPLANATION = ('Unbounded Coq theorems over the hand model: byte deletion in reverse order realises new_off on every non-hole '
               'byte for sorted disjoint holes; symbols and relocations move to new_off of their offset; sections of an image '
               'move down by the holes of the sections before them; a shrunk j / jal relocated by bc_imm11 at the shifted '
               'addresses is a c.j / c.jal going exactly to the symbol (uses C11 c11_exact_rvc_cj) when the new distance fits; '
               'c.j/c.jal are equivalent to j / jal ra. Refuted with machine-checked witnesses: jal rd (rd <> ra) is shrunk to '
               'c.jal; section addresses are not re-aligned. Per-site end-to-end composition (c13_relax_link_site_shrunk / _kept): '
               'for arbitrary sorted disjoint positive holes of a section, the bytes of a jump site no hole touches are found '
               'unchanged at new_off of its offset after punching, and the (replacement) relocation applied there at the shifted '
               'addresses yields a c.j/c.jal (resp. jal) to the symbol — under the explicit hypothesis that the new distance fits '
               '(exactly what fails across memory images: known finding). Wave 5 (c13_holes_of_relaxation_ok, '
               'c13_holes_are_site_halves): for ANY object on which the candidate loop of do_relaxations succeeds, every hole is '
               '(site offset + 2, 2) of a relocation of that section, and when the relocation sites of a section are non-negative '
               'and >= 4 bytes apart the sorted hole list handed to _apply_relaxation_holes is sorted, disjoint and positive '
               '(the premises holes_ok / holes_pos of the shifting and per-site theorems), for every relocation order and every '
               'subset shrunk. NOT proved: the remaining bookkeeping of the fold of do_relaxations over all relocations of an '
               'arbitrary object (replace_relocs, that no hole touches another site; covered by correspondence), and '
               '"computes the same results" by emulation (no RV32 interpreter was built).')
TRUSTED = ['hand model coq/Model/Relax.v + Model/Reloc.v (cross-checked per run against Linker.do_relaxations on the same states)',
           'ISA reading in Spec/RelocSpec.v (jal, c.j, c.jal formats and link registers) and its Python twin',
           'tools/py2coq.py for wrap_negative (Gen.bitfun)']
ASSUMPTIONS = ['holes of one section are sorted, pairwise disjoint and inside the section (sorted/disjoint/positive is PROVED for the '
               'holes produced by do_relaxations from relocations at instruction sites >= 4 bytes apart: c13_holes_of_relaxation_ok; '
               'the site-distance premise is evaluated on the real pre-relaxation state of every generated program and counted in '
               'stages.relax_search.site_premise_holds / site_premise_fails)',
               'c13_targets_preserved assumes the post-relaxation distance fits the CJ immediate']
MANIFEST = {
    'text': 'proof (with recorded refutations): unbounded Coq theorems over a hand model of Linker.do_relaxations / '
            '_apply_relaxation_holes show that hole punching moves every remaining byte, symbol and relocation of a section to '
            'offset minus the holes before it, that sections of an image shift by the holes of earlier sections, and that a shrunk '
            'j / jal ra relocated by its replacement relocation is a c.j / c.jal reaching exactly the symbol; refuted and replayed: '
            'jal rd with rd<>ra is turned into c.jal (fix proposed), shifted sections are not re-aligned (known finding). '
            'a per-site composition theorem chains byte patching, hole punching, offset shift and relocation for one jump site '
            'under the explicit hypothesis that the new distance fits (it does not when only the jump\'s own memory image is '
            'compacted: known finding). Whole-phase behaviour on arbitrary objects is validated differentially (model vs real linker, relaxed vs unrelaxed '
            'link, every jump decoded), not proved; no emulation of program results',
    'note': 'trusted: Coq kernel, hand models Model/Relax.v and Model/Reloc.v (correspondence per run), ISA reading in '
            'Spec/RelocSpec.v. No axioms.',
    'technique': 'Coq proof over hand model + differential correspondence (relaxed vs unrelaxed real link)'}

NOP = [0x13, 0, 0, 0]


# ---------------------------------------------------------------- program generator
def gen_program(ctx, shape=None):
    """returns dict: sections {name: [items]}, memories [(base, [section names])]; item = ('nop', n) |
    ('j', label) | ('jal', rd, label) | ('label', name)"""
    rng = ctx.rng
    nsec = rng.choice([1, 1, 2, 2, 3])
    names = ['code', 'code2', 'code3'][:nsec]
    labels = []
    secs = {}
    for sn in names:
        items = []
        nblocks = rng.randrange(2, 6)
        for b in range(nblocks):
            lab = '%s_L%d' % (sn, b)
            labels.append(lab)
            items.append(('label', lab))
            kind = rng.randrange(5)
            if kind == 0:
                n = rng.choice([508, 509, 510, 511, 512, 513, 514, 1020, 1022, 1024])   # around 2 KiB
            elif kind == 1:
                n = rng.randrange(0, 8)
            elif kind == 2:
                n = rng.randrange(100, 600)
            else:
                n = rng.randrange(0, 40)
            items.append(('nop', n))
            for _ in range(rng.randrange(0, 3)):
                items.append(('jump', None))
                items.append(('nop', rng.randrange(0, 3)))
        secs[sn] = items
    # resolve jump targets
    for sn in names:
        out = []
        for it in secs[sn]:
            if it[0] == 'jump':
                lab = rng.choice(labels)
                if rng.randrange(2):
                    out.append(('j', lab))
                else:
                    out.append(('jal', 1 if rng.randrange(6) else 5, lab))
            else:
                out.append(it)
        secs[sn] = out
    if nsec >= 2 and rng.randrange(2):
        split = rng.randrange(1, nsec)
        gap = rng.choice([0x1000, 0x800, 0x10000, 0x100000])
        mems = [(0x1000, names[:split]), (0x1000 + 0x4000 * 4 + gap, names[split:])]
    else:
        mems = [(rng.choice([0, 0x100, 0x8000]), names)]
    return {'sections': secs, 'memories': mems, 'order': names}


def build_object(prog):
    from ppci.api import get_arch
    from ppci.binutils.objectfile import ObjectFile, RelocationEntry
    from ppci.arch.riscv.rvc_instructions import CB, CBl
    from ppci.arch.riscv import registers as R
    arch = get_arch('riscv:rvc')
    regs = {1: R.LR, 5: R.R5}
    obj = ObjectFile(arch)
    sym_ids = {}
    nid = [1]

    def sym_id(name):
        if name not in sym_ids:
            sym_ids[name] = nid[0]
            nid[0] += 1
        return sym_ids[name]
    pending = []
    jumps = []
    for sn in prog['order']:
        sec = obj.create_section(sn)
        off = 0
        data = bytearray()
        for it in prog['sections'][sn]:
            if it[0] == 'nop':
                data += bytes(NOP) * it[1]
                off += 4 * it[1]
            elif it[0] == 'label':
                pending.append((it[1], sn, off))
            else:
                ins = CB(it[1]) if it[0] == 'j' else CBl(regs[it[1]], it[2])
                site = 'site_%d' % len(jumps)
                pending.append((site, sn, off))
                jumps.append({'site': site, 'label': it[-1], 'rd': 0 if it[0] == 'j' else it[1], 'section': sn, 'offset': off})
                for r in ins.relocations():
                    pending.append(('reloc', r.name, r.symbol_name, sn, off + r.offset, r.addend))
                data += ins.encode()
                off += 4
        sec.add_data(bytes(data))
    for p in pending:
        if p[0] != 'reloc':
            obj.add_symbol(sym_id(p[0]), p[0], 'global', p[2], p[1], 'object', 0)
    for p in pending:
        if p[0] == 'reloc':
            obj.add_relocation(RelocationEntry(p[1], sym_id(p[2]), p[3], p[4], p[5]))
    return obj, jumps


def make_layout(prog):
    from ppci.binutils.layout import Layout, Memory, Section as LSection
    layout = Layout()
    for i, (base, names) in enumerate(prog['memories']):
        m = Memory('m%d' % i)
        m.location = base
        m.size = 1 << 30
        for n in names:
            m.add_input(LSection(n))
        layout.add_memory(m)
    return layout


def spy_class(relax):
    from ppci.binutils.linker import Linker

    class Spy(Linker):
        def do_relaxations(self):
            self.pre = c11.snapshot(self.dst)
            self.pre['images'] = [(im.address, [s.name for s in im.sections]) for im in self.dst.images]
            if relax:
                super().do_relaxations()
            self.post = c11.snapshot(self.dst)
    return Spy


def link_prog(prog, relax):
    obj, jumps = build_object(prog)
    linker = spy_class(relax)(obj.arch, None)
    out = linker.link([obj], layout=make_layout(prog))
    return linker, out, jumps


def decode_jump(out, j):
    """(target address, link register, size) of the jump at symbol site_i in the linked object"""
    sym = out.get_symbol(j['site'])
    sec = out.get_section(sym.section)
    P = sec.address + sym.value
    d = list(sec.data[sym.value:sym.value + 4])
    if len(d) >= 2 and d[0] & 3 != 3:
        wd = rc.word(d[:2])
        f3 = rc.bits(wd, 13, 3)
        if rc.bits(wd, 0, 2) == 1 and f3 in (1, 5):
            return P + rc.rvc_j_imm(wd), (1 if f3 == 1 else 0), 2
        return None
    if len(d) == 4 and rc.bits(rc.word(d), 0, 7) == 0x6F:
        wd = rc.word(d)
        return P + rc.rv_j_imm(wd), rc.bits(wd, 7, 5), 4
    return None


def check_program(ctx, prog, stats, canon=None):
    """link relaxed and unrelaxed, decode every jump; report deviations. Returns (linker_relaxed or None)"""
    try:
        l0, out0, jumps = link_prog(prog, False)
    except Exception as ex:   # noqa: BLE001
        stats['unrelaxed_link_error'] = stats.get('unrelaxed_link_error', 0) + 1
        return None
    try:
        l1, out1, _ = link_prog(prog, True)
    except Exception as ex:   # noqa: BLE001
        stats['relaxed_link_error:' + type(ex).__name__] = stats.get('relaxed_link_error:' + type(ex).__name__, 0) + 1
        return None
    nshrunk = 0
    shrunk_in = {}
    base = {'fn': 'link_relax', 'program': prog}
    for j in jumps:
        a = decode_jump(out0, j)
        b = decode_jump(out1, j)
        lab0 = out0.get_symbol_value(j['label'])
        lab1 = out1.get_symbol_value(j['label'])
        if a is None or a[0] != lab0:
            # unrelaxed link itself wrong: C11 territory (range laxness beyond +-1 MiB); not judged here
            stats['unrelaxed_wrong'] = stats.get('unrelaxed_wrong', 0) + 1
            continue
        if b is None:
            ctx.violation(dict(base, defect='not_a_jump', key='not_a_jump', jump=j,
                               what='after relaxation the bytes at the jump site do not decode as jal / c.j / c.jal'))
            continue
        if b[2] == 2:
            nshrunk += 1
            if a[2] == 4:
                shrunk_in[j['section']] = shrunk_in.get(j['section'], 0) + 1
        if b[0] != lab1:
            # listed shape (code TODO in do_relaxations): a shrunk jump into ANOTHER memory image whose distance grew
            # beyond the c.j range because only the jump's own image was compacted; bc_imm11's lax check wraps it
            site_sym = out1.get_symbol(j['site'])
            P1 = out1.get_section(site_sym.section).address + site_sym.value
            mem_of = {n: i for i, (_, names) in enumerate(prog['memories']) for n in names}
            cross = (b[2] == 2 and mem_of.get(site_sym.section) != mem_of.get(out1.get_symbol(j['label']).section)
                     and not -2048 <= lab1 - P1 <= 2046 and b[0] == lab1 - 4096)
            what = 'relaxed jump goes to 0x%x, label %s is at 0x%x' % (b[0], j['label'], lab1)
            if cross and canon == 'cross':
                ctx.violation({'fn': 'link_relax', 'defect': 'cross_image_distance_grows', 'key': 'cross_image',
                               'witness': 'two shrunk jumps before `j t`, t in the next image 2044 bytes ahead',
                               'what': what, 'how_to_replay': 'tools/props/c13.py: check_program(ctx, CROSS_PROG, {})'})
            elif cross:
                stats['cross_image_distance_grows'] = stats.get('cross_image_distance_grows', 0) + 1
            else:
                ctx.violation(dict(base, defect='wrong_target', key='wrong_target', jump=j, what=what))
        if b[1] != a[1]:
            rec = dict(base, defect='link_register_changed', key='link_register', jump=j, rd=a[1],
                       what='jal x%d became c.jal (links x%d)' % (a[1], b[1]))
            if canon == 'jal_rd':
                rec = {'fn': 'link_relax', 'defect': 'link_register_changed', 'rd': a[1], 'witness': 'jal x5, f ; f 64 bytes ahead',
                       'what': rec['what'], 'key': 'link_register',
                       'how_to_replay': 'tools/props/c13.py: check_program(ctx, JAL_RD_PROG, {}) — CBl(\'f\', R5) in section code, '
                                        'link with relaxation, decode the jump'}
            ctx.violation(rec)
    # layout facts (model-independent): within each memory image a section moves down by exactly 2 bytes per jump
    # shrunk in the EARLIER sections of the SAME image; so the first section of every image, and every section of an
    # image without shrunk jumps, keeps its unrelaxed (layout) address, and no section starts below its memory
    expected_addr = {}
    for (mbase, names) in prog['memories']:
        delta = 0
        for n in names:
            a0 = out0.get_section(n).address
            expected_addr[n] = a0 - delta
            got = out1.get_section(n).address
            if got != a0 - delta or got < mbase:
                ctx.violation(dict(base, defect='section_address', key='section_address', section=n,
                                   unrelaxed=a0, expected=a0 - delta, got=got, memory_location=mbase,
                                   what='section %s is at 0x%x after relaxation; layout/unrelaxed address 0x%x minus %d bytes '
                                        'removed before it in its own image = 0x%x (memory starts at 0x%x)'
                                        % (n, got, a0, delta, a0 - delta, mbase),
                                   how_to_replay='tools/props/c13.py: check_program(ctx, <program in this record>, {})'))
            delta += 2 * shrunk_in.get(n, 0)
    for s in out1.sections:
        if s.name in expected_addr and s.address != expected_addr[s.name]:
            continue      # reported above as section_address
        if s.alignment and s.address % s.alignment != 0:
            rec = dict(base, defect='section_misaligned', key='misaligned', section=s.name, address=s.address,
                       what='section %s (alignment %d) is at 0x%x after relaxation' % (s.name, s.alignment, s.address))
            if canon == 'align':
                rec = {'fn': 'link_relax', 'defect': 'section_misaligned', 'witness': 'code: j L; code2 behind it in the same image',
                       'section': s.name, 'address': s.address, 'what': rec['what'], 'key': 'misaligned'}
            else:
                # same defect as the canonical witness (code TODO): counted, reported through the witness
                stats['misaligned_after_relaxation'] = stats.get('misaligned_after_relaxation', 0) + 1
                continue
            ctx.violation(rec)
    stats['programs'] = stats.get('programs', 0) + 1
    stats['jumps'] = stats.get('jumps', 0) + len(jumps)
    stats['shrunk'] = stats.get('shrunk', 0) + nshrunk
    if nshrunk:
        stats['programs_with_shrink'] = stats.get('programs_with_shrink', 0) + 1
    return l1


JAL_RD_PROG = {'sections': {'code': [('label', 'start'), ('jal', 5, 'f'), ('nop', 15), ('label', 'f'), ('nop', 1)]},
               'memories': [(0x100, ['code'])], 'order': ['code']}
ALIGN_PROG = {'sections': {'code': [('label', 'a'), ('j', 'b'), ('nop', 3), ('label', 'b'), ('nop', 1)],
                           'code2': [('label', 'c'), ('nop', 2)]},
              'memories': [(0x100, ['code', 'code2'])], 'order': ['code', 'code2']}
# jump site at 0x1000 + 24, t at +2044 before relaxation (shrinkable); the two jumps before it shrink too, the site
# moves down 4 bytes, the other image does not move: distance 2048 > 2046
CROSS_PROG = {'sections': {'code': [('label', 'a'), ('j', 'a'), ('j', 'a'), ('nop', 4), ('j', 't'), ('nop', 1)],
                           'code2': [('label', 't'), ('nop', 2)]},
              'memories': [(0x1000, ['code']), (0x1000 + 24 + 2044, ['code2'])], 'order': ['code', 'code2']}
# multi-image layouts: shrunk jumps in an EARLIER image (flash), LATER images (ram) hold sections whose symbols are
# referenced from the code; the later images have no holes and must keep exactly their layout addresses
MULTI_PROG = {'sections': {'code': [('label', 'a'), ('j', 'a'), ('nop', 2), ('jal', 1, 'b'), ('nop', 1), ('label', 'b'),
                                    ('jal', 1, 'r'), ('nop', 1)],
                           'code2': [('label', 'c'), ('j', 'c'), ('jal', 1, 'r2'), ('nop', 1)],
                           'ram': [('label', 'r'), ('nop', 4), ('label', 'r2'), ('nop', 1)]},
              'memories': [(0x1000, ['code', 'code2']), (0x20000, ['ram'])], 'order': ['code', 'code2', 'ram']}
MULTI3_PROG = {'sections': {'code': [('label', 'a'), ('j', 'a'), ('j', 'a'), ('j', 'a'), ('jal', 1, 'd'), ('nop', 1)],
                            'code2': [('label', 'c'), ('nop', 3), ('j', 'c'), ('nop', 1)],
                            'code3': [('label', 'd'), ('nop', 2), ('jal', 1, 'c'), ('nop', 1)]},
               'memories': [(0x0, ['code']), (0x8000, ['code2']), (0x40000, ['code3'])], 'order': ['code', 'code2', 'code3']}

NAME2KIND = {'cb_imm11': 'RvcCBImm11', 'cbl_imm11': 'RvcCBlImm11', 'bc_imm11': 'RvcBcImm11', 'bc_imm8': 'RvcBcImm8',
             'b_imm20': 'RvBImm20', 'b_imm12': 'RvBImm12'}


def model_case(linker):
    """Coq term for Model.Relax.do_relaxations on the pre state, and the expected post state"""
    pre, post = linker.pre, linker.post
    ids = {n: i + 1 for i, (n, _, _) in enumerate(pre['sections'])}
    secs, syms = c11.kind_term(ids, pre)
    rels = '[%s]' % '; '.join('mkRel %s %d %d %s %s' % (NAME2KIND[t], sid, ids[sn], w(off), w(add))
                              for (t, sid, sn, off, add) in pre['relocations'])
    imgs = '[%s]' % '; '.join('mkImg %s [%s]' % (w(a), '; '.join(str(ids[n]) for n in names))
                              for (a, names) in pre['images'])
    term = ('match do_relaxations %s %s %s %s with Ok (s, y, r) => Ok (secs_out s, out_syms y, '
            'map (fun x => (r_sym x, r_sec x, r_off x, r_add x)) r) | Diag c => Diag c | Internal e => Internal e '
            '| OutOfFuel => OutOfFuel end' % (secs, syms, rels, imgs))
    exp = ([(ids[n], a, d) for (n, a, d) in post['sections']],
           [(i, ids[s] if s is not None else None, v if v is not None else 0) for (i, u, s, v) in post['symbols']],
           [(sid, ids[sn], off, add) for (t, sid, sn, off, add) in post['relocations']])
    kinds = [NAME2KIND[t] for (t, _, _, _, _) in post['relocations']]
    return term, OkV((exp[0], exp[1], exp[2])), kinds


def site_premise_ok(linker):
    """premise of c13_holes_of_relaxation_ok on the real pre-relaxation state: per section, relocation offsets are
    non-negative and pairwise at least 4 bytes apart"""
    per = {}
    for (_t, _sid, sn, off, _add) in linker.pre['relocations']:
        per.setdefault(sn, []).append(off)
    for offs in per.values():
        offs.sort()
        if offs and offs[0] < 0:
            return False
        if any(b - a < 4 for a, b in zip(offs, offs[1:])):
            return False
    return True


def regen(ctx):
    return c11.regen(ctx)


def run(ctx):
    regen(ctx)
    ok, _ = ctx.build(['Proofs/C13_final.vo', 'Proofs/C13_compose.vo', 'Proofs/C13_holes.vo'])
    if ok:
        ctx.check_props('Props/C13.v')
    stats = {}
    # canonical witnesses of the two defects, re-executed on every run
    canon_linkers = [check_program(ctx, JAL_RD_PROG, stats, canon='jal_rd'),
                     check_program(ctx, ALIGN_PROG, stats, canon='align'),
                     check_program(ctx, CROSS_PROG, stats, canon='cross'),
                     check_program(ctx, MULTI_PROG, stats, canon='multi'),
                     check_program(ctx, MULTI3_PROG, stats, canon='multi')]
    n = 40 if ctx.quick() and not ctx.failed_stages else 250
    cases, meta = [], []
    # the deterministic programs (two of them multi-image with shrunk jumps in the EARLIER image and referenced
    # sections in LATER images) are always part of the model/implementation correspondence
    for ci, linker in enumerate(canon_linkers):
        if linker is not None:
            key = 'site_premise_holds' if site_premise_ok(linker) else 'site_premise_fails'
            stats[key] = stats.get(key, 0) + 1
            term, exp, kinds = model_case(linker)
            cases.append((term, exp))
            meta.append('canonical-%d' % ci)
    ncanon = len(cases)
    for i in range(n):
        prog = gen_program(ctx)
        linker = check_program(ctx, prog, stats)
        if linker is not None:
            key = 'site_premise_holds' if site_premise_ok(linker) else 'site_premise_fails'
            stats[key] = stats.get(key, 0) + 1
        if linker is not None and len(cases) - ncanon < (16 if ctx.quick() else 250):
            try:
                term, exp, kinds = model_case(linker)
            except KeyError:
                continue
            if sum(len(d) for (_, _, d) in linker.pre['sections']) <= (2500 if ctx.quick() else 9000):
                cases.append((term, exp))
                meta.append(i)
    ctx.cov['stages']['relax_search'] = stats
    ctx.cov['evaluations'] += stats.get('jumps', 0)
    ctx.cov['distinct_nontrivial'] += stats.get('programs_with_shrink', 0)
    ctx.note_sample({'canonical': 'JAL_RD_PROG', 'program': JAL_RD_PROG})
    if ctx.build(['Model/Relax.vo', 'Lib/Val.vo'])[0] and cases:
        bad = ctx.run_cases('relax', ['Model.Reloc', 'Model.Relax'], cases, shard=10)
        if bad:
            ctx.log('do_relaxations model/implementation disagree on programs', [meta[i] for i in bad[:6]])
            ctx.failed_stages.append(('correspondence', 'Model.Relax.do_relaxations disagrees with the real linker on %d of %d programs'
                                      % (len(bad), len(cases))))
    ctx.cov['exhaustive'] = False


def search(ctx):
    stats = {}
    for _ in range(250):
        check_program(ctx, gen_program(ctx), stats)
    ctx.cov['stages']['relax_search'] = stats
