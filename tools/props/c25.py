"""C25 — dominator and post-dominator analyses match their definitions (DESIGN §4 C25).

V + H: the real ppci answers (Lengauer-Tarjan idom, dominates / strictly_dominates through the
interval-numbered dominator tree, Cytron dominance frontier, fixed-point post dominators,
can_reach) are compared, inside coqc, with the executable reference Model/DomRef.v that
Props/C25.v proves equal to the path-based definitions of Spec/CfgSpec.v for EVERY graph; the real
idom map of every generated graph goes through the verified certificate checker check_idom; the
hand models of cfg.py / fixed_point_dominator.py (Model/DomTree.v) are run on the same inputs.
Search oracle: independent brute-force path enumeration in Python.
"""
import itertools
import sys

LEVEL = 'translation_validation'
RULE = ('graphs: nodes 0..n-1, entry 0; quick = every digraph with <= 3 nodes (self loops included) and '
        'every 4-node digraph without self loops in which all nodes are reachable (oracle), a seeded sample of '
        'those plus random graphs with 5..40 nodes through coqc; thorough = all 4-node digraphs with self loops and a third '
        '(by seed) of the 5-node loop-free digraphs in canonical form (entry fixed) through the oracle, seeded samples of '
        'them (3000 + 1500) and 400 random graphs up to 40 nodes through coqc; post-dominator rows go through coqc for '
        'n <= 12 only (oracle above). '
        'Post dominators: every sink node of the graph as exit. non-trivial = distinct graph with >= 3 nodes, all '
        'reachable, in which at least one node has an immediate dominator different from the entry or a '
        'non-empty dominance frontier')
EXPLANATION = ('Unbounded Coq theorems (every graph; Props/C25.v): the reference (reachability by BFS, dominance by node '
               'removal, idom, dominance frontier, post-dominance, can_reach table) equals the path definitions; immediate '
               'dominators exist and are unique; the certificate checker is sound AND complete; the models of '
               '_calculate_dominator_tree + _number_dominator_tree + below/below_or_same decide dominance / strict '
               'dominance for every accepted idom map (c25_dominates_unbounded); the model of '
               'calculate_dominance_frontier (tree, explicit-stack bottom_up order, local + up rule) returns the dominance '
               'frontier by definition for every accepted idom map (c25_df_cytron, with Cytron\'s recursion '
               'c25_df_decompose); the models of calculate_post_dominators and calculate_reach terminate within n*n+2 '
               'sweeps and return the path-defined sets (total correctness). Bounded (Props/C25_bounded.v, vm_compute): a '
               'faithful model of lt.py (dfs numbering, semi, iterative path compression, buckets, samedom fix-up) equals '
               'the reference idom on all graphs with 1..4 nodes for two set iteration orders (c25_lt_bounded; KeyError '
               'exactly outside the code\'s domain); thorough tier (Props/C25_thorough.v): the same on all 16^5 loop-free '
               '5-node graphs (c25_lt_bounded5). NOT proved: Lengauer-Tarjan for all graphs (per graph the real LT output is '
               'validated by the verified checker and the model is compared with the real run including '
               'dfnum/parent/semi arrays). Graphs with nodes unreachable from the entry are outside the property.')
TRUSTED = ['hand models Model/DomTree.v and Model/LengauerTarjan.v mirror cfg.py/fixed_point_dominator.py/lt.py/digraph.dfs (cross-checked per run on every generated graph, LT including its dfnum/parent/semi arrays)',
           'tools/props/c25.py builds the ppci ControlFlowGraph and the Coq graph literal from the same edge list',
           'Python set iteration order does not influence the (set-valued) results; results are compared as sorted lists']
ASSUMPTIONS = ['every node is reachable from the entry node (ppci builds CFGs by traversal from the entry)',
               'the exit node used for post-dominators has no successors',
               'Lengauer-Tarjan is validated on the generated graphs only (certificate per graph)']

MANIFEST = {
    'text': 'translation validation + proofs: for every generated CFG (all small digraphs exhaustively, random graphs to 40 '
            'nodes) the real Lengauer-Tarjan idom map is accepted by a Coq-verified certificate checker (sound and complete '
            'for all graphs: accepted map = immediate dominators by the path definition), and a faithful Coq model of lt.py '
            'reproduces the real run (dfnum, parent, semi, idom) and is proved equal to the definition on all graphs with <= 4 '
            'nodes (all loop-free 5-node graphs in the thorough tier). Proved for all graphs, given any accepted idom map: '
            'the modelled dominates / strictly_dominates pipeline (dominator tree, interval numbering, interval tests) decides '
            'path-defined dominance; the modelled calculate_dominance_frontier (Cytron, bottom-up) returns the dominance '
            'frontier by definition; the post-dominator and reach fixpoint models terminate and return the path-defined sets.',
    'note': 'no theorem about Lengauer-Tarjan on all graphs (bounded theorems + per-graph validation by the verified checker); '
            'hand models of lt.py / cfg.py / fixed_point_dominator.py are tied to the code by per-run differential '
            'correspondence (set iteration order of the real run is passed to the LT model); graphs with unreachable nodes and '
            'exit nodes with successors are out of scope; coqchk re-checks Props/C25.v, the vm_compute families are '
            'coqc-checked only. No axioms.',
    'technique': 'verified certificate checker + verified reference oracle in Coq, hand models with unbounded and bounded-exhaustive theorems, differential correspondence',
}

PDOM_COQ_MAX = 12
COQ_IMPORTS = ['Spec.CfgSpec', 'Model.DomRef', 'Model.DomTree', 'Model.LengauerTarjan']


# ---------------------------------------------------------------- graphs
def succ_lists(n, edges):
    s = [[] for _ in range(n)]
    for (u, v) in edges:
        s[u].append(v)
    return [sorted(set(x)) for x in s]


def all_digraphs(n, self_loops):
    pairs = [(u, v) for u in range(n) for v in range(n) if self_loops or u != v]
    for mask in range(1 << len(pairs)):
        yield succ_lists(n, [p for i, p in enumerate(pairs) if mask >> i & 1])


def reach_from(succ, a, removed=None):
    if a == removed:
        return set()
    seen = {a}
    todo = [a]
    while todo:
        u = todo.pop()
        for v in succ[u]:
            if v != removed and v not in seen:
                seen.add(v)
                todo.append(v)
    return seen


def all_reachable(succ):
    return len(reach_from(succ, 0)) == len(succ)


def canonical5(succ):
    """is this 5-node graph the least among its images under permutations of nodes 1..4 (entry fixed)"""
    n = len(succ)
    key = tuple(tuple(s) for s in succ)
    for perm in itertools.permutations(range(1, n)):
        p = (0,) + perm
        img = [None] * n
        for u in range(n):
            img[p[u]] = tuple(sorted(p[v] for v in succ[u]))
        if tuple(img) < key:
            return False
    return True


def random_graph(rng, n):
    """structured CFG-like graph: a random spanning tree from the entry plus forward, back and cross edges"""
    edges = set()
    for v in range(1, n):
        edges.add((rng.randrange(v), v))
    style = rng.randrange(4)
    extra = rng.randrange(0, 2 * n + 1) if style else rng.randrange(0, n // 2 + 1)
    for _ in range(extra):
        u, v = rng.randrange(n), rng.randrange(n)
        if style == 1 and u < v:
            u, v = v, u            # back edges mostly
        edges.add((u, v))
    if rng.randrange(3) == 0:       # make some sinks
        k = rng.randrange(n)
        edges = {(u, v) for (u, v) in edges if u != k}
        for v in range(1, n):
            if not any(b == v for (a, b) in edges):
                edges.add((0, v))
    succ = succ_lists(n, edges)
    if not all_reachable(succ):
        for v in range(1, n):
            if v not in reach_from(succ, 0):
                succ[0] = sorted(set(succ[0] + [v]))
    return succ


# ---------------------------------------------------------------- implementation
def build(succ, exit_node=None):
    from ppci.graph import cfg
    g = cfg.ControlFlowGraph()
    ns = [cfg.ControlFlowNode(g, name=str(i)) for i in range(len(succ))]
    for u, ss in enumerate(succ):
        for v in ss:
            g.add_edge(ns[u], ns[v])
    g.entry_node = ns[0]
    g.exit_node = ns[exit_node] if exit_node is not None else ns[0]
    return g, ns


def impl_answers(succ):
    """query the real implementation; returns dict of answers (exceptions -> ('exception', repr))"""
    n = len(succ)
    out = {}
    g, ns = build(succ)
    idx = {node: i for i, node in enumerate(ns)}

    def guard(name, fn):
        try:
            out[name] = fn()
        except Exception as ex:  # noqa: BLE001
            out[name] = ('exception', '%s: %s' % (type(ex).__name__, ex))

    guard('idom', lambda: [(idx[g.get_immediate_dominator(x)] if g.get_immediate_dominator(x) is not None else None)
                           for x in ns])
    guard('dom', lambda: [[w for w in range(n) if g.dominates(ns[d], ns[w])] for d in range(n)])
    guard('sdom', lambda: [[w for w in range(n) if g.strictly_dominates(ns[d], ns[w])] for d in range(n)])
    guard('intervals', lambda: [tuple(g.tree_map[x].interval) if g.tree_map[x].interval is not None else None
                                for x in ns])

    def df():
        g.calculate_dominance_frontier()
        return [sorted(idx[y] for y in g.df[x]) if x in g.df else None for x in ns]
    guard('df', df)
    def lt_run():
        from ppci.graph import lt as ltmod
        g3, ns3 = build(succ)
        idx3 = {node: i for i, node in enumerate(ns3)}
        x = ltmod.LengauerTarjan(False)
        # iteration order of the successor / predecessor sets, as the algorithm will see it
        sord = [[idx3[s] for s in g3.successors(u)] for u in ns3]
        pord = [[idx3[p] for p in g3.predecessors(u)] for u in ns3]
        im = x.compute(g3, ns3[0])
        d = lambda m: [(idx3[m[u]] if (u in m and m[u] is not None) else None) for u in ns3]
        dfnum = [x.dfnum.get(u) for u in ns3]
        return sord, pord, (dfnum, d(x.parent), d(x.semi), d(im))
    guard('lt', lt_run)
    guard('reach', lambda: [[v for v in range(n) if g.can_reach(ns[u], ns[v])] for u in range(n)])
    sinks = [x for x in range(n) if not succ[x]]
    out['pdom'] = {}
    for x in sinks:
        def pd(x=x):
            g2, ns2 = build(succ, exit_node=x)
            idx2 = {node: i for i, node in enumerate(ns2)}
            rows = [[d for d in range(n) if g2.post_dominates(ns2[d], ns2[w])] for w in range(n)]
            ip = []
            for w in ns2:
                try:
                    r = g2.get_immediate_post_dominator(w)
                    ip.append(idx2[r] if r is not None else None)
                except KeyError:      # no entry: only legitimate for nodes that cannot reach the exit (masked later)
                    ip.append('missing')
            return rows, ip
        try:
            out['pdom'][x] = pd()
        except Exception as ex:  # noqa: BLE001
            out['pdom'][x] = ('exception', '%s: %s' % (type(ex).__name__, ex))
    return out


# ---------------------------------------------------------------- independent oracle (path enumeration)
def simple_paths(succ, a, b):
    out = []

    def rec(u, path, onpath):
        if u == b:
            out.append(frozenset(onpath))
            return
        for v in succ[u]:
            if v not in onpath:
                path.append(v)
                onpath.add(v)
                rec(v, path, onpath)
                onpath.discard(v)
                path.pop()
    rec(a, [a], {a})
    return out


def oracle(succ):
    """definitions by brute force. For n <= 6: intersect all simple paths (a vertex lies on every walk iff it lies on
    every simple path); larger: node removal + search. All nodes are assumed reachable."""
    n = len(succ)
    dom = []     # dom[w] = set of dominators
    if n <= 6:
        for w in range(n):
            ps = simple_paths(succ, 0, w)
            dom.append(set.intersection(*[set(p) for p in ps]))
    else:
        dom = [set() for _ in range(n)]
        for d in range(n):
            r = reach_from(succ, 0, removed=d)
            for w in range(n):
                if w not in r:
                    dom[w].add(d)
    idom = [None] * n
    for w in range(1, n):
        sd = dom[w] - {w}
        c = [d for d in sd if all(x in dom[d] for x in sd)]
        idom[w] = c[0] if len(c) == 1 else ('ambiguous', c)
    dom_rows = [[w for w in range(n) if d in dom[w]] for d in range(n)]
    sdom_rows = [[w for w in range(n) if d in dom[w] and d != w] for d in range(n)]
    df = [sorted(y for y in range(n)
                 if any(y in succ[p] and x in dom[p] for p in range(n)) and not (x in dom[y] and x != y))
          for x in range(n)]
    reach = [sorted(set().union(*[reach_from(succ, s) for s in succ[u]])) if succ[u] else [] for u in range(n)]
    pdom = {}
    for x in range(n):
        if succ[x]:
            continue
        rows = []
        for w in range(n):
            if n <= 6:
                ps = simple_paths(succ, w, x)
                rows.append(sorted(set.intersection(*[set(p) for p in ps])) if ps else list(range(n)))
            else:
                rows.append([d for d in range(n) if x not in reach_from(succ, w, removed=d)])
        canreach = [x in reach_from(succ, w) for w in range(n)]
        ip = []
        for w in range(n):
            sp = [d for d in rows[w] if d != w]
            c = [d for d in sp if all(e in rows[d] for e in sp)]
            ip.append(c[0] if c else None)
        pdom[x] = (rows, ip, canreach)
    return {'idom': idom, 'dom': dom_rows, 'sdom': sdom_rows, 'df': df, 'reach': reach, 'pdom': pdom}


def compare_with_oracle(ctx, succ, ans=None):
    """returns number of comparisons; reports violations"""
    ans = ans or impl_answers(succ)
    ref = oracle(succ)
    k = 0
    for name in ('idom', 'dom', 'sdom', 'df', 'reach'):
        k += 1
        if ans[name] != ref[name]:
            report(ctx, name, succ, ref[name], ans[name])
    for x, r in ref['pdom'].items():
        got = ans['pdom'].get(x)
        k += 1
        if isinstance(got, tuple) and got and got[0] == 'exception':
            report(ctx, 'post_dominates', succ, r[0], got, exit_node=x)
            continue
        rows, ip = got
        if rows != r[0]:
            report(ctx, 'post_dominates', succ, r[0], rows, exit_node=x)
        # immediate post dominator: compared where the node can reach the exit
        exp = [r[1][w] if r[2][w] else None for w in range(len(succ))]
        act = [ip[w] if r[2][w] else None for w in range(len(succ))]
        if exp != act:
            report(ctx, 'get_immediate_post_dominator', succ, exp, act, exit_node=x)
    return k


def report(ctx, fn, succ, expected, actual, exit_node=None):
    rec = {'fn': fn, 'args': [succ], 'entry': 0, 'expected': expected, 'actual': actual,
           'how_to_replay': 'PYTHONPATH=$VERIF_REPO:/verif/tools /venv/bin/python -c "from props import c25; '
                            'print(c25.impl_answers(%r))"' % (succ,)}
    if exit_node is not None:
        rec['exit'] = exit_node
    ctx.violation(rec)


# ---------------------------------------------------------------- Coq cases
def lit(x):
    if x is None:
        return 'None'
    if isinstance(x, list):
        return '[%s]' % '; '.join(lit(y) for y in x)
    return str(x)


def optlit(l):
    return '[%s]' % '; '.join('None' if v is None else 'Some %d' % v for v in l)


def is_exc(v):
    return isinstance(v, tuple) and len(v) == 2 and v[0] == 'exception'


def coq_cases(succ, ans):
    """(coq term, python value, label) triples for one graph"""
    from vlib import OkV, Internal
    G = lit(succ)
    n = len(succ)
    cs = []

    def val(v):
        return Internal if is_exc(v) else v

    idom = ans['idom']
    if is_exc(idom):
        cs.append(('(idom_list %s 0, true)%%nat' % G, Internal, 'idom'))
    else:
        T = optlit(idom)
        # reference idom + verified certificate checker on the implementation's map
        cs.append(('(idom_list %s 0, check_idom %s 0 %s)%%nat' % (G, G, T), (idom, True), 'idom+certificate'))
        # hand models on the implementation's idom map
        iv = ans['intervals']
        cs.append(('(intervals_by_node %s 0 %s)%%nat' % (G, T), Internal if is_exc(iv) else OkV(iv), 'model:intervals'))
        df = ans['df']
        cs.append(('(df_by_node %s 0 %s)%%nat' % (G, T), Internal if is_exc(df) else OkV(df), 'model:cytron_df'))
    ltr = ans.get('lt')
    if ltr is not None:
        if is_exc(ltr):
            cs.append(('(lt_idom %s (preds_of %s) 0)%%nat' % (G, G), Internal, 'model:lengauer_tarjan'))
        else:
            sord, pord, arrays = ltr
            cs.append(('(lt_compute %s %s 0)%%nat' % (lit(sord), lit(pord)), OkV(arrays), 'model:lengauer_tarjan'))
    cs.append(('(dom_rows %s 0, sdom_rows %s 0)%%nat' % (G, G),
               Internal if is_exc(ans['dom']) or is_exc(ans['sdom']) else (ans['dom'], ans['sdom']),
               'dominates/strictly_dominates'))
    cs.append(('(df_list %s 0)%%nat' % G, val(ans['df']), 'dominance_frontier'))
    cs.append(('(reach_rows %s, calculate_reach %d %s)%%nat' % (G, n * n + 2, G),
               Internal if is_exc(ans['reach']) else (ans['reach'], OkV(ans['reach'])), 'can_reach+model'))
    for x, got in sorted(ans['pdom'].items()):
        if n > PDOM_COQ_MAX:      # n^2 searches in the reference: larger graphs go to the Python oracle only
            break
        if is_exc(got):
            cs.append(('(pdom_rows %s %d)%%nat' % (G, x), Internal, 'post_dominates'))
            continue
        rows, ip = got
        cs.append(('(pdom_rows %s %d, post_dominators %d %s %d)%%nat' % (G, x, n * n + 2, G, x),
                   (rows, OkV(rows)), 'post_dominates+model'))
        # ipdom only where the exit is reachable (elsewhere every node post-dominates vacuously)
        canreach = [x in reach_from(succ, w) for w in range(n)]
        mask = '[%s]' % '; '.join('true' if c else 'false' for c in canreach)
        cs.append(('(mask_opt %s (ipdom_list %s %d))%%nat' % (mask, G, x),
                   [ip[w] if canreach[w] else None for w in range(n)], 'immediate_post_dominator'))
    return cs


def nontrivial(succ, ans):
    n = len(succ)
    if n < 3 or is_exc(ans['idom']) or is_exc(ans['df']):
        return False
    return any(v not in (None, 0) for v in ans['idom']) or any(d for d in ans['df'] if d)


# ---------------------------------------------------------------- run
def graph_sets(ctx, deep):
    """returns (oracle_graphs, coq_graphs)"""
    rng = ctx.rng
    small = []
    for n in (1, 2, 3):
        small += [s for s in all_digraphs(n, True) if all_reachable(s)]
    four = [s for s in all_digraphs(4, deep) if all_reachable(s)]
    rnd = []
    sizes = [5, 6, 7, 8, 10, 12, 16, 24, 32, 40]
    per = 40 if deep else 10
    for n in sizes:
        for _ in range(per):
            rnd.append(random_graph(rng, n))
    five = []
    if deep:
        pairs = [(u, v) for u in range(5) for v in range(5) if u != v]
        # canonical forms: a seeded third of the 2^20 masks is scanned for canonical representatives
        for mask in range(1 << 20):
            if mask % 3 != ctx.seed % 3:
                continue
            s = succ_lists(5, [p for i, p in enumerate(pairs) if mask >> i & 1])
            if s[0] and all_reachable(s) and canonical5(s):
                five.append(s)
    if deep:     # coqc budget: samples of the big exhaustive families, everything goes to the oracle
        coq = small + rng.sample(four, min(3000, len(four))) + rng.sample(five, min(1500, len(five))) + rnd
    else:
        sample = rng.sample(four, min(500, len(four)))
        coq = small + sample + rnd
    return small + four + five + rnd, coq


def out_of_scope_probe(ctx):
    """documented behaviour outside the property (nodes unreachable from the entry): recorded, never a violation"""
    notes = {}
    for name, succ in (('unreachable_with_edge_into_reachable', [[1], [], [1]]),
                       ('unreachable_isolated', [[1], [], []])):
        a = impl_answers(succ)
        notes[name] = {k: (v[1][:60] if is_exc(v) else 'ok') for k, v in a.items() if k != 'pdom'}
    ctx.cov['stages']['out_of_scope_unreachable_nodes'] = notes


def search(ctx, graphs=None):
    import importlib
    from vlib import ensure_repo_on_path
    ensure_repo_on_path()
    for m in ('ppci.graph.lt', 'ppci.graph.cfg', 'ppci.graph.algorithm.fixed_point_dominator'):
        importlib.import_module(m)
    if graphs is None:
        graphs, _ = graph_sets(ctx, not ctx.quick())
    k = 0
    for succ in graphs:
        k += compare_with_oracle(ctx, succ)
        if len(ctx.violations) >= 20:
            break
    ctx.cov['stages']['oracle_sweep'] = {'graphs': len(graphs), 'comparisons': k}
    ctx.cov['evaluations'] += k


def with_coqchk_off(fn):
    import os
    prev = os.environ.get('VERIF_COQCHK')
    os.environ['VERIF_COQCHK'] = '0'
    try:
        return fn()
    finally:
        if prev is None:
            os.environ.pop('VERIF_COQCHK', None)
        else:
            os.environ['VERIF_COQCHK'] = prev


def lt_shards5(ctx):
    """thorough tier: the LT model equals the reference on all 16^5 loop-free 5-node graphs (16 vm_compute shards)"""
    import subprocess
    import time
    from vlib import COQ, strip_noise
    t0 = time.time()
    procs = []
    for k in range(16):
        path = '%s/lt5_shard_%d.v' % (ctx.work, k)
        with open(path, 'w') as f:
            f.write('From PV Require Import Lib.Py Spec.CfgSpec Model.DomRef Model.DomTree Model.LengauerTarjan Proofs.C25_lt.\n'
                    'Close Scope Z_scope. Open Scope nat_scope.\n'
                    'Lemma lt5_shard_%d : forallb chk_lt (shard5 %d) = true.\n'
                    'Proof. vm_cast_no_check (eq_refl true). Qed.\n' % (k, k))
        procs.append((k, path))
    failed = []
    running = []
    pending = list(procs)
    while pending or running:
        while pending and len(running) < 8:
            k, path = pending.pop(0)
            pr = subprocess.Popen(['bash', '-c', 'ulimit -s unlimited 2>/dev/null; exec timeout 900 coqc -Q %s PV %s' % (COQ, path)],
                                  stdout=subprocess.PIPE, stderr=subprocess.STDOUT, text=True, cwd=ctx.work)
            running.append((k, pr))
        k, pr = running.pop(0)
        out, _ = pr.communicate()
        if pr.returncode != 0:
            failed.append(k)
            ctx.log('lt5 shard %d failed:' % k, strip_noise(out)[-400:])
    ctx.cov['stages']['lt_model_5_nodes_loop_free'] = {'shards': 16, 'graphs': 16 ** 5, 'failed': failed,
                                                        'wall_s': round(time.time() - t0, 1)}
    if failed:
        ctx.failed_stages.append(('lt_bounded5', 'LT model differs from the reference on 5-node shards %r' % failed))


def regen(ctx):
    return None   # hand models; nothing generated


def run(ctx):
    deep = not ctx.quick()
    ok, _ = ctx.build(['Proofs/C25_ref.vo', 'Proofs/C25_cert.vo', 'Proofs/C25_intervals.vo',
                       'Proofs/C25_bounded.vo', 'Proofs/C25_lt.vo', 'Proofs/C25_complete.vo', 'Proofs/C25_compose.vo',
                       'Proofs/C25_pdom.vo', 'Proofs/C25_reach.vo', 'Proofs/C25_tree.vo', 'Proofs/C25_term.vo', 'Proofs/C25_df.vo', 'Lib/Val.vo'])
    if ok:
        ctx.check_props('Props/C25.v')          # unbounded theorems; thorough tier also runs coqchk on it
        # bounded vm_compute families: coqc + Print Assumptions only (coqchk would re-evaluate ~2 minutes of
        # vm_compute with its slower machine: ~9 minutes, outside the tier budget)
        with_coqchk_off(lambda: ctx.check_props('Props/C25_bounded.v'))
    if ok and deep:
        # all 16^5 loop-free 5-node graphs: 16 shard files built in parallel by make (cached afterwards)
        import time
        t0 = time.time()
        if ctx.build(['Proofs/C25_lt5.vo'], timeout=1500)[0]:
            with_coqchk_off(lambda: ctx.check_props('Props/C25_thorough.v'))
        ctx.cov['stages']['lt_model_5_nodes_loop_free'] = {'shards': 16, 'graphs': 16 ** 5,
                                                            'wall_s': round(time.time() - t0, 1)}
        ctx.cov['stages']['coqchk_skipped'] = ('Props/C25_bounded.v, Props/C25_thorough.v (vm_compute families; '
                                               'coqc-checked); coqchk runs on Props/C25.v')
    oracle_graphs, coq_graphs = graph_sets(ctx, deep or bool(ctx.failed_stages))
    # ---- correspondence with the verified reference / certificate checker / hand models
    if ctx.build(['Model/DomTree.vo', 'Model/LengauerTarjan.vo', 'Lib/Val.vo'])[0]:
        cases, meta = [], []
        dist = {}
        nt = 0
        answers = {}
        for succ in coq_graphs:
            ans = impl_answers(succ)
            answers[id(succ)] = ans
            if nontrivial(succ, ans):
                nt += 1
            dist[len(succ)] = dist.get(len(succ), 0) + 1
            for (term, value, label) in coq_cases(succ, ans):
                cases.append((term, value))
                meta.append((succ, label))
        ctx.cov['distinct_nontrivial'] += nt
        ctx.cov['stages']['coq_graphs_by_size'] = dist
        for succ in coq_graphs[:: max(1, len(coq_graphs) // 6)]:
            a = answers[id(succ)]
            ctx.note_sample({'graph': repr(succ), 'idom': repr(a['idom']), 'df': repr(a['df'])})
        bad = ctx.run_cases('cfg', COQ_IMPORTS, cases)
        if bad:
            seen = set()
            for i in bad:
                succ, label = meta[i]
                ctx.log('reference/implementation disagree:', label, succ)
                if repr(succ) not in seen:
                    seen.add(repr(succ))
                    nv = len(ctx.violations)
                    compare_with_oracle(ctx, succ)
                    if len(ctx.violations) == nv:
                        # the Coq side disagrees but the Python oracle does not: report with the label
                        report(ctx, label, succ, 'Coq reference / model (see evidence log)', 'differs')
                if len(seen) >= 10:
                    break
            ctx.failed_stages.append(('correspondence', '%d cases disagree, first: %s on %r'
                                      % (len(bad), meta[bad[0]][1], meta[bad[0]][0])))
    # ---- independent oracle sweep (exhaustive small graphs)
    search(ctx, oracle_graphs)
    out_of_scope_probe(ctx)
    ctx.cov['exhaustive'] = False


def replay(rec):
    from vlib import ensure_repo_on_path
    ensure_repo_on_path()
    succ = rec['args'][0]
    print('graph', succ)
    print('implementation', impl_answers(succ))
    print('oracle', oracle(succ))
    return 0
