"""C12 — the linker places sections correctly and preserves their contents (DESIGN §4 C12).

tie H: coq/Model/Linker.v mirrors api.link / Linker.link up to and including
check_undefined_symbols (inject_object, merge_global_symbol, inject_symbol, layout_sections,
Image.data); Props/C12.v states unbounded theorems about that model. This module
  * runs model and implementation on the same generated link jobs and compares the whole output
    object field by field (ctx.run_cases),
  * runs an oracle that is independent of the model: Python assertions of the Spec on the real
    linker's output (alignment, containment, disjointness, content preservation, symbol shift,
    image bytes, error exactness),
  * re-executes the recorded witnesses of the extra hypotheses the proofs needed.
"""
import json
import os
import random
import re

from vlib import OkV, Diag, Internal, coq_str, coq_z

LEVEL = 'proof'
RULE = ('link jobs: 1-4 generated objects (section names from a pool of 4 so that merges happen, sizes 0-70, '
        'alignments 1-64 powers of two and not, local/global/undefined symbols with duplicate definitions, '
        'relocations, entry ids) x {partial link, final link without layout, final link with a generated layout '
        '(1-3 memories, Section/SectionData/SymbolDefinition/Align inputs, memory sizes tight around the measured '
        'image size)} plus a small malformed stream (alignment 0/negative, dangling section names, sections placed '
        'twice); non-trivial = distinct job whose objects contain at least two non-empty input sections and whose '
        'implementation outcome is a linked object (not an exception)')
EXPLANATION = ('Unbounded Coq theorems (all object lists, all layouts, both settings of the fix switches fix_twice/fix_abs) about the hand model of inject_object, '
               'layout_sections, check_undefined_symbols and Image.data; the model is compared with the real '
               'linker on every run (whole output object). do_relaxations/do_relocations are not modelled (C13, '
               'C11): final links are compared either for relocation-free inputs through ppci.api.link, or with '
               'those two methods stubbed out in a Linker subclass.')
TRUSTED = ['coq/Model/Linker.v is a hand model; agreement with ppci.binutils.linker is checked differentially on every '
           'run (whole output object, ~300 links quick / ~3000 thorough), not proved',
           'Python int/bytearray/dict semantics as described in the header of Model/Linker.v',
           'tools/props/c12.py renderers (ObjectFile -> Coq term / val)']
ASSUMPTIONS = ['debug info, libraries, use_runtime are not modelled',
               'relocation application and relaxation are outside C12 (C11, C13)',
               'input objects are built through the ObjectFile API (unique symbol ids and unique global names per object)']

SEC_POOL = ['code', 'data', 'bss', 'rom']
GLOB_POOL = ['main', 'foo', 'bar', 'baz', 'qux']
RELOC_TYPES = ['abs32', 'rel8', 'b_imm24']
POW2 = [1, 2, 4, 8, 16, 32, 64]


# ------------------------------------------------------------------ generator
def gen_alignment(rng, malformed):
    r = rng.random()
    if malformed and r < 0.25:
        return rng.choice([0, -1, -4, -3])
    if r < 0.7:
        return rng.choice(POW2)
    return rng.randrange(1, 65)


def gen_object(rng, idx, malformed, taken):
    nsec = rng.choice([0, 1, 1, 2, 2, 3])
    names = rng.sample(SEC_POOL, nsec)
    if names and rng.random() < 0.04:
        names.append(rng.choice(names))          # duplicate section name in one object (add_section)
    sections = []
    for n in names:
        size = rng.choice([0, 0, 1, 2, 3, 4, 5, 7, 8, 9, rng.randrange(0, 71), rng.randrange(0, 71), 70])
        sections.append({'name': n, 'alignment': gen_alignment(rng, malformed and rng.random() < 0.3),
                         'data': [rng.randrange(256) for _ in range(size)],
                         'address': rng.choice([0, 0, 0, 16])})
    symbols = []
    used_glob = set()
    nsym = rng.choice([0, 1, 2, 2, 3, 4, 5])
    ids = list(range(nsym))
    if rng.random() < 0.15:
        base = rng.randrange(0, 50)
        ids = [base + 3 * i for i in ids]
        rng.shuffle(ids)
    for k in range(nsym):
        kind = rng.choice(['ldef', 'ldef', 'gdef', 'gdef', 'gdef', 'gundef', 'gundef', 'lundef'])
        if kind.endswith('def') and not kind.endswith('undef') and not sections:
            kind = 'gundef'
        if kind.startswith('g'):
            cand = [g for g in GLOB_POOL if g not in used_glob]
            if not cand:
                continue
            fresh = [g for g in cand if g not in taken]
            name = rng.choice(fresh) if fresh and rng.random() < 0.7 else rng.choice(cand)
            used_glob.add(name)
            if kind == 'gdef':
                taken.add(name)
            binding = 'global'
        else:
            name = 'l%d_%d' % (idx, k)
            binding = rng.choice(['local', 'local', 'weak']) if rng.random() < 0.1 else 'local'
        if kind in ('ldef', 'gdef'):
            sec = rng.choice(sections)
            value = rng.choice([0, len(sec['data']), rng.randrange(0, len(sec['data']) + 1)])
            secname = sec['name']
            if malformed and rng.random() < 0.08:
                secname = rng.choice(['nowhere', None])
            elif rng.random() < 0.02:
                secname = None          # absolute symbol (as produced by extra_symbols in a partial link)
        else:
            value, secname = None, None
        symbols.append({'id': ids[k], 'name': name, 'binding': binding, 'value': value, 'section': secname,
                        'typ': rng.choice(['func', 'object']), 'size': rng.choice([0, 0, 4, 8])})
    relocs = []
    if sections and symbols:
        for _ in range(rng.choice([0, 0, 1, 2])):
            sec = rng.choice(sections)
            sid = rng.choice(symbols)['id']
            secname = sec['name']
            if malformed and rng.random() < 0.08:
                sid = 999
            if malformed and rng.random() < 0.05:
                secname = 'nowhere'
            relocs.append({'type': rng.choice(RELOC_TYPES), 'symbol_id': sid, 'section': secname,
                           'offset': rng.randrange(0, len(sec['data']) + 1), 'addend': rng.choice([0, 0, 4, -4])})
    entry = None
    if symbols and rng.random() < 0.08:
        entry = rng.choice(symbols)['id']
    return {'sections': sections, 'symbols': symbols, 'relocations': relocs, 'entry': entry}


def gen_layout(rng, malformed):
    mems = []
    nmem = rng.choice([1, 1, 2, 2, 3])
    mnames = ['flash', 'ram', 'rom2']
    avail = SEC_POOL + ['unused']
    rng.shuffle(avail)
    loc = rng.choice([0, 0, 0x100, 0x8000, 3, 0x20000000, rng.randrange(0, 5000)])
    for k in range(nmem):
        inputs = []
        for _ in range(rng.choice([1, 2, 2, 3, 4, 5])):
            r = rng.random()
            if r < 0.5:
                if avail and not (malformed and rng.random() < 0.3):
                    inputs.append(['section', avail.pop()])
                elif malformed:
                    inputs.append(['section', rng.choice(SEC_POOL)])       # possibly placed twice
            elif r < 0.65:
                inputs.append(['sectiondata', rng.choice(SEC_POOL if not malformed else SEC_POOL + ['nowhere'])])
            elif r < 0.8:
                inputs.append(['symdef', rng.choice(['_end', 'heap', 'stack'] + (GLOB_POOL[:2] if rng.random() < 0.3 else []))])
            else:
                a = rng.choice(POW2 + [3, 5, 12, rng.randrange(1, 65)])
                if malformed and rng.random() < 0.2:
                    a = rng.choice([0, -2])
                inputs.append(['align', a])
        name = mnames[k] if not (malformed and rng.random() < 0.1) else 'flash'
        mems.append({'name': name, 'location': loc, 'size': 0x10000, 'inputs': inputs})
        loc += rng.choice([0x400, 0x800, 64, 0x100])      # gaps stay small: Image.data of a misplaced section is rendered as a list literal
    # SectionData / SymbolDefinition names must be unique for the asserts to pass; keep first uses
    if not malformed:
        seen = set()
        for m in mems:
            keep = []
            for i in m['inputs']:
                if i[0] in ('sectiondata', 'symdef'):
                    if i[1] in seen:
                        continue
                    seen.add(i[1])
                keep.append(i)
            m['inputs'] = keep
    entry = rng.choice(GLOB_POOL) if rng.random() < 0.1 else None
    return {'memories': mems, 'entry': entry}


def gen_case(rng, kind=None):
    malformed = rng.random() < 0.12
    nobj = rng.choice([1, 2, 2, 3, 3, 4])
    taken = set()
    objs = [gen_object(rng, i, malformed, taken) for i in range(nobj)]
    mode = kind or rng.choice(['partial', 'partial', 'final', 'layout', 'layout', 'layout'])
    case = {'objects': objs, 'layout': None, 'partial': mode == 'partial', 'entry': None, 'extra': [],
            'stub_relocs': True, 'malformed': malformed}
    if mode == 'layout' or (mode == 'partial' and malformed and rng.random() < 0.1):
        case['layout'] = gen_layout(rng, malformed)
    if rng.random() < 0.08:
        case['entry'] = rng.choice(GLOB_POOL)
    if rng.random() < 0.1:
        case['extra'] = [[n, rng.randrange(0, 1000)] for n in rng.sample(GLOB_POOL + ['ext'], rng.choice([1, 2]))]
    if not case['partial'] and rng.random() < 0.5:
        # relocation-free final link through the unmodified ppci.api.link
        for o in objs:
            o['relocations'] = []
        # undefined local symbols would make do_relocations irrelevant anyway (no relocations)
        case['stub_relocs'] = False
    if not case['partial']:
        # make final links succeed more often: drop undefined globals with probability 1/2
        if rng.random() < 0.75:
            defined = {s['name'] for o in objs for s in o['symbols'] if s['binding'] == 'global' and s['value'] is not None}
            for o in objs:
                used = {r['symbol_id'] for r in o['relocations']}
                o['symbols'] = [s for s in o['symbols'] if not (s['binding'] == 'global' and s['value'] is None
                                                                and s['name'] not in defined
                                                                and s['id'] not in used and s['id'] != o['entry'])]
    return case


def tighten(case, rng):
    """choose memory sizes around the image sizes measured on a run with huge memories"""
    if not case['layout'] or case['partial']:
        return
    out = run_impl(case)
    sizes = {}
    if isinstance(out, OkV):
        for img in out.v[3]:
            if isinstance(img[3], OkV):
                sizes.setdefault(img[0], len(img[3].v))
    for m in case['layout']['memories']:
        s = sizes.get(m['name'])
        if s is None:
            m['size'] = rng.choice([0x10000, rng.randrange(0, 300)])
        else:
            m['size'] = rng.choice([s, s, s - 1, s + 1, 0x10000, max(0, s - rng.randrange(0, 8)), rng.randrange(0, 300)])


# ------------------------------------------------------------------ implementation side
_ARCH = None


def arch():
    global _ARCH
    if _ARCH is None:
        from ppci.api import get_arch
        _ARCH = get_arch('arm')
    return _ARCH


def build_object(spec):
    from ppci.binutils.objectfile import ObjectFile, Section, RelocationEntry
    o = ObjectFile(arch())
    seen = set()
    for s in spec['sections']:
        if s['name'] in seen:
            sec = Section(s['name'])
            o.add_section(sec)
        else:
            sec = o.get_section(s['name'], create=True)
        seen.add(s['name'])
        sec.alignment = s['alignment']
        sec.address = s['address']
        sec.add_data(bytes(s['data']))
    for y in spec['symbols']:
        o.add_symbol(y['id'], y['name'], y['binding'], y['value'], y['section'], y['typ'], y['size'])
    for r in spec['relocations']:
        # add_relocation asserts has_section; dangling names are appended the way deserialisers of
        # foreign formats would (the list is public)
        rel = RelocationEntry(r['type'], r['symbol_id'], r['section'], r['offset'], r['addend'])
        if o.has_section(r['section']):
            o.add_relocation(rel)
        else:
            o.relocations.append(rel)
    o.entry_symbol_id = spec['entry']
    return o


def build_layout(spec):
    from ppci.binutils import layout as L
    lay = L.Layout()
    for m in spec['memories']:
        mem = L.Memory(m['name'])
        mem.location = m['location']
        mem.size = m['size']
        for kind, arg in m['inputs']:
            mem.add_input({'section': L.Section, 'sectiondata': L.SectionData, 'symdef': L.SymbolDefinition,
                           'align': L.Align}[kind](arg))
        lay.add_memory(mem)
    if spec['entry']:
        lay.entry = L.EntrySymbol(spec['entry'])
    return lay


def obj_value(o):
    secs = [(s.name, s.address, s.alignment, bytes(s.data)) for s in o.sections]
    syms = [(y.id, y.name, y.binding, y.value, y.section, y.typ, y.size) for y in o.symbols]
    rels = [(r.reloc_type, r.symbol_id, r.section, r.offset, r.addend) for r in o.relocations]
    imgs = []
    for i in o.images:
        try:
            d = OkV(bytes(i.data))
        except Exception:   # noqa: BLE001  (ValueError "sections overlap!!")
            d = Internal
        imgs.append((i.name, i.address, [s.name for s in i.sections], d))
    return (secs, syms, rels, imgs, o.entry_symbol_id)


def link_impl(case):
    """the real linker; returns the linked ObjectFile or raises"""
    import logging
    from ppci.binutils import linker as lk
    logging.getLogger('linker').setLevel(logging.CRITICAL)
    objs = [build_object(s) for s in case['objects']]
    lay = build_layout(case['layout']) if case['layout'] else None
    extra = dict((n, v) for n, v in case['extra']) if case['extra'] else None
    if case['stub_relocs']:
        class StubLinker(lk.Linker):
            def do_relaxations(self):
                pass

            def do_relocations(self):
                pass
        if not objs:
            raise ValueError('no objects')
        return StubLinker(arch()).link(objs, layout=lay, partial_link=case['partial'], extra_symbols=extra,
                                       entry_symbol_name=case['entry'])
    return lk.link(objs, layout=lay, partial_link=case['partial'], extra_symbols=extra, entry=case['entry'])


def run_impl(case):
    from ppci.common import CompilerError
    try:
        return OkV(obj_value(link_impl(case)))
    except CompilerError:
        return Diag
    except Exception:   # noqa: BLE001
        return Internal


# ------------------------------------------------------------------ model side (Coq terms)
def t_opt(v, f):
    return 'None' if v is None else '(Some %s)' % f(v)


def t_list(xs):
    return '[%s]' % '; '.join(xs)


def t_obj(o):
    secs = ['(mkSect %s %s %s %s)' % (coq_str(s['name']), coq_z(s['address']), coq_z(s['alignment']),
                                      t_list(str(b) for b in s['data'])) for s in o['sections']]
    syms = ['(mkSym %s %s %s %s %s %s %s)' % (coq_z(y['id']), coq_str(y['name']), coq_str(y['binding']),
                                              t_opt(y['value'], coq_z), t_opt(y['section'], coq_str),
                                              coq_str(y['typ']), coq_z(y['size'])) for y in o['symbols']]
    rels = ['(mkReloc %s %s %s %s %s)' % (coq_str(r['type']), coq_z(r['symbol_id']), coq_str(r['section']),
                                          coq_z(r['offset']), coq_z(r['addend'])) for r in o['relocations']]
    return '(mkObj %s %s %s [] %s)' % (t_list(secs), t_list(syms), t_list(rels), t_opt(o['entry'], coq_z))


def t_layout(l):
    mems = []
    for m in l['memories']:
        ins = []
        for kind, arg in m['inputs']:
            if kind == 'align':
                ins.append('IAlign %s' % coq_z(arg))
            else:
                ins.append('%s %s' % ({'section': 'ISection', 'sectiondata': 'ISectionData', 'symdef': 'ISymDef'}[kind],
                                      coq_str(arg)))
        mems.append('(mkMem %s %s %s %s)' % (coq_str(m['name']), coq_z(m['location']), coq_z(m['size']), t_list(ins)))
    return '(mkLayout %s %s)' % (t_list(mems), t_opt(l['entry'], coq_str))


FLAGS = {'twice': False, 'abs': False, 'sd': False}      # set by probe_flags(): which proposed fixes the tree under test contains


def probe_flags():
    """one minimal witness per proposed fix: is the defect still present in the implementation?"""
    w = {wid: case for wid, _, case, _ in witnesses()}
    FLAGS['twice'] = run_impl(w['section-in-two-memories']) is Diag
    FLAGS['abs'] = not relink_fails(w['relink-absolute-symbol'])
    FLAGS['sd'] = not sectiondata_stale()
    return dict(FLAGS)


def relink_fails(case):
    from ppci.binutils import linker as lk
    try:
        first = link_impl(case)
    except Exception:   # noqa: BLE001
        return False
    try:
        lk.link([first], partial_link=True)
        return False
    except KeyError:
        return True
    except Exception:   # noqa: BLE001
        return False


def model_term(case):
    return 'link (mk_lcfg %s %s) %s %s %s %s %s' % (
        'true' if FLAGS['twice'] else 'false', 'true' if FLAGS['abs'] else 'false',
        t_list(t_obj(o) for o in case['objects']),
        t_opt(case['layout'], t_layout), 'true' if case['partial'] else 'false',
        t_opt(case['entry'], coq_str),
        t_list('(%s, %s)' % (coq_str(n), coq_z(v)) for n, v in case['extra']))


# ------------------------------------------------------------------ oracle (independent of the model)
def align_up(x, a):
    return -((-x) // a) * a


def wellformed(case):
    """jobs on which the Spec makes a definite prediction"""
    placed = []
    if not case['objects']:
        return False
    for o in case['objects']:
        names = [s['name'] for s in o['sections']]
        if len(set(names)) != len(names):
            return False
        if any(s['alignment'] <= 0 for s in o['sections']):
            return False
        for y in o['symbols']:
            if y['value'] is not None and y['section'] not in names:
                if not (y['section'] is None and FLAGS['abs']):
                    return False
        ids = {y['id'] for y in o['symbols']}
        for r in o['relocations']:
            if r['section'] not in names or r['symbol_id'] not in ids:
                return False
    if case['partial'] and case['layout']:
        return False
    if case['layout']:
        allsecs = {s['name'] for o in case['objects'] for s in o['sections']}
        mnames = [m['name'] for m in case['layout']['memories']]
        if len(set(mnames)) != len(mnames):
            return False
        for m in case['layout']['memories']:
            for kind, arg in m['inputs']:
                if kind == 'align':
                    if arg <= 0:
                        return False
                elif kind == 'section':
                    if arg in placed and not FLAGS['twice']:
                        return False
                    placed.append(arg)
                else:
                    if '_$%s_' % arg in placed:
                        return False
                    placed.append('_$%s_' % arg)
                    if kind == 'sectiondata' and arg not in allsecs:
                        return False
    return True


def expected_errors(case):
    """independent prediction of the CompilerError causes, from the inputs alone"""
    causes = set()
    defs = [n for n, _ in case['extra']]
    ename = case['entry'] or (case['layout'] and case['layout']['entry']) or None
    refs = [ename] if ename else []
    if ename and ename in defs:
        causes.add('already-defined')
    for o in case['objects']:
        for y in o['symbols']:
            if y['binding'] == 'global':
                (defs if y['value'] is not None else refs).append(y['name'])
    nent = sum(1 for o in case['objects'] if o['entry'] is not None) + (1 if ename else 0)
    if nent > 1:
        causes.add('multiple-entry')
    if case['layout'] and not case['partial']:
        placed = []
        for m in case['layout']['memories']:
            for kind, arg in m['inputs']:
                if kind == 'symdef':
                    defs.append(arg)
                if kind == 'section':
                    if arg in placed and FLAGS['twice']:
                        causes.add('placed-twice')
                    placed.append(arg)
    if len(set(defs)) != len(defs):
        causes.add('multiple-defined')
    if not case['partial'] and set(refs) - set(defs):
        causes.add('undefined')
    if case['layout'] and not case['partial']:
        # closed-form placement (no loops): size and alignment of every merged section
        size, al = {}, {}
        for o in case['objects']:
            for s in o['sections']:
                cur = align_up(size.get(s['name'], 0), s['alignment'])
                size[s['name']] = cur + len(s['data'])
                al[s['name']] = max(al.get(s['name'], 4), s['alignment'])
        for m in case['layout']['memories']:
            cur = m['location']
            end = m['location']
            for kind, arg in m['inputs']:
                if kind == 'section':
                    cur = align_up(cur, al.get(arg, 4))
                    cur += size.get(arg, 0)
                    end = cur
                elif kind == 'sectiondata':
                    cur += size.get(arg, 0)
                    end = cur
                elif kind == 'symdef':
                    end = cur
                else:
                    cur = align_up(cur, arg)
            if end - m['location'] > m['size']:
                causes.add('memory-exceeded')
    return causes


def spec_check(case, out):
    """assert the Spec on the real linker's outcome. Returns a list of complaint strings."""
    bad = []
    exp = expected_errors(case)
    if out is Internal:
        return ['well-formed link job raised an exception that is not CompilerError']
    if out is Diag:
        if not exp:
            bad.append('CompilerError although no global is defined twice or undefined and every image fits')
        return bad
    if exp:
        return ['link succeeded although the inputs have: ' + ', '.join(sorted(exp))]
    secs, syms, rels, imgs, entry = out.v
    secmap = {s[0]: s for s in secs}
    if len(secmap) != len(secs):
        bad.append('output section names are not unique')
    symbyname = {}
    for y in syms:
        symbyname.setdefault(y[1], []).append(y)
    # ---- content preservation, offsets, symbol shift
    cursor = {}
    nsym_before = (1 if (case['entry'] or (case['layout'] and case['layout']['entry'])) else 0) + len(case['extra'])
    for oi, o in enumerate(case['objects']):
        offs = {}
        # the offset of every input section is implied by the value of its marker symbol
        for s in o['sections']:
            marker = symbyname.get('.m%d_%s' % (oi, s['name']))
            if not marker or len(marker) != 1 or marker[0][3] is None:
                bad.append('marker symbol of object %d section %s is missing/undefined in the output' % (oi, s['name']))
                continue
            off = marker[0][3]
            offs[s['name']] = off
            if marker[0][4] != s['name']:
                bad.append('marker symbol moved to another section')
            osec = secmap.get(s['name'])
            if osec is None:
                bad.append('output section %s missing' % s['name'])
                continue
            if off % s['alignment'] != 0:
                bad.append('object %d section %s placed at offset %d, alignment %d' % (oi, s['name'], off, s['alignment']))
            if bytes(osec[3][off:off + len(s['data'])]) != bytes(s['data']) or off + len(s['data']) > len(osec[3]):
                bad.append('object %d section %s: bytes at offset %d differ from the input' % (oi, s['name'], off))
            prev = cursor.get(s['name'], 0)
            if off < prev:
                bad.append('object %d section %s overlaps the previous contribution' % (oi, s['name']))
            elif any(osec[3][prev:off]) or off - prev >= s['alignment']:
                bad.append('object %d section %s: padding is not minimal zero fill' % (oi, s['name']))
            cursor[s['name']] = off + len(s['data'])
            if osec[2] < s['alignment']:
                bad.append('output section %s alignment %d < input alignment %d' % (s['name'], osec[2], s['alignment']))
        for y in o['symbols']:
            if y['name'].startswith('.m'):
                continue
            cands = symbyname.get(y['name'], [])
            if len(cands) != 1:
                bad.append('symbol %s occurs %d times in the output' % (y['name'], len(cands)))
                continue
            oy = cands[0]
            if oy[2] != y['binding']:
                bad.append('symbol %s changed binding' % y['name'])
            if y['value'] is not None and y['section'] is None:
                if oy[3] != y['value'] or oy[4] is not None:
                    bad.append('absolute symbol %s: expected value %d without section, got %s+%s' % (y['name'], y['value'], oy[4], oy[3]))
            if y['value'] is not None and y['section'] in offs:
                if oy[3] != offs[y['section']] + y['value'] or oy[4] != y['section']:
                    bad.append('symbol %s: expected %s+%d+%d got %s+%s' % (y['name'], y['section'], offs[y['section']],
                                                                       y['value'], oy[4], oy[3]))
        # relocations of this object: shifted by the section's offset, symbol id mapped by name
        for r in o['relocations']:
            iy = [y for y in o['symbols'] if y['id'] == r['symbol_id']][0]
            want_id = symbyname.get(iy['name'], [[None]])[0][0]
            want = (r['type'], want_id, r['section'], offs.get(r['section'], 0) + r['offset'], r['addend'])
            if want not in rels:
                bad.append('relocation %r of object %d not found shifted in the output' % (r, oi))
    for n, s in secmap.items():
        if n in cursor and cursor[n] != len(s[3]):
            bad.append('output section %s has trailing bytes' % n)
    nrel = sum(len(o['relocations']) for o in case['objects'])
    if len(rels) != nrel:
        bad.append('number of relocations %d != %d' % (len(rels), nrel))
    # ---- layout
    if case['layout'] and not case['partial']:
        if len(imgs) != len(case['layout']['memories']):
            bad.append('number of images differs from number of memories')
        for m, img in zip(case['layout']['memories'], imgs):
            lo, hi = m['location'], m['location'] + m['size']
            if img[0] != m['name'] or img[1] != m['location']:
                bad.append('image name/address differ from the memory')
            prev_end = lo
            ref = bytearray()
            for n in img[2]:
                s = secmap[n]
                if s[2] == 0 or s[1] % s[2] != 0:
                    bad.append('section %s at 0x%x violates alignment %d' % (n, s[1], s[2]))
                if not (lo <= s[1] and s[1] + len(s[3]) <= hi):
                    bad.append('section %s [0x%x,+%d) outside memory %s [0x%x,0x%x)' % (n, s[1], len(s[3]), m['name'], lo, hi))
                if s[1] < prev_end:
                    bad.append('section %s overlaps its predecessor in image %s' % (n, m['name']))
                ref += bytes(max(0, s[1] - prev_end)) + bytes(s[3])
                prev_end = max(prev_end, s[1] + len(s[3]))
            if not isinstance(img[3], OkV):
                bad.append('Image.data raised for image %s' % m['name'])
            elif bytes(img[3].v) != bytes(ref):
                bad.append('Image.data of %s is not the gap-filled concatenation of its sections' % m['name'])
            want = [a if k == 'section' else '_$%s_' % a for k, a in m['inputs'] if k != 'align']
            if img[2] != want:
                bad.append('image %s holds sections %r, layout lists %r' % (m['name'], img[2], want))
        # symbols at final address: a SymbolDefinition names the current address
        for m in case['layout']['memories']:
            for kind, a in m['inputs']:
                if kind == 'symdef':
                    c = symbyname.get(a, [])
                    if len(c) != 1 or c[0][3] != 0 or c[0][4] != '_$%s_' % a:
                        bad.append('layout symbol %s not defined at its marker section' % a)
    if not case['partial']:
        for y in syms:
            if y[2] == 'global' and y[3] is None:
                bad.append('undefined global %s in a final link' % y[1])
    return bad


def add_markers(case):
    """one uniquely named local symbol at offset 0 of every input section (oracle handle)"""
    for oi, o in enumerate(case['objects']):
        names = [s['name'] for s in o['sections']]
        if len(set(names)) != len(names):
            continue
        nid = max([y['id'] for y in o['symbols']] + [-1]) + 1
        if any(y['name'].startswith('.m') for y in o['symbols']):
            continue
        for s in o['sections']:
            o['symbols'].append({'id': nid, 'name': '.m%d_%s' % (oi, s['name']), 'binding': 'local', 'value': 0,
                                 'section': s['name'], 'typ': 'object', 'size': 0})
            nid += 1


def replay_cmd(case):
    return "./check C12 --replay <this file>   (or: PYTHONPATH=/repo:/verif/tools python -c 'import json,props.c12 as m; " \
           "print(m.run_impl(json.load(open(FILE))[\"case\"]))')"


def oracle_sweep(ctx, cases, outs):
    n = 0
    for case, out in zip(cases, outs):
        if not wellformed(case):
            continue
        n += 1
        bad = spec_check(case, out)
        if bad:
            key = re.sub(r'(object|section|symbol|image|memory|relocation) [^ :]+', r'\1', bad[0]).split(':')[-1][:60]
            ctx.violation({'fn': 'link', 'key': 'spec:' + re.sub(r'\d+', 'N', key), 'what': bad[:4], 'case': case,
                           'actual': 'Diag' if out is Diag else ('exception' if out is Internal else 'linked'),
                           'how_to_replay': replay_cmd(case)})
    return n


# ------------------------------------------------------------------ witnesses of the extra hypotheses
def sec(name, data, alignment=4):
    return {'name': name, 'alignment': alignment, 'data': list(data), 'address': 0}


def gsym(i, name, section, value):
    return {'id': i, 'name': name, 'binding': 'global', 'value': value, 'section': section, 'typ': 'func', 'size': 0}


def mem(name, loc, size, inputs):
    return {'name': name, 'location': loc, 'size': size, 'inputs': inputs}


def base_case(objs, mems=None, partial=False):
    return {'objects': objs, 'layout': {'memories': mems, 'entry': None} if mems else None, 'partial': partial,
            'entry': None, 'extra': [], 'stub_relocs': False, 'malformed': False}


def witnesses():
    """(id, what, case, predicate on the implementation outcome that means 'still fails')"""
    w = []
    one = {'sections': [sec('code', [1, 2, 3, 4])], 'symbols': [gsym(0, 'main', 'code', 0)], 'relocations': [], 'entry': None}
    # W1: a section named in two memories: the first image no longer contains it where it says
    c = base_case([one], [mem('flash', 0, 0x100, [['section', 'code']]), mem('ram', 0x1000, 0x100, [['section', 'code']])])

    def p1(out):
        if not isinstance(out, OkV):
            return False
        imgs = out.v[3]
        return not isinstance(imgs[0][3], OkV) or len(imgs[0][3].v) > 0x100
    w.append(('section-in-two-memories', 'a section listed in two memories is silently re-addressed; the first image '
              'then exceeds its memory / lies about its contents (no diagnostic)', c, p1))
    # W2: a section the layout never mentions stays at address 0 outside every image, silently
    two = {'sections': [sec('code', [1, 2, 3, 4]), sec('data', [5, 6, 7, 8])], 'symbols': [gsym(0, 'main', 'code', 0)],
           'relocations': [], 'entry': None}
    c = base_case([two], [mem('flash', 0x100, 0x100, [['section', 'code']])])

    def p2(out):
        if not isinstance(out, OkV):
            return False
        return all('data' not in img[2] for img in out.v[3])
    w.append(('section-never-placed', 'a non-empty section that the layout does not mention is dropped from every image '
              'without a diagnostic (its symbols resolve relative to address 0)', c, p2))
    # W3: non-power-of-two alignments: final address of a contribution is not a multiple of its alignment
    a = {'sections': [sec('code', [1], 4)], 'symbols': [gsym(0, 'main', 'code', 0)], 'relocations': [], 'entry': None}
    b = {'sections': [sec('code', [2], 3)], 'symbols': [gsym(0, 'foo', 'code', 0)], 'relocations': [], 'entry': None}
    c = base_case([a, b], [mem('flash', 4, 0x100, [['section', 'code']])])

    def p3(out):
        if not isinstance(out, OkV):
            return False
        s = out.v[0][0]
        foo = [y for y in out.v[1] if y[1] == 'foo'][0]
        return (s[1] + foo[3]) % 3 != 0
    w.append(('alignment-not-multiple', 'input alignments 4 and 3 merged: output alignment max()=4, the alignment-3 '
              'contribution ends at a final address that is not a multiple of 3 (only arises for non-power-of-two alignments)',
              c, p3))
    # W4: relinking a partial link that contains an absolute symbol (extra_symbols): KeyError
    c4 = base_case([one], None, partial=True)
    c4['extra'] = [['ext', 5]]

    def p4(out):
        return False    # evaluated specially (two-stage), see run_witnesses
    w.append(('relink-absolute-symbol', 'inject_object raises KeyError on a defined symbol without section '
              '(as produced by extra_symbols in an earlier partial link)', c4, p4))
    return w


# witnesses that are genuine defects (reported through known_findings.json while they still fail);
# the others document preconditions of the theorems and are only recorded in the evidence
FINDINGS = {'section-in-two-memories', 'relink-absolute-symbol', 'sectiondata-before-relocation'}


def run_witnesses(ctx):
    """re-execute the witnesses of the hypotheses the theorems need; report while they still fail"""
    res = {}
    for wid, what, case, pred in witnesses():
        if wid == 'relink-absolute-symbol':
            still = relink_fails(case)
        else:
            still = pred(run_impl(case))
        res[wid] = still
        if still and wid in FINDINGS:
            ctx.violation({'fn': 'link', 'key': 'witness:' + wid, 'witness': wid, 'what': what, 'case': case,
                           'how_to_replay': replay_cmd(case)})
    # W5: SectionData copies are taken before relocation
    still = sectiondata_stale()
    res['sectiondata-before-relocation'] = still
    if still:
        ctx.violation({'fn': 'link', 'key': 'witness:sectiondata-before-relocation',
                       'witness': 'sectiondata-before-relocation',
                       'what': 'SECTIONDATA(x) copies the bytes of x in layout_sections, before do_relocations patches x: '
                               'the load image of initialised data keeps unrelocated pointers',
                       'how_to_replay': "PYTHONPATH=/repo:/verif/tools python -c 'import props.c12 as m; print(m.sectiondata_stale())'"})
    ctx.cov['stages']['witnesses_still_failing'] = res
    return res


def sectiondata_stale():
    """data section holding the address of a symbol; flash holds SECTIONDATA(data). True when the copy differs
    from the relocated section."""
    import io
    from ppci.api import asm, link
    from ppci.binutils import layout as L
    src = """
    section code
    main:
    mov r0, r0
    section data
    ptr:
    dcd =main
    """
    try:
        o = asm(io.StringIO(src), 'arm')
        lay = L.Layout()
        m = L.Memory('flash')
        m.location, m.size = 0x8000, 0x1000
        m.add_input(L.Section('code'))
        m.add_input(L.SectionData('data'))
        lay.add_memory(m)
        r = L.Memory('ram')
        r.location, r.size = 0x20000000, 0x1000
        r.add_input(L.Section('data'))
        lay.add_memory(r)
        out = link([o], layout=lay)
        return bytes(out.get_section('data').data) != bytes(out.get_section('_$data_').data)
    except Exception:   # noqa: BLE001
        return False


# ------------------------------------------------------------------ driver hooks
def fixed_cases():
    """hand-picked jobs that are always part of the correspondence"""
    one = {'sections': [sec('code', [1, 2, 3], 8)], 'symbols': [gsym(0, 'main', 'code', 1)], 'relocations': [], 'entry': None}
    two = {'sections': [sec('code', [9] * 5, 3), sec('data', [7], 16)],
           'symbols': [gsym(0, 'x', 'code', 2), {'id': 1, 'name': 'main', 'binding': 'global', 'value': None,
                                                  'section': None, 'typ': 'func', 'size': 0}],
           'relocations': [{'type': 'abs32', 'symbol_id': 1, 'section': 'code', 'offset': 1, 'addend': 0}], 'entry': None}
    out = []
    for partial in (True, False):
        c = base_case([one, two], None, partial)
        c['stub_relocs'] = True
        out.append(c)
    c = base_case([one, two], [mem('flash', 0x100, 16, [['section', 'code'], ['align', 16], ['symdef', 'e']]),
                               mem('ram', 0x2000, 40, [['section', 'data'], ['sectiondata', 'code']])])
    c['stub_relocs'] = True
    out.append(c)
    c = json.loads(json.dumps(c))
    c['layout']['memories'][0]['size'] = 15
    out.append(c)
    dup = base_case([one, one], None, True)
    out.append(dup)
    out.append(base_case([], None, True))
    for _, _, case, _ in witnesses():
        out.append(case)
    out = [json.loads(json.dumps(c)) for c in out]      # no sharing between jobs
    for c in out:
        add_markers(c)
    return out


def make_cases(ctx, n):
    rng = ctx.rng
    cases = fixed_cases()
    while len(cases) < n:
        c = gen_case(rng)
        add_markers(c)
        tighten(c, rng)
        cases.append(c)
    return cases


def regen(ctx):
    return None


def nontrivial(case, out):
    nonempty = sum(1 for o in case['objects'] for s in o['sections'] if s['data'])
    return isinstance(out, OkV) and nonempty >= 2


def correspondence(ctx, n):
    cases = make_cases(ctx, n)
    outs = [run_impl(c) for c in cases]
    pairs = [(model_term(c), o) for c, o in zip(cases, outs)]
    dist = {'ok': 0, 'diag': 0, 'internal': 0, 'partial': 0, 'final_nolayout': 0, 'layout': 0, 'malformed': 0,
            'through_api_link': 0, 'wellformed': 0}
    seen = set()
    for c, o in zip(cases, outs):
        dist['ok' if isinstance(o, OkV) else ('diag' if o is Diag else 'internal')] += 1
        dist['partial' if c['partial'] else ('layout' if c['layout'] else 'final_nolayout')] += 1
        dist['malformed'] += bool(c['malformed'])
        dist['through_api_link'] += (not c['stub_relocs'])
        dist['wellformed'] += wellformed(c)
        key = json.dumps(c, sort_keys=True)
        if key not in seen and nontrivial(c, o):
            ctx.cov['distinct_nontrivial'] += 1
        seen.add(key)
    ctx.cov['stages']['correspondence_distribution'] = dist
    for c, o in list(zip(cases, outs))[6:: max(1, len(cases) // 6)]:
        ctx.note_sample({'objects': len(c['objects']), 'sections': [[s['name'], len(s['data']), s['alignment']]
                                                                    for ob in c['objects'] for s in ob['sections']],
                         'mode': 'partial' if c['partial'] else ('layout' if c['layout'] else 'final'),
                         'impl': 'linked' if isinstance(o, OkV) else ('CompilerError' if o is Diag else 'exception')})
    bad = ctx.run_cases('link', ['Model.Linker'], pairs, shard=100)
    if bad:
        for i in bad[:3]:
            ctx.log('model/implementation disagree on link job', i, json.dumps(cases[i])[:600])
        for i in bad[:10]:
            ctx.violation({'fn': 'link', 'key': 'correspondence', 'what': 'Model.Linker.link and the implementation disagree',
                           'case': cases[i], 'actual': 'Diag' if outs[i] is Diag else (
                               'exception' if outs[i] is Internal else 'linked object (see replay)'),
                           'how_to_replay': replay_cmd(cases[i])})
        ctx.failed_stages.append(('correspondence', 'Model.Linker disagrees with ppci.binutils.linker on %d of %d link jobs'
                                  % (len(bad), len(cases))))
    return cases, outs


# ------------------------------------------------------------------ link_final: relocation stand-in + copies
def run_impl_bump(case):
    """final link with do_relaxations stubbed and do_relocations replaced by the model's bump_sections
    (every byte of every section whose name does not start with '_$' becomes (b + 1) % 256); everything else,
    in particular the order of the SECTIONDATA copy relative to relocation, is the real Linker.link"""
    import logging
    from ppci.binutils import linker as lk
    from ppci.common import CompilerError
    logging.getLogger('linker').setLevel(logging.CRITICAL)

    class BumpLinker(lk.Linker):
        def do_relaxations(self):
            pass

        def do_relocations(self):
            for s in self.dst.sections:
                if not s.name.startswith('_$'):
                    s.data[:] = bytes((b + 1) % 256 for b in s.data)
    try:
        objs = [build_object(s) for s in case['objects']]
        lay = build_layout(case['layout']) if case['layout'] else None
        extra = dict((n, v) for n, v in case['extra']) if case['extra'] else None
        if not objs:
            raise ValueError('no objects')
        out = BumpLinker(arch()).link(objs, layout=lay, partial_link=False, extra_symbols=extra,
                                      entry_symbol_name=case['entry'])
        return OkV(obj_value(out))
    except CompilerError:
        return Diag
    except Exception:   # noqa: BLE001
        return Internal


def final_term(case):
    b = lambda k: 'true' if FLAGS[k] else 'false'   # noqa: E731
    return 'link_final (mk_lcfg %s %s) %s bump_sections %s %s %s %s' % (
        b('twice'), b('abs'), b('sd'), t_list(t_obj(o) for o in case['objects']),
        t_opt(case['layout'], t_layout), t_opt(case['entry'], coq_str),
        t_list('(%s, %s)' % (coq_str(n), coq_z(v)) for n, v in case['extra']))


def final_correspondence(ctx, n):
    """Model.Linker.link_final vs the real link with the relocation stand-in; plus the Spec assertion
    'load copy == final bytes of its source' on the real output whenever the tree contains fixes/C12-3"""
    rng = random.Random(ctx.seed + 7)
    wit = base_case([{'sections': [sec('code', [1, 2, 3, 4]), sec('data', [0, 0, 0, 0])],
                      'symbols': [gsym(0, 'main', 'code', 0)], 'relocations': [], 'entry': None}],
                    [mem('flash', 0x8000, 0x1000, [['section', 'code'], ['sectiondata', 'data']]),
                     mem('ram', 0x20000000, 0x1000, [['section', 'data']])])
    cases = [wit]
    while len(cases) < n:
        c = gen_case(rng, 'layout')
        if rng.random() < 0.7 and c['layout']['memories']:
            names = [s['name'] for o in c['objects'] for s in o['sections']]
            used = {a for m in c['layout']['memories'] for k, a in m['inputs'] if k == 'sectiondata'}
            cand = [x for x in names if x not in used]
            if cand:
                rng.choice(c['layout']['memories'])['inputs'].append(['sectiondata', rng.choice(cand)])
        tighten(c, rng)
        cases.append(c)
    outs = [run_impl_bump(c) for c in cases]
    nsd = 0
    for c, o in zip(cases, outs):
        if not isinstance(o, OkV):
            continue
        secmap = {x[0]: x for x in o.v[0]}
        for m in c['layout']['memories']:
            for kind, a in m['inputs']:
                if kind == 'sectiondata' and a in secmap and '_$%s_' % a in secmap:
                    nsd += 1
                    if FLAGS['sd'] and bytes(secmap[a][3]) != bytes(secmap['_$%s_' % a][3]):
                        ctx.violation({'fn': 'link', 'key': 'spec:sectiondata copy differs from its relocated source',
                                       'what': 'load copy _$%s_ differs from the final bytes of %s' % (a, a), 'case': c,
                                       'how_to_replay': replay_cmd(c)})
    ctx.cov['stages']['final_correspondence'] = {'links': len(cases), 'linked': sum(isinstance(o, OkV) for o in outs),
                                                 'sectiondata_copies_checked': nsd}
    bad = ctx.run_cases('final', ['Model.Linker'], [(final_term(c), o) for c, o in zip(cases, outs)], shard=60)
    if bad:
        for i in bad[:5]:
            ctx.violation({'fn': 'link', 'key': 'correspondence-final', 'case': cases[i],
                           'what': 'Model.Linker.link_final and the implementation (relocation stand-in) disagree',
                           'how_to_replay': replay_cmd(cases[i])})
        ctx.failed_stages.append(('correspondence', 'Model.Linker.link_final disagrees with the implementation on %d of %d links'
                                  % (len(bad), len(cases))))


def search(ctx):
    """implementation vs the independent Spec oracle only (used when the tie is broken)"""
    probe_flags()
    n = 400 if ctx.quick() else 3000
    cases = make_cases(ctx, n)
    outs = [run_impl(c) for c in cases]
    k = oracle_sweep(ctx, cases, outs)
    ctx.cov['stages']['oracle_sweep'] = k
    ctx.cov['evaluations'] += k
    run_witnesses(ctx)


def run(ctx):
    ctx.cov['stages']['fixes_present'] = probe_flags()
    ok, _ = ctx.build(['Proofs/C12_linker.vo', 'Proofs/C12_errors.vo', 'Proofs/C12_e2e.vo', 'Proofs/C12_sdata.vo', 'Lib/Val.vo'])
    if ok:
        ctx.check_props('Props/C12.v')
    n = 300 if ctx.quick() else 3000
    cases, outs = [], []
    if ctx.build(['Model/Linker.vo', 'Lib/Val.vo'])[0]:
        cases, outs = correspondence(ctx, n)
        final_correspondence(ctx, 60 if ctx.quick() else 400)
    else:
        cases = make_cases(ctx, n)
        outs = [run_impl(c) for c in cases]
    k = oracle_sweep(ctx, cases, outs)
    if ctx.failed_stages or not ctx.quick():
        # deeper sweep with fresh jobs
        rng2 = random.Random(ctx.seed + 1)
        extra = []
        for _ in range(1500 if ctx.quick() else 4000):
            c = gen_case(rng2)
            add_markers(c)
            tighten(c, rng2)
            extra.append(c)
        k += oracle_sweep(ctx, extra, [run_impl(c) for c in extra])
    ctx.cov['stages']['oracle_sweep'] = k
    ctx.cov['evaluations'] += k
    run_witnesses(ctx)
    ctx.cov['exhaustive'] = False


def replay(rec):
    case = rec.get('case')
    if not case:
        print(json.dumps(rec, indent=1))
        return 0
    from vlib import ensure_repo_on_path
    ensure_repo_on_path()
    probe_flags()
    out = run_impl(case)
    print('implementation outcome:', 'CompilerError' if out is Diag else ('exception' if out is Internal else out.v))
    if wellformed(case):
        bad = spec_check(case, out)
        print('spec complaints:', bad)
        return 1 if bad else 0
    print('model term:\n', model_term(case))
    return 0


MANIFEST = {
    'text': 'proof: unbounded Coq theorems (all object lists, all layouts, no fuel hypothesis) about a hand model of the ppci '
            'linker (api.link up to check_undefined_symbols: inject_object, merge_global_symbol, inject_symbol, layout_sections, '
            'Image.data) with one switch per proposed fix: every input section is recorded at the least multiple of its alignment '
            'after the previous contents (minimal zero padding); its bytes, defined symbols (value + offset; absolute symbols '
            'unshifted with fix C12-2) and relocations are present unchanged in the final object; placed sections are aligned, '
            'inside their memory, ordered and disjoint and Image.data equals the zero-filled memory contents, provided no section is '
            'placed twice - which follows from the success of the link once fix C12-1 is applied; c12_errors_exact analyses every '
            'outcome of the whole link: Ok implies no duplicate definition, no entry/extra clash, at most one entry point and (final '
            'link) every referenced global defined; each CompilerError code implies its cause; any other exception implies an '
            'ill-formed input (explicit input-level predicate wf_link); well-formed inputs give Ok or a CompilerError with its cause; '
            'the model never runs out of fuel. Refutations (vm_compute, replayed on the implementation) for the code as found.',
    'note': 'trusted: Coq kernel; the hand model coq/Model/Linker.v, compared with the real linker on every run (whole output '
            'object field by field, 300 links quick / 3000 thorough; the model switches are set by probing the tree under test, so '
            'the check is green before and after fixes/C12-1 and C12-2) and whose Spec is asserted independently on the real output '
            'by a Python oracle. Relocation application and relaxation are C11/C13. The cause of "Undefined references" is stated '
            'as "an undefined global symbol with an input name remains", not reduced to "referenced and defined nowhere" (the converse, '
            'Ok implies every referenced global is defined, is proved). link_final (link, then an arbitrary relocation function, then update_section_copies of fixes/C12-3) is compared with the '
            'real Linker.link under a relocation stand-in (60/400 links); c12_sectiondata_relocated: with that fix every SECTIONDATA '
            'load copy equals the final bytes of its source; c12_sectiondata_stale_refuted for the code as found.',
    'technique': 'Coq proof over hand model with fix switches + differential correspondence + independent oracle',
}
