"""C19 — S-record output decodes to the object's code (DESIGN §4 C19).

tie H (+T for value_to_bytes_big_endian): coq/Model/Srecord.v mirrors ppci/format/srecord.py (with
fixes C19-1..3 applied); Props/C19.v states that every line written passes the reference reader of
Spec/SrecSpec.v (count, checksum), that the file denotes exactly the code bytes at
base, base+1, ... and that the header is an S0 record with the matching S1/S9, S2/S8, S3/S7 pair.
Every run: (1) model vs implementation, line by line, on generated objects; (2) an independent
Python S-record reader (written from the format definition, below) applied to the real writer's
output; (3) the Coq reference reader of the Spec applied to the real output and compared with (2).
"""
import io
import importlib
from vlib import OkV, Diag, Internal, ensure_repo_on_path
from props import c39

LEVEL = 'proof'
RULE = ('objects = (code section address, code bytes): sizes 0..70 and around 32/33, 65535/65536/65537, 70000; '
        'base addresses 0, near 0xFFFF*k, near 2^16/2^24/2^32 boundaries; byte contents from the seeded rng; '
        'single records (type, address, data) incl. invalid types and oversized data. '
        'non-trivial = distinct object with non-empty code whose file was written without exception')
EXPLANATION = ('Unbounded Coq theorems about Model.Srecord.write_srecord (all base addresses and byte strings with '
               'base+len <= 2^32) against the format definition Spec.SrecSpec (reader accepts every line, denotation, S0 header and '
               'matching terminator, text shape of the lines); the model is a hand model, tied to the '
               'implementation by line-by-line correspondence on every run; the refuted theorems are about the writer '
               'before fixes C19-1..3 and their witnesses are replayed on the implementation on every run')
TRUSTED = ['hand model coq/Model/Srecord.v == ppci/format/srecord.py (checked by correspondence only)',
           'tools/py2coq.py for value_to_bytes_big_endian (Gen.bitfun)',
           'reading of the SREC format in Spec/SrecSpec.v (cross-checked against an independent Python reader on real output)',
           'binascii.hexlify / str.upper / f-string of a one-digit int behave as modelled']
ASSUMPTIONS = ['the object has a section named "code"; only its .address and .data are read',
               'print(line, file=f) appends line + "\\n"; the file is the sequence of lines']


# ---------------------------------------------------------------- independent S-record reader
ADDR_LEN = {0: 2, 1: 2, 2: 3, 3: 4, 5: 2, 6: 3, 7: 4, 8: 3, 9: 2}


class BadSrec(Exception):
    pass


def ref_parse_line(line):
    """-> (type, address, data bytes); raises BadSrec. From the format definition only."""
    if len(line) < 4 or line[0] != 'S' or line[1] not in '0123456789':
        raise BadSrec('not an S-record line: %r' % line[:20])
    t = int(line[1])
    if t not in ADDR_LEN:
        raise BadSrec('reserved record type S%d' % t)
    hexpart = line[2:]
    if len(hexpart) % 2 or any(c not in '0123456789ABCDEFabcdef' for c in hexpart):
        raise BadSrec('bad hex digits')
    bs = [int(hexpart[i:i + 2], 16) for i in range(0, len(hexpart), 2)]
    count, rest = bs[0], bs[1:]
    if count != len(rest):
        raise BadSrec('count byte %d but %d bytes follow' % (count, len(rest)))
    n = ADDR_LEN[t]
    if len(rest) < n + 1:
        raise BadSrec('record too short for its address')
    if (sum(bs[:-1]) & 0xFF) ^ 0xFF != bs[-1]:
        raise BadSrec('checksum %02X, expected %02X' % (bs[-1], (sum(bs[:-1]) & 0xFF) ^ 0xFF))
    addr = 0
    for b in rest[:n]:
        addr = addr * 256 + b
    return t, addr, rest[n:-1]


def ref_read(text):
    """-> (records, memory dict). Checks the file structure demanded by the property."""
    if text and not text.endswith('\n'):
        raise BadSrec('last line not terminated')
    lines = text.split('\n')[:-1]
    recs = [ref_parse_line(l) for l in lines]
    mem = {}
    if not recs:
        raise BadSrec('empty file')
    dtypes = set()
    for i, (t, a, d) in enumerate(recs):
        if t == 0 and i != 0:
            raise BadSrec('S0 record not first')
        if t in (1, 2, 3):
            dtypes.add(t)
            for k, b in enumerate(d):
                mem[a + k] = b
        if t in (7, 8, 9) and i != len(recs) - 1:
            raise BadSrec('termination record not last')
    tt = recs[-1][0]
    if tt not in (7, 8, 9):
        raise BadSrec('no termination record')
    if len(dtypes) > 1:
        raise BadSrec('mixed data record types %s' % sorted(dtypes))
    if dtypes and 10 - tt not in dtypes:
        raise BadSrec('termination S%d does not match data records S%d' % (tt, min(dtypes)))
    return recs, mem


def self_test_reference():
    assert ref_parse_line('S00600004844521B') == (0, 0, [0x48, 0x44, 0x52])
    assert ref_parse_line('S1137AF00A0A0D0000000000000000000000000061') == (1, 0x7AF0, [10, 10, 13] + [0] * 13)
    assert ref_parse_line('S5030003F9') == (5, 3, [])
    assert ref_parse_line('S9030000FC') == (9, 0, [])
    for bad in ('S9030000FD', 'S9040000FC', 'S4030000FC', 'S90300FC'):
        try:
            ref_parse_line(bad)
        except BadSrec:
            continue
        raise AssertionError(bad)
    recs, mem = ref_read('S00600004844521B\nS2090100000001020304EB\nS804000000FB\n')
    assert mem == {0x10000 + i: i for i in range(5)}, mem


# ---------------------------------------------------------------- implementation harness
def load_impl():
    ensure_repo_on_path()
    import ppci.format.srecord as sr
    importlib.reload(sr)
    return sr


def make_obj(base, code):
    from ppci.binutils.objectfile import ObjectFile, Section
    from ppci.api import get_arch
    obj = ObjectFile(get_arch('arm'))
    s = Section('code')
    s.address = base
    s.add_data(bytes(code))
    obj.add_section(s)
    return obj


def impl_write(sr, base, code):
    """-> OkV(text) | Diag (ValueError) | Internal"""
    f = io.StringIO()
    try:
        sr.write_srecord(make_obj(base, code), f)
    except ValueError:
        return Diag
    except Exception:   # noqa: BLE001
        return Internal
    return OkV(f.getvalue())


def impl_record(sr, t, a, d):
    try:
        r = sr.SRecord(t, a, bytes(d))
    except ValueError:
        return Diag
    except Exception:   # noqa: BLE001
        return Internal
    try:
        return OkV(r.to_line())
    except Exception:   # noqa: BLE001
        return Internal


def gen_code(seed, n):
    """deterministic byte string that Coq can rebuild: (seed + 7 i + (i / 256)) mod 256"""
    return [(seed + 7 * i + i // 256) % 256 for i in range(n)]


def coq_code(seed, n):
    return '(map (fun i => (%d + 7 * i + i / 256) mod 256) (rangeZ 0 %d))' % (seed, n)


def objects(ctx, thorough):
    """(label, base, seed, n)"""
    rng = ctx.rng
    out = []
    for n in list(range(0, 71)):
        out.append(('size0_70', 0, rng.randrange(256), n))
    for n in (0, 1, 29, 30, 31, 32, 33, 59, 60, 61, 70, 90, 255, 256, 300):
        for base in (0, 0x8000, 0xFFF0, 0xFFFF, 0x10000, 0x10001, 0xFFFF * 2, 0xFFFF * 3 + 1, 0xFFFFF0,
                     0xFFFFFF, 0x1000000, 0xFFFF * 257, 0xFFFFFF00, 0xFFFFFFFF, 0x100000000 - n, 0x100000000 - n + 1,
                     0x100000000, 0x123456789):
            out.append(('base_boundary', base, rng.randrange(256), n))
    for _ in range(60 if not thorough else 400):
        k = rng.randrange(1, 5)
        base = max(0, 0xFFFF * rng.randrange(0, 70000) + rng.randrange(-40, 40)) if rng.random() < 0.5 else \
            max(0, (1 << (8 * k)) + rng.randrange(-80, 10))
        out.append(('random', base, rng.randrange(256), rng.randrange(0, 71)))
    big = [65537, 70000, 65535, 65536] if not thorough else [65537, 70000, 65535, 65536, 65550, 65551, 131073]
    for n in big:
        out.append(('big', 0, rng.randrange(256), n))
    return out


def check_object(ctx, sr, base, code, label, seed=None):
    """independent-reader oracle on the real output. Returns True when fine."""
    out = impl_write(sr, base, code)
    replay = ('PYTHONPATH=/repo python -c "import io; from ppci.format.srecord import write_srecord; '
              'from ppci.binutils.objectfile import ObjectFile, Section; from ppci.api import get_arch; '
              'o=ObjectFile(get_arch(\'arm\')); s=Section(\'code\'); s.address=%d; '
              's.add_data(bytes(%s)); o.add_section(s); f=io.StringIO(); write_srecord(o,f); print(f.getvalue())"'
              % (base, repr(list(code)) if len(code) <= 80 or seed is None else
                 '(%d+7*i+i//256)%%256 for i in range(%d)' % (seed, len(code))))
    rec = {'fn': 'write_srecord', 'base': base, 'size': len(code),
           'code': list(code) if len(code) <= 80 else 'see how_to_replay', 'how_to_replay': replay}
    fits = base + len(code) <= (1 << 32)
    if not isinstance(out, OkV):
        if fits:
            rec.update(key='exception', expected='an S-record file', actual='exception')
            ctx.violation(rec)
            return False
        return True   # cannot be represented in S-records: any refusal is fine
    try:
        recs, mem = ref_read(out.v)
    except BadSrec as ex:
        rec.update(key='malformed', expected='well-formed records', actual=str(ex), output_head=out.v[:300])
        ctx.violation(rec)
        return False
    want = {base + i: b for i, b in enumerate(code)}
    datarecs = [(t, a, d) for (t, a, d) in recs if t in (1, 2, 3)]
    # a data record whose bytes are not the code bytes of its address range carries something else
    foreign = [(t, a, d) for (t, a, d) in datarecs if any(want.get(a + k) != b for k, b in enumerate(d))]
    hdr_as_data = bool(foreign) and recs[0] == foreign[0] and recs[0][1] == 0
    if mem != want:
        diff = sorted(set(mem.items()) ^ set(want.items()))[:4]
        rec.update(key='header-in-data-record' if hdr_as_data and len(foreign) == 1 else 'address',
                   expected='bytes of the code section at %d..%d' % (base, base + len(code) - 1),
                   actual='decoded image differs, e.g. (address, byte) %s' % diff, output_head=out.v[:200])
        ctx.violation(rec)
        return False
    if sum(len(d) for (_, _, d) in datarecs) != len(code):
        rec.update(key='header-in-data-record' if hdr_as_data else 'overlapping-data-records',
                   expected='data records carry the %d code bytes once' % len(code),
                   actual='data records carry %d bytes; first record %r' % (sum(len(d) for (_, _, d) in datarecs), recs[0]),
                   output_head=out.v[:200])
        ctx.violation(rec)
        return False
    return True


def oracle_sweep(ctx, sr, thorough):
    n = 0
    for (label, base, seed, size) in objects(ctx, thorough):
        check_object(ctx, sr, base, gen_code(seed, size), label, seed)
        n += 1
    # witnesses of the refuted theorems (Props/C19.v), replayed on the implementation every run
    check_object(ctx, sr, 0, [], 'witness_header')
    check_object(ctx, sr, 0, [0] * 65550 + [1], 'witness_wrap')
    check_object(ctx, sr, 0x8000, [0, 1, 2, 3, 4], 'witness_base')
    return n + 3


def search(ctx):
    sr = load_impl()
    n = oracle_sweep(ctx, sr, True)
    ctx.cov['stages']['oracle_sweep'] = n
    ctx.cov['evaluations'] += n


def regen(ctx):
    return ctx.gen_T('bitfun', 'ppci/utils/bitfun.py', c39.ENTRIES)


def run(ctx):
    import time
    tm = ctx.cov['stages'].setdefault('timing_s', {})
    self_test_reference()
    sr = load_impl()
    t0 = time.time()
    regen(ctx)
    ok, _ = ctx.build(['Proofs/C19_srecord.vo', 'Proofs/C19_refuted.vo', 'Proofs/C19_text.vo'])
    tm['build'] = round(time.time() - t0, 1)
    t0 = time.time()
    ctx.check_props('Props/C19.v')
    tm['props'] = round(time.time() - t0, 1)
    t0 = time.time()
    thorough = not ctx.quick()
    rng = ctx.rng
    if ctx.build(['Model/Srecord.vo', 'Spec/SrecSpec.vo', 'Lib/Val.vo'])[0]:
        # ---- correspondence 1: single records
        cases, recs = [], []
        pool_addr = [0, 1, 0xFF, 0x100, 0x7AF0, 0xFFFF, 0x10000, 0x123456, 0xFFFFFF, 0x1000000, 0x12345678,
                     0xFFFFFFFF, 0x100000000, 0x123456789A, -1, -256]
        for t in list(range(0, 11)) + [-1, 12]:
            for a in pool_addr[:: (2 if not thorough else 1)] + [rng.randrange(1 << 32)]:
                for n in (0, 1, 3, 16, 30, rng.randrange(0, 71)):
                    d = [rng.randrange(256) for _ in range(n)]
                    out = impl_record(sr, t, a, d)
                    cases.append(('r <- SRecord_init %s %s %s ;; to_line r' % (
                        '(%d)' % t, '(%d)' % a, '[%s]' % '; '.join(map(str, d))), out))
                    recs.append(('to_line', (t, a, len(d)), out))
        for n in (249, 250, 251, 252, 253, 254, 300):   # count byte overflow: bytes([count]) raises
            for t in (1, 2, 3):
                d = [rng.randrange(256) for _ in range(n)]
                out = impl_record(sr, t, 0x1234, d)
                cases.append(('r <- SRecord_init %d 4660 [%s] ;; to_line r' % (t, '; '.join(map(str, d))), out))
                recs.append(('to_line', (t, 0x1234, n), out))
        dist = {'ok': 0, 'diag': 0, 'internal': 0}
        for (_, _, o) in recs:
            dist['ok' if isinstance(o, OkV) else ('diag' if o is Diag else 'internal')] += 1
        ctx.cov['stages']['records_distribution'] = dist
        bad = ctx.run_cases('records', ['Model.Srecord'], cases)
        if bad:
            i = bad[0]
            ctx.log('model/implementation disagree on SRecord%r' % (recs[i][1],))
            ctx.failed_stages.append(('correspondence', 'Model.Srecord.to_line disagrees with SRecord.to_line on %d cases, '
                                      'first: SRecord%r' % (len(bad), recs[i][1])))
        # ---- correspondence 2: whole files, line by line; 3: Coq reference reader on the real output
        objs = objects(ctx, thorough)
        # while the implementation is still the writer before the fixes, compare the *_orig model (keeps the model of
        # the refuted theorems tied to the code); the defects themselves are reported by the oracle below
        probe = impl_write(sr, 0x8000, [1, 2, 3])
        legacy = isinstance(probe, OkV) and probe.v.startswith('S106000048445')
        ctx.cov['stages']['implementation_state'] = {'writer_before_fixes': legacy}
        small = [o for o in objs if o[0] != 'big']
        bigs = [o for o in objs if o[0] == 'big'][:(1 if not thorough else 7)]   # model side is slow; the oracle sees all
        fcases, bcases, rcases = [], [], []
        seen = set()
        dist = {}
        nontriv = 0
        for (label, base, seed, n) in small + bigs:
            if (base, seed, n) in seen:
                continue
            seen.add((base, seed, n))
            code = gen_code(seed, n)
            out = impl_write(sr, base, code)
            d = dist.setdefault(label, {'ok': 0, 'diag': 0, 'internal': 0})
            d['ok' if isinstance(out, OkV) else ('diag' if out is Diag else 'internal')] += 1
            if isinstance(out, OkV):
                lines = out.v.split('\n')
                exp = OkV(lines[:-1]) if lines[-1] == '' else OkV(lines)
                if n:
                    nontriv += 1
                if label != 'big':
                    try:
                        rr, _ = ref_read(out.v)
                        pyrecs = [(t, a, list(dd)) for (t, a, dd) in rr]
                    except BadSrec:
                        pyrecs = None
                    rcases.append(('option_map (map (fun r => (s_typ r, s_addr r, s_data r))) (read_file %s)' % (
                        '[%s]' % '; '.join('"%s"%%string' % l for l in exp.v)), pyrecs))
            else:
                exp = out
            term = ('write_srecord_orig %s' % coq_code(seed, n)) if legacy else ('write_srecord %d %s' % (base, coq_code(seed, n)))
            (fcases if label != 'big' else bcases).append((term, exp))
        ctx.cov['distinct_nontrivial'] += nontriv
        ctx.cov['stages']['files_distribution'] = dist
        for (label, base, seed, n) in (small[5], small[40], small[100], small[200], bigs[0]):
            ctx.note_sample({'fn': 'write_srecord', 'label': label, 'base': base, 'size': n, 'seed': seed})
        bad = ctx.run_cases('files', ['Model.Srecord'], fcases)
        badbig = ctx.run_cases('bigfiles', ['Model.Srecord'], bcases, shard=1) if bcases else []
        if bad or badbig:
            first = fcases[bad[0]][0] if bad else bcases[badbig[0]][0]
            ctx.log('model/implementation disagree on', first[:120])
            ctx.failed_stages.append(('correspondence', 'Model.Srecord.write_srecord disagrees with write_srecord on %d '
                                      'objects, first: %s' % (len(bad or []) + len(badbig or []), first[:160])))
        bad = ctx.run_cases('reader', ['Model.Srecord', 'Spec.SrecSpec'], rcases)
        if bad:
            ctx.log('Spec.SrecSpec.read_file and the Python reference reader disagree on', rcases[bad[0]][0][:200])
            ctx.failed_stages.append(('spec_reader', 'Spec.SrecSpec.read_file disagrees with the independent Python reader '
                                      'on %d real outputs' % len(bad)))
    tm['correspondence'] = round(time.time() - t0, 1)
    t0 = time.time()
    n = oracle_sweep(ctx, sr, thorough or bool(ctx.failed_stages))
    ctx.cov['stages']['oracle_sweep'] = n
    ctx.cov['evaluations'] += n
    ctx.cov['exhaustive'] = False
    tm['oracle'] = round(time.time() - t0, 1)


MANIFEST = {
    'text': 'proof: for every code section address and byte string with address+size <= 2^32, every line written by '
            'write_srecord is accepted by the reference S-record reader (count and checksum correct), the file starts '
            'with an S0 header, uses one data record type S1/S2/S3 with the matching S9/S8/S7 terminator, and denotes '
            'exactly the code bytes at consecutive addresses from the section address; larger objects are refused; every line is '
            '\'S\' followed by characters 0-9A-F only and at most 74 characters long. '
            'The writer before fixes C19-1..3 is refuted (header as S1 data record, 16-bit address wrap).',
    'note': 'hand model of ppci/format/srecord.py (value_to_bytes_big_endian regenerated by py2coq), tied to the '
            'implementation by line-by-line comparison on ~1500 generated records/objects per run; trusted: Coq kernel, the '
            'model correspondence, the reading of the SREC format (cross-checked by an independent Python reader on the '
            'real output). Holds only with fixes C19-1, C19-2, C19-3 applied.',
    'technique': 'Coq proof over hand model + differential correspondence + independent reader',
}
