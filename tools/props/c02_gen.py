"""C02 generator extension and oracle machines (imports the IR hub, does not modify it).

gen(rng, size, feats)  -> ppci.ir.Module     irgen module + extra CFG / memory shapes the optimizer passes
                                             are sensitive to (see EXTRA_KINDS)
TrackMachine / run_main(...)                 tools/irsem_py.Machine with tracking of reads of never-written
                                             stack memory (the original "reads an undefined value" there)
FrameMachine                                 same, with the frame-slot reading of ir.Alloc (one slot per Alloc
                                             instruction per activation) that every ppci back-end implements
"""
import contextlib
import sys

import irgen
import irsem_py
from vlib import OkV
from ppci import ir

EXTRA_KINDS = ('triangle', 'emptychain', 'tailself', 'blobmix', 'constjump', 'addzero', 'twins', 'globcall',
               'globwrite', 'alias', 'pun', 'widefold')
FEATS_QUICK = irgen.SAFE_FEATURES + ('copyblob', 'extern') + EXTRA_KINDS


class FnGen2(irgen.FnGen):
    """adds segment kinds:
    triangle   cjmp ? mid : join with mid (often only a jump) -> join, phi in join (shared successor)
    emptychain jump-only blocks in a row in front of a block with a phi
    tailself   `if p0 > 0: return f(p0 >> 1, ...)` self tail call (Functions only)
    blobmix    store / CopyBlob / load and store / CopyBlob / store on overlapping memory
    constjump  cjmp on two constants
    addzero    x + 0, 0 + x, x * 1, x - 0, (y + c1) + c2, (y - c1) - c2 with used results
    """

    def segment(self, env, depth):
        rng = self.rng
        kinds = [k for k in EXTRA_KINDS if k in self.feats]
        if not kinds or self.budget <= 0 or rng.random() < 0.55:
            return super().segment(env, depth)
        kind = rng.choice(kinds)
        t = rng.choice(self.types)
        self.budget -= 1
        if kind == 'triangle':
            a, b = self.get(env, t), self.get(env, t)
            v0 = self.get(env, t)
            pre = self.cur
            mid, join = self.block('mid'), self.block('tjoin')
            if rng.random() < 0.5:
                self.emit(ir.CJump(a, rng.choice(ir.CJump.conditions), b, mid, join))
            else:
                self.emit(ir.CJump(a, rng.choice(ir.CJump.conditions), b, join, mid))
            self.cur = mid
            e2 = {k: list(v) for k, v in env.items()}
            saved = list(self.allocs)
            if rng.random() < 0.4:
                self.straight(e2, rng.randint(1, 2))
                v1 = self.get(e2, t)
            else:
                others = [x for x in env.get(t, []) if x is not v0]
                v1 = rng.choice(others) if others else v0
            self.allocs = saved
            self.emit(ir.Jump(join))
            last_mid = self.cur
            self.cur = join
            ph = self.emit(ir.Phi(self.nm('tphi'), t))
            ph.set_incoming(pre, v0)
            ph.set_incoming(last_mid, v1)
            env.setdefault(t, []).append(ph)
        elif kind == 'emptychain':
            v0 = self.get(env, t)
            a, b = self.get(env, t), self.get(env, t)
            pre = self.cur
            e1, e2b, tgt = self.block('e'), self.block('e'), self.block('ejoin')
            self.emit(ir.CJump(a, rng.choice(ir.CJump.conditions), b, e1, e2b))
            self.cur = e1
            self.emit(ir.Jump(e2b if rng.random() < 0.5 else tgt))
            via = e1.last_instruction.target is e2b
            self.cur = e2b
            self.emit(ir.Jump(tgt))
            self.cur = tgt
            ph = self.emit(ir.Phi(self.nm('ephi'), t))
            ph.set_incoming(e2b, v0)
            if not via:
                others = [x for x in env.get(t, []) if x is not v0]
                ph.set_incoming(e1, rng.choice(others) if others else v0)
            env.setdefault(t, []).append(ph)
        elif kind == 'tailself':
            f = self.f
            if not isinstance(f, ir.Function) or not f.arguments or depth > 0:
                return super().segment(env, depth)
            p0 = f.arguments[0]
            zero = self.const(p0.ty, 0)
            one = self.const(p0.ty, 1)
            rec, cont = self.block('rec'), self.block('cont')
            self.emit(ir.CJump(p0, '>', zero, rec, cont))
            self.cur = rec
            e2 = {k: list(v) for k, v in env.items()}
            saved = list(self.allocs)
            if rng.random() < 0.5:
                self.straight(e2, rng.randint(1, 2))
            nxt = self.emit(ir.Binop(p0, '>>', one, self.nm('half'), p0.ty))
            args = [nxt] + [self.get(e2, p.ty) for p in f.arguments[1:]]
            r = self.emit(ir.FunctionCall(f, args, self.nm('rec'), f.return_ty))
            self.emit(ir.Return(r))
            self.allocs = saved
            self.cur = cont
        elif kind == 'blobmix':
            while len(self.allocs) < 2:
                amount = rng.choice([8, 16])
                a = self.emit(ir.Alloc(self.nm('alloc'), amount, rng.choice([4, 8])))
                self.allocs.append((self.emit(ir.AddressOf(a, self.nm('addr'))), amount))
            (p, ps), (q, qs) = rng.sample(self.allocs, 2)
            size = t.bits // 8
            if ps < size or qs < size:
                return
            x, y = self.get(env, t), self.get(env, t)
            self.emit(ir.Store(y, q))
            self.emit(ir.Store(x, p))
            r = rng.random()
            if r < 0.4:
                self.emit(ir.CopyBlob(p, q, size))                   # overwrites the stored value
                env.setdefault(t, []).append(self.emit(ir.Load(p, self.nm('bl'), t)))
            elif r < 0.7:
                self.emit(ir.CopyBlob(q, p, size))                   # reads the stored value
                self.emit(ir.Store(y, p))
                env.setdefault(t, []).append(self.emit(ir.Load(q, self.nm('bl'), t)))
            else:
                self.call(env)                                       # call between store and load
                env.setdefault(t, []).append(self.emit(ir.Load(p, self.nm('bl'), t)))
        elif kind == 'constjump':
            a, b = self.const(t), self.const(t)
            yes, no, join = self.block('cy'), self.block('cn'), self.block('cj')
            self.emit(ir.CJump(a, rng.choice(ir.CJump.conditions), b, yes, no))
            vals = []
            for blk in (yes, no):
                self.cur = blk
                vals.append(self.const(t))
                self.emit(ir.Jump(join))
            self.cur = join
            ph = self.emit(ir.Phi(self.nm('cphi'), t))
            ph.set_incoming(yes, vals[0])
            ph.set_incoming(no, vals[1])
            env.setdefault(t, []).append(ph)
        elif kind == 'addzero':
            x = self.get(env, t)
            zero, one = self.const(t, 0), self.const(t, 1)
            r = rng.random()
            if r < 0.2:
                v = self.emit(ir.Binop(x, '+', zero, self.nm('az'), t))
            elif r < 0.4:
                v = self.emit(ir.Binop(zero, '+', x, self.nm('az'), t))
            elif r < 0.55:
                v = self.emit(ir.Binop(x, '*', one, self.nm('az'), t))
            elif r < 0.65:
                v = self.emit(ir.Binop(x, '-', zero, self.nm('az'), t))
            else:
                op = rng.choice(['+', '-', '+'])
                c1, c2 = self.const(t), self.const(t)
                inner = self.emit(ir.Binop(x, op, c1, self.nm('ch'), t))
                v = self.emit(ir.Binop(inner, op if rng.random() < 0.8 else rng.choice(['+', '-']), c2,
                                       self.nm('ch'), t))
            env.setdefault(t, []).append(v)
            # make sure the result is used (a store to a global or a later operand)
            env[t] = env[t][-3:] + env[t][:-3] if rng.random() < 0.3 else env[t]
        elif kind == 'twins':
            # two operations on the same operands in one block (same / different operator, commuted),
            # both results observable through their combination
            a, b = self.get(env, t), self.get(env, t)
            ops = ['+', '-', '*', '|', '&', '^']
            o1 = rng.choice(ops)
            o2 = o1 if rng.random() < 0.4 else rng.choice(ops)
            x = self.emit(ir.Binop(a, o1, b, self.nm('tw'), t))
            if rng.random() < 0.3:
                self.straight(env, 1)
            y = self.emit(ir.Binop(a, o2, b, self.nm('tw'), t)) if rng.random() < 0.8 else \
                self.emit(ir.Binop(b, o2, a, self.nm('tw'), t))
            one = self.const(t, 1)
            y1 = self.emit(ir.Binop(y, '+', one, self.nm('tw'), t))
            env.setdefault(t, []).append(self.emit(ir.Binop(x, '^', y1, self.nm('twx'), t)))
            self.observe(env, t)
        elif kind == 'widefold':
            # constant expressions on in-range but WIDE constants (the folder must be exact beyond 2^53)
            wt = rng.choice([ir.i64, ir.u64, ir.i64, ir.u64, t])
            lo, hi = irgen.rng_range(wt)
            pool = [hi, hi - 1, hi - 58, lo, lo + 1, hi // 2 + 1, hi // 3, (1 << 53) + 1, (1 << 53) - 1, (1 << 62) + 3,
                    (1 << 53) + 12345, 1000000007 * 1000000009, -(1 << 53) - 1, -(1 << 62) - 7, -(1 << 53) + 1]
            pool = [v for v in pool if lo <= v <= hi]
            a = rng.choice(pool)
            op = rng.choice(['%', '%', '/', '+', '-', '*', '<<', '>>', '%'])
            if op in ('%', '/'):
                b = rng.choice([10, 3, 7, 1000000007, (1 << 31) - 1, (1 << 53) + 1, 97] + ([-3, -1000000007] if wt.signed else []))
                b = min(b, hi)
                if wt.signed and a == lo and b == -1:
                    b = 3
            elif op in ('<<', '>>'):
                b = rng.randint(0, wt.bits - 1)
            else:
                b = rng.choice(pool)
            ca, cb = self.const(wt, a), self.const(wt, b)
            v = self.emit(ir.Binop(ca, op, cb, self.nm('wf'), wt))
            env.setdefault(wt, []).append(v)
            self.observe(env, wt)
            r = rng.random()
            if r < 0.35:
                # cast of a wide constant to a narrower type and back
                nt = rng.choice([x for x in irgen.INT_TYPES if x.bits < wt.bits] or [wt])
                n1 = self.emit(ir.Cast(ca, self.nm('wn'), nt))
                env.setdefault(nt, []).append(n1)
                self.observe(env, nt)
                w2 = self.emit(ir.Cast(n1, self.nm('ww'), wt))
                env[wt].append(w2)
                self.observe(env, wt)
            elif r < 0.7:
                # chain (y + c1) + c2 / (y - c1) - c2 with wide constants
                y = self.get(env, wt) if wt in self.types else v
                o2 = rng.choice(['+', '-'])
                inner = self.emit(ir.Binop(y, o2, self.const(wt, rng.choice(pool)), self.nm('wc'), wt))
                outer = self.emit(ir.Binop(inner, o2, self.const(wt, rng.choice(pool)), self.nm('wc'), wt))
                env[wt].append(outer)
                self.observe(env, wt)
            # make the value reach a type the function works with
            tt = rng.choice(self.types)
            if tt is not wt:
                env.setdefault(tt, []).append(self.emit(ir.Cast(env[wt][-1], self.nm('wr'), tt)))
        elif kind in ('alias', 'pun'):
            size = t.bits // 8
            bases = [(p, s) for p, s in self.allocs if s >= 2 * size]
            bases += [(g, g.amount) for g in self.mg.gvars if g.amount >= 2 * size]
            if not bases:
                a = self.emit(ir.Alloc(self.nm('alloc'), 16, 8))
                bases = [(self.emit(ir.AddressOf(a, self.nm('addr'))), 16)]
                self.allocs.append(bases[0])
            p, _ = rng.choice(bases)
            if kind == 'alias':
                # q is another IR value than p and equals p at run time when the selector is even
                sel_t = rng.choice(self.types)
                sel = self.get(env, sel_t)
                bit = self.emit(ir.Binop(sel, '&', self.const(sel_t, 1), self.nm('bit'), sel_t))
                off = self.emit(ir.Binop(bit, '*', self.const(sel_t, size), self.nm('aoff'), sel_t))
                q = self.emit(ir.Binop(p, '+', self.emit(ir.Cast(off, self.nm('aoffp'), ir.ptr)), self.nm('q'), ir.ptr))
                x, y = self.get(env, t), self.get(env, t)
                self.emit(ir.Store(self.get(env, t), q))            # both cells written (no unwritten reads)
                r = rng.random()
                if r < 0.5:
                    self.emit(ir.Store(x, p))
                    l = self.emit(ir.Load(q, self.nm('al'), t))
                    self.emit(ir.Store(y, p))
                elif r < 0.8:
                    self.emit(ir.Store(x, p))
                    self.emit(ir.Store(y, q))
                    l = self.emit(ir.Load(p, self.nm('al'), t))
                else:
                    self.emit(ir.Store(x, q))
                    self.emit(ir.Store(y, p))
                    self.emit(ir.Store(x, q))
                    l = self.emit(ir.Load(p, self.nm('al'), t))
                env.setdefault(t, []).append(l)
                self.observe(env, t)
            else:
                # same address, same width, other signedness
                tt = [u for u in irgen.INT_TYPES if u.bits == t.bits and u.signed != t.signed][0]
                self.emit(ir.Store(self.get(env, t), p))
                l = self.emit(ir.Load(p, self.nm('pl'), tt))
                env.setdefault(tt, []).append(l)
                one = self.const(tt, 1)
                env[tt].append(self.emit(ir.Binop(l, '+', one, self.nm('pu'), tt)))
                self.observe(env, tt)
                if rng.random() < 0.5:
                    self.emit(ir.Store(self.get(env, t), p))
                    self.emit(ir.Store(env[tt][-1], p))
                    env.setdefault(t, []).append(self.emit(ir.Load(p, self.nm('pl'), t)))
                    self.observe(env, t)
        elif kind in ('globcall', 'globwrite'):
            gs = [g for g in self.mg.gvars if g.amount >= t.bits // 8]
            if not gs:
                return super().segment(env, depth)
            g = rng.choice(gs)
            gw = self.mg.__dict__.setdefault('gwrites', {})
            mods = [c for c in self.mg.callables]
            if kind == 'globcall':
                # prefer a callee that writes a global, and store to / load from that global
                cands = [(c, g2) for c in mods for g2 in gw.get(id(c[0]), []) if g2 in gs]
                if cands and rng.random() < 0.8:
                    c0, g = rng.choice(cands)
                    mods = [c0]
            gw.setdefault(id(self.f), [])
            if g not in gw[id(self.f)]:
                gw[id(self.f)].append(g)
            self.emit(ir.Store(self.get(env, t), g))
            if kind == 'globcall':
                if mods:
                    callee, argtys, ret = rng.choice(mods)
                    args = [self.get(env, ty) for ty in argtys]
                    if ret is None:
                        self.emit(ir.ProcedureCall(callee, args))
                    else:
                        env.setdefault(ret, []).append(self.emit(ir.FunctionCall(callee, args, self.nm('r'), ret)))
                else:
                    self.call(env)
                env.setdefault(t, []).append(self.emit(ir.Load(g, self.nm('gl'), t)))
                self.observe(env, t)

    def observe(self, env, t):
        """make the newest value of type t observable: store it to a global if there is one"""
        gs = [g for g in self.mg.gvars if g.amount >= t.bits // 8]
        if gs and env.get(t):
            self.emit(ir.Store(env[t][-1], self.rng.choice(gs), True))


@contextlib.contextmanager
def _patched():
    old = irgen.FnGen
    irgen.FnGen = FnGen2
    try:
        yield
    finally:
        irgen.FnGen = old


def gen(rng, size, feats):
    """irgen.gen_module with the extra segment kinds; the module gets a DebugDb (Mem2RegPromotor needs one)"""
    from ppci.binutils.debuginfo import DebugDb
    base = [f for f in feats if f not in EXTRA_KINDS]
    extra = frozenset(f for f in feats if f in EXTRA_KINDS)
    with _patched():
        mg = irgen.ModGen(rng, size, frozenset(base) | extra, 'gen')
        m = mg.build()
    from ppci.irutils.verify import verify_module
    import io
    with contextlib.redirect_stdout(io.StringIO()):      # the verifier prints warnings about Undefined
        verify_module(m)
    m.debug_db = DebugDb()
    return m


# ------------------------------------------------------------------------------ oracle machines
class TrackMachine(irsem_py.Machine):
    """irsem_py.Machine that records whether the run read stack bytes that were never written
    (an ir.Alloc is zero-filled in the reference semantics, but a program that looks at those
    zeros "reads an undefined value" in the sense of the property: mem2reg turns it into ir.Undefined)"""

    def __init__(self, module, cfg=irsem_py.DEFAULT_CFG):
        self.uninit = set()
        self.read_uninit = False
        super().__init__(module, cfg)

    def alloc(self, data, al):
        a = super().alloc(data, al)
        if data and not any(data):
            self.uninit.update(range(a, a + len(data)))
        return a

    def read(self, a, n):
        if self.uninit and any((a + k) in self.uninit for k in range(n)):
            self.read_uninit = True
        return super().read(a, n)

    def write(self, a, data):
        r = super().write(a, data)
        if self.uninit:
            for k in range(len(data)):
                self.uninit.discard(a + k)
        return r


class FrameMachine(TrackMachine):
    """frame-slot reading of ir.Alloc: within one activation an Alloc instruction denotes ONE slot
    (re-executing it, e.g. in a loop, yields the same address and does not clear it) — what the ppci
    back-ends implement (allocs become fixed frame offsets).  Used only for the tail-call witness."""

    def __init__(self, module, cfg=irsem_py.DEFAULT_CFG):
        self.frames = []
        super().__init__(module, cfg)

    def run(self, f, args, fuel):
        self.frames.append({})
        try:
            return super().run(f, args, fuel)
        finally:
            self.frames.pop()

    def alloc(self, data, al):
        ins = sys._getframe(1).f_locals.get('i')
        if isinstance(ins, ir.Alloc) and self.frames:
            fr = self.frames[-1]
            if id(ins) not in fr:
                fr[id(ins)] = super().alloc(data, al)
            return fr[id(ins)]
        return super().alloc(data, al)


def run_main(module, fname, args, fuel=300, cfg=irsem_py.DEFAULT_CFG, machine=TrackMachine):
    """irsem_py.run_main on a chosen Machine class; returns (outcome, read_uninit)"""
    mach = None
    try:
        mach = machine(module, cfg)
        f = mach.find_func(fname)
        if f is None or len(args) != len(f.arguments):
            return 'stuck', False
        r = mach.run(f, list(args), fuel)
        globs = []
        for g in module.variables:
            a = mach.ge[g.name]
            globs.append((g.name, bytes(mach.mem[a + k] for k in range(mach.gsize[id(g)][1]))))
        tr = [(n, [irsem_py._render(x) for x in vs]) for n, vs in mach.trace]
        return OkV((irsem_py._render(r), globs, tr)), mach.read_uninit
    except irsem_py._UB as ex:
        return ('ub', ex.args[0]), bool(mach and mach.read_uninit)
    except irsem_py._Unsupported:
        return 'unsupported', False
    except irsem_py._Stuck:
        return 'stuck', False
    except (irsem_py._Fuel, RecursionError):
        return 'fuel', False
