#!/bin/bash
# usage: applyfix.sh <fix-basename>...   apply each /verif/fixes/<name>.diff to /repo as its own "fix:" commit
set -e
for n in "$@"; do
  d=/verif/fixes/$n.diff; m=/verif/fixes/$n.msg
  git -C /repo apply --check "$d" || { echo "CANNOT APPLY $n"; exit 1; }
  git -C /repo apply "$d"
  if [ -f "$m" ]; then msg="$(cat $m)"; else msg="fix: $n"; fi
  case "$msg" in fix:*) ;; *) msg="fix: $msg";; esac
  files=$(grep '^+++ b/' "$d" | sed 's/+++ b\///')
  git -C /repo add $files
  git -C /repo commit -q -m "$msg"
  echo "applied $n -> $(git -C /repo log --oneline | head -1)"
done
