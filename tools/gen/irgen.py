"""irgen — seeded generator of verifier-clean ppci IR modules (shared by the IR-hub clients).

    gen_module(rng, size=3, features=None, name='gen') -> ppci.ir.Module
        rng       random.Random (the only source of randomness; same rng state => same module)
        size      roughly the number of CFG segments per function and functions per module
        features  None (= ALL_FEATURES) or an iterable of feature names, see ALL_FEATURES
    gen_args(rng, function) -> list of int argument values in range of the parameter types
    ALL_FEATURES, SAFE_FEATURES (no deliberately undefined behaviour, no floats, no copyblob:
        what ppci's ir_to_python can execute)

The result has been passed through ppci.irutils.verify.verify_module.  Shapes produced:
straight-line code, diamonds with phis, counted loops with phis (forward references), self-loops,
cjumps with both edges to one successor, nested segments, allocas with (volatile) loads/stores at
offsets, globals with/without initial values (bytes parts, and (ir.ptr, label) parts), calls to
earlier functions/procedures and to externals with repeated arguments, `x op x`, every integer
type and every operator of ir.Binop.ops / ir.Unop.ops, all six conditions, int<->int and
int<->ptr casts, float constants from bit patterns (+-0.0, inf, huge/small exponents), negative
and overflowing integer constants, CopyBlob, LiteralData, Undefined, and (feature 'shuffle')
blocks listed in a non-dominance order so that uses precede definitions in print order.
All names are valid Python identifiers (ir_to_python needs that); value names, parameter names
and module-level names are pairwise distinct unless feature 'name_clash' is requested.
"""
import struct

from ppci import ir
from ppci.irutils.verify import verify_module

ALL_FEATURES = ('diamond', 'loop', 'selfloop', 'dupedge', 'alloca', 'volatile', 'globals', 'calls',
                'extern', 'casts', 'floats', 'copyblob', 'literal', 'undefined', 'shuffle', 'ub',
                'bigconst', 'ptrarith', 'rot', 'initref')
# additional features, NOT part of ALL_FEATURES (features=None keeps its former output):
#   'shadow_global'  parameters / locals named like a global variable, external or earlier function of
#                    the module and used as operands (typed arithmetic and pointer positions); the
#                    function that shadows a module-level name never references that module-level value
#                    (references are by name in the JSON/text formats), other functions may.
#                    Such modules are NOT Spec.IRSyntax.wf_modul (which demands disjoint names).
#   'call_later'     functions call functions that are defined LATER in the module (instead of earlier
#                    ones), so readers see references to not yet defined module-level names.
#   'blob_types'     several blob types per module, incl. equal size / different alignment and equal alignment /
#                    different size, used as parameter, return, external argument/return, call result, cast, phi
#                    and undefined types, and allocas of those shapes with CopyBlob between them.
EXTRA_FEATURES = ('shadow_global', 'call_later')
# 'blob_types' emits ir.Undefined / CopyBlob instructions, which the IR text format (C15) cannot read: kept apart
BLOB_FEATURES = ('blob_types',)
ALL_FEATURES_X = ALL_FEATURES + EXTRA_FEATURES
ALL_FEATURES_XB = ALL_FEATURES_X + BLOB_FEATURES
SAFE_FEATURES = ('diamond', 'loop', 'selfloop', 'dupedge', 'alloca', 'volatile', 'globals', 'calls',
                 'casts', 'literal', 'shuffle', 'ptrarith')

INT_TYPES = [ir.i8, ir.i16, ir.i32, ir.i64, ir.u8, ir.u16, ir.u32, ir.u64]
FLOAT_BITS = [0x0000000000000000, 0x8000000000000000, 0x3FF0000000000000, 0xBFF8000000000000,
              0x7FF0000000000000, 0xFFF0000000000000, 0x7FEFFFFFFFFFFFFF, 0x0000000000000001,
              0x7E37E43C8800759C, 0x0010000000000000, 0x3FB999999999999A, 0x400921FB54442D18,
              0x4341C37937E08000, 0xC1E0000000000000]


def rng_range(t):
    if t.signed:
        return -(1 << (t.bits - 1)), (1 << (t.bits - 1)) - 1
    return 0, (1 << t.bits) - 1


def pick_const(rng, t, feats):
    lo, hi = rng_range(t)
    pool = [0, 1, 2, 3, 5, 7, hi, lo, hi - 1, lo + 1, 1 << (t.bits // 2), 100 % (hi + 1)]
    if t.signed:
        pool += [-1, -2, -7]
    v = rng.choice(pool) if rng.random() < 0.6 else rng.randint(lo, hi)
    if 'bigconst' in feats and rng.random() < 0.15:
        v = rng.choice([hi + 1, lo - 1, (1 << t.bits) + 5, -(1 << t.bits) - 3, 1 << 70, -(1 << 65)])
    return v


class FnGen:
    def __init__(self, mg, f, rng, feats, size):
        self.mg, self.f, self.rng, self.feats, self.size = mg, f, rng, feats, size
        self.cur = None
        self.nblocks = 0
        self.types = rng.sample(INT_TYPES, rng.randint(2, 4))
        self.allocs = []     # (ptr value, size) available (dominating) memory
        self.budget = 10 + 6 * size
        self.banned = set()   # module-level names this function must not reference (it shadows them)
        self.shadow = []      # names of module-level values still to be given to locals

    # -- plumbing
    def block(self, hint):
        b = ir.Block('%s_%s%d' % (self.f.name, hint, self.nblocks))
        self.nblocks += 1
        self.f.add_block(b)
        if self.f.entry is None:
            self.f.entry = b
        return b

    def emit(self, ins):
        self.cur.add_instruction(ins)
        return ins

    def nm(self, hint):
        return '%s%s' % (self.mg.vprefix, hint)

    def const(self, t, v=None):
        if v is None:
            v = pick_const(self.rng, t, self.feats)
        return self.emit(ir.Const(v, self.nm('c'), t))

    def get(self, env, t):
        """a value of type t that dominates the insertion point"""
        vs = env.get(t)
        if vs and self.rng.random() < 0.8:
            return self.rng.choice(vs)
        others = [x for k, l in env.items() if k in INT_TYPES and k is not t for x in l]
        if others and 'casts' in self.feats and self.rng.random() < 0.5:
            v = self.emit(ir.Cast(self.rng.choice(others), self.nm('cast'), t))
        else:
            v = self.const(t)
        env.setdefault(t, []).append(v)
        return v

    def ptr_at(self, base, off):
        if off == 0 or 'ptrarith' not in self.feats:
            return base
        o = self.const(self.rng.choice([ir.i32, ir.u32, ir.i64]), off)
        op = self.emit(ir.Cast(o, self.nm('off'), ir.ptr))
        return self.emit(ir.Binop(base, '+', op, self.nm('p'), ir.ptr))

    def blob_prelude(self, env):
        """values of several blob types in undefined / cast / call / phi positions, allocas + CopyBlob"""
        rng, mg = self.rng, self.mg
        b0, b1 = mg.blobs[0], mg.blobs[1]
        us = [self.emit(ir.Undefined(self.nm('bu'), t)) for t in mg.blobs]
        self.emit(ir.Cast(us[0], self.nm('bc'), b1))
        self.emit(ir.Cast(us[1], self.nm('bc'), b0))
        r = self.emit(ir.FunctionCall(mg.bxf, [us[0], us[1]], self.nm('br'), b1))
        self.emit(ir.ProcedureCall(mg.bxp, [r, us[0]] + us[2:]))
        ptrs = []
        for t in mg.blobs[:2]:
            a = self.emit(ir.Alloc(self.nm('balloc'), t.size, t.alignment))
            ptrs.append(self.emit(ir.AddressOf(a, self.nm('baddr'))))
        self.emit(ir.CopyBlob(ptrs[0], ptrs[1], min(b0.size, b1.size)))
        if rng.random() < 0.6:
            pre = self.cur
            nxt = self.block('bphi')
            t = rng.choice(self.types)
            a = self.get(env, t)
            self.emit(ir.CJump(a, '==', a, nxt, nxt))
            self.cur = nxt
            for u in us[:2]:
                ph = self.emit(ir.Phi(self.nm('bp'), u.ty))
                ph.set_incoming(pre, u)

    def shadow_prelude(self, env):
        """give the remaining shadow names to locals and use them as operands"""
        rng = self.rng
        for k, s in enumerate(self.shadow):
            t = rng.choice(self.types)
            if k % 2 == 0:
                v = self.emit(ir.Const(pick_const(rng, t, ()), s, t))            # typed arithmetic position
                w = self.emit(ir.Binop(v, rng.choice(['+', '^', '|']), self.get(env, t), self.nm('sh'), t))
                env.setdefault(t, []).extend([v, w])
            else:
                a = self.emit(ir.Alloc(self.nm('alloc'), 8, 8))
                ptr = self.emit(ir.AddressOf(a, s))                               # pointer operand position
                self.allocs.append((ptr, 8))
                self.emit(ir.Store(self.get(env, t), ptr))
                env.setdefault(t, []).append(self.emit(ir.Load(ptr, self.nm('shl'), t)))
        self.shadow = []

    # -- straight-line instructions
    def straight(self, env, n):
        rng, feats = self.rng, self.feats
        for _ in range(n):
            if self.budget <= 0:
                return
            self.budget -= 1
            t = rng.choice(self.types)
            r = rng.random()
            if r < 0.38:
                ops = ['+', '-', '*', '|', '&', '^', '/', '%', '<<', '>>']
                if 'rot' in feats:
                    ops += ['rol', 'ror']
                op = rng.choice(ops)
                a = self.get(env, t)
                if op in ('/', '%'):
                    if 'ub' in feats and rng.random() < 0.25:
                        b = self.get(env, t)
                    else:
                        lo, hi = rng_range(t)
                        b = self.const(t, rng.choice([1, 2, 3, 7, hi] + ([-2, -3] if t.signed else [])))
                elif op in ('<<', '>>', 'rol', 'ror'):
                    if 'ub' in feats and rng.random() < 0.2:
                        b = self.get(env, t)
                    else:
                        b = self.const(t, rng.randint(0, t.bits - 1))
                elif rng.random() < 0.25:
                    b = a                                     # x op x
                else:
                    b = self.get(env, t)
                env.setdefault(t, []).append(self.emit(ir.Binop(a, op, b, self.nm('b'), t)))
            elif r < 0.46:
                a = self.get(env, t)
                env.setdefault(t, []).append(self.emit(ir.Unop(rng.choice(['-', '~']), a, self.nm('u'), t)))
            elif r < 0.54:
                env.setdefault(t, []).append(self.const(t))
            elif r < 0.62 and 'casts' in feats:
                src = self.get(env, rng.choice(self.types))
                env.setdefault(t, []).append(self.emit(ir.Cast(src, self.nm('cast'), t)))
            elif r < 0.75 and ('alloca' in feats or 'globals' in feats):
                self.memory(env, t)
            elif r < 0.82 and 'calls' in feats:
                self.call(env)
            elif r < 0.87 and 'copyblob' in feats:
                while len(self.allocs) < 2:
                    amount = rng.choice([8, 12, 16])
                    a = self.emit(ir.Alloc(self.nm('alloc'), amount, rng.choice([1, 4, 8])))
                    self.allocs.append((self.emit(ir.AddressOf(a, self.nm('addr'))), amount))
                (d, ds), (s, ss) = rng.sample(self.allocs, 2)
                self.emit(ir.CopyBlob(d, s, rng.randint(1, min(ds, ss))))
            elif r < 0.90 and 'literal' in feats:
                data = bytes(rng.randrange(256) for _ in range(rng.choice([8, 9, 16])))
                lit = self.emit(ir.LiteralData(data, self.nm('lit')))
                p = self.emit(ir.AddressOf(lit, self.nm('la')))
                off = rng.randint(0, len(data) - t.bits // 8)
                env.setdefault(t, []).append(self.emit(ir.Load(self.ptr_at(p, off), self.nm('ll'), t)))
            elif r < 0.93 and 'undefined' in feats:
                u = self.emit(ir.Undefined(self.nm('undef'), t))
                if 'ub' in feats and rng.random() < 0.2:
                    env.setdefault(t, []).append(u)
            elif r < 0.97 and 'floats' in feats:
                ft = rng.choice([ir.f64, ir.f64, ir.f32])
                bits = rng.choice(FLOAT_BITS)
                x = struct.unpack('<d', bits.to_bytes(8, 'little'))[0]
                c = self.emit(ir.Const(x, self.nm('fc'), ft))
                if ft is ir.f64 and self.allocs and rng.random() < 0.6:
                    big = [(p, s) for p, s in self.allocs if s >= 8]
                    if big:
                        p, s = rng.choice(big)
                        self.emit(ir.Store(c, p))
                        self.emit(ir.Load(p, self.nm('fl'), ft))
                if 'ub' in feats and rng.random() < 0.1:
                    self.emit(ir.Binop(c, '+', c, self.nm('fb'), ft))
            else:
                env.setdefault(t, []).append(self.const(t))

    def memory(self, env, t):
        rng, feats = self.rng, self.feats
        size = t.bits // 8
        vol = 'volatile' in feats and rng.random() < 0.4
        choices = []
        if 'alloca' in feats:
            choices.append('alloc')
        gvars = [g for g in self.mg.gvars if g.name not in self.banned]
        if 'globals' in feats and gvars:
            choices.append('global')
        cands = [(p, s) for p, s in self.allocs if s >= size]
        if cands:
            choices += ['reuse', 'reuse']
        kind = rng.choice(choices)
        if kind == 'alloc':
            amount = rng.choice([8, 8, 12, 16, 24])
            a = self.emit(ir.Alloc(self.nm('alloc'), amount, rng.choice([1, 2, 4, 8])))
            p = self.emit(ir.AddressOf(a, self.nm('addr')))
            self.allocs.append((p, amount))
            total = amount
        elif kind == 'global':
            g = rng.choice(gvars)
            if g.amount < size:
                return
            p, total = g, g.amount
            if (g, g.amount) not in self.allocs:
                self.allocs.append((g, g.amount))
        else:
            p, total = rng.choice(cands)
        off = rng.choice([0, 0, rng.randint(0, total - size)])
        if rng.random() < 0.6 or kind == 'alloc':
            self.emit(ir.Store(self.get(env, t), self.ptr_at(p, off), vol))
        if rng.random() < 0.7:
            env.setdefault(t, []).append(self.emit(ir.Load(self.ptr_at(p, off), self.nm('ld'), t, vol)))

    def call(self, env):
        rng = self.rng
        cands = list(self.mg.callables)
        if 'extern' in self.feats:
            cands += self.mg.ext_callables
        if self.banned:
            cands = [c for c in cands if c[0].name not in self.banned]
        if not cands:
            return
        callee, argtys, ret = rng.choice(cands)
        args = []
        for k, t in enumerate(argtys):
            if args and argtys[k - 1] is t and rng.random() < 0.4:
                args.append(args[-1])                       # repeated argument
            else:
                args.append(self.get(env, t))
        if ret is None:
            self.emit(ir.ProcedureCall(callee, args))
        else:
            env.setdefault(ret, []).append(self.emit(ir.FunctionCall(callee, args, self.nm('r'), ret)))

    # -- control flow segments; env maps type -> dominating values
    def segment(self, env, depth):
        rng, feats = self.rng, self.feats
        kinds = ['straight']
        for k in ('diamond', 'loop', 'selfloop', 'dupedge'):
            if k in feats:
                kinds.append(k)
        kind = rng.choice(kinds) if self.budget > 0 else 'straight'
        t = rng.choice(self.types)
        if kind == 'straight':
            self.straight(env, rng.randint(1, 4))
        elif kind == 'diamond':
            a, b = self.get(env, t), self.get(env, t)
            yes, no, join = self.block('then'), self.block('else'), self.block('join')
            self.emit(ir.CJump(a, rng.choice(ir.CJump.conditions), b, yes, no))
            outs = []
            saved_allocs = list(self.allocs)
            for blk in (yes, no):
                self.cur = blk
                e2 = {k: list(v) for k, v in env.items()}
                self.allocs = list(saved_allocs)
                self.straight(e2, rng.randint(0, 3))
                if depth < 2 and rng.random() < 0.3:
                    self.segment(e2, depth + 1)
                v = self.get(e2, t)
                self.emit(ir.Jump(join))
                outs.append((self.cur, v))
            self.allocs = saved_allocs
            self.cur = join
            ph = self.emit(ir.Phi(self.nm('phi'), t))
            for blk, v in outs:
                ph.set_incoming(blk, v)
            env.setdefault(t, []).append(ph)
        elif kind == 'loop':
            n = self.const(t, rng.randint(0, 4))
            zero = self.const(t, 0)
            one = self.const(t, 1)
            acc0 = self.get(env, t)
            pre = self.cur
            head, body, done = self.block('head'), self.block('body'), self.block('done')
            self.emit(ir.Jump(head))
            self.cur = head
            i = self.emit(ir.Phi(self.nm('i'), t))
            acc = self.emit(ir.Phi(self.nm('acc'), t))
            self.emit(ir.CJump(i, '<', n, body, done))
            env.setdefault(t, []).extend([i, acc])
            self.cur = body
            e2 = {k: list(v) for k, v in env.items()}
            saved_allocs = list(self.allocs)
            self.straight(e2, rng.randint(1, 3))
            if depth < 2 and rng.random() < 0.3:
                self.segment(e2, depth + 1)
            acc2 = self.emit(ir.Binop(acc, rng.choice(['+', '^', '-', '*']), self.get(e2, t), self.nm('acc'), t))
            i2 = self.emit(ir.Binop(i, '+', one, self.nm('i'), t))
            self.emit(ir.Jump(head))
            latch = self.cur
            self.allocs = saved_allocs
            i.set_incoming(pre, zero)
            i.set_incoming(latch, i2)
            acc.set_incoming(latch, acc2)       # insertion order differs from predecessor order
            acc.set_incoming(pre, acc0)
            self.cur = done
        elif kind == 'selfloop':
            n = self.const(t, rng.randint(1, 4))
            zero = self.const(t, 0)
            one = self.const(t, 1)
            pre = self.cur
            loop, done = self.block('self'), self.block('after')
            self.emit(ir.Jump(loop))
            self.cur = loop
            i = self.emit(ir.Phi(self.nm('k'), t))
            e2 = {k: list(v) for k, v in env.items()}
            e2.setdefault(t, []).append(i)
            saved_allocs = list(self.allocs)
            self.straight(e2, rng.randint(0, 2))
            self.allocs = saved_allocs
            i2 = self.emit(ir.Binop(i, '+', one, self.nm('k'), t))
            self.emit(ir.CJump(i2, '<', n, loop, done))
            i.set_incoming(pre, zero)
            i.set_incoming(loop, i2)
            env.setdefault(t, []).extend([i, i2])
            self.cur = done
        elif kind == 'dupedge':
            a, b = self.get(env, t), self.get(env, t)
            pre = self.cur
            nxt = self.block('dup')
            self.emit(ir.CJump(a, rng.choice(ir.CJump.conditions), b, nxt, nxt))
            self.cur = nxt
            ph = self.emit(ir.Phi(self.nm('dp'), t))
            ph.set_incoming(pre, a)
            env.setdefault(t, []).append(ph)


class ModGen:
    def __init__(self, rng, size, feats, name):
        self.rng, self.size, self.feats = rng, size, feats
        self.m = ir.Module(name)
        self.gvars = []
        self.callables = []        # (callee value, [arg types], ret type | None)
        self.ext_callables = []
        self.vprefix = 'v_'

    def build(self):
        rng, feats, m = self.rng, self.feats, self.m
        if 'extern' in feats:
            for k in range(rng.randint(1, 2)):
                tys = [rng.choice(INT_TYPES) for _ in range(rng.randint(0, 3))]
                if rng.random() < 0.5:
                    rt = rng.choice(INT_TYPES)
                    e = ir.ExternalFunction('xf%d' % k, tys, rt)
                    self.ext_callables.append((e, tys, rt))
                else:
                    e = ir.ExternalProcedure('xp%d' % k, tys)
                    self.ext_callables.append((e, tys, None))
                m.add_external(e)
            if rng.random() < 0.5:
                m.add_external(ir.ExternalVariable('xv'))
        if 'globals' in feats:
            for k in range(rng.randint(1, 3)):
                amount = rng.choice([8, 8, 16, 24])
                r = rng.random()
                if r < 0.4:
                    value = None
                elif r < 0.7:
                    value = bytes(rng.randrange(256) for _ in range(amount))
                elif r < 0.85 or 'initref' not in feats or not self.gvars:
                    cut = rng.randint(1, amount - 1)
                    value = (bytes(rng.randrange(256) for _ in range(cut)),
                             bytes(rng.randrange(256) for _ in range(amount - cut)))
                else:
                    value = (bytes(rng.randrange(256) for _ in range(amount)), (ir.ptr, self.gvars[0].name))
                g = ir.Variable('g%d' % k, rng.choice([ir.Binding.GLOBAL, ir.Binding.LOCAL]), amount,
                                rng.choice([1, 4, 8]), value)
                m.add_variable(g)
                self.gvars.append(g)
        if 'shadow_global' in feats:
            m.add_variable(ir.Variable('sg0', ir.Binding.GLOBAL, 8, 8, None))
            m.add_external(ir.ExternalVariable('sx0'))
            m.add_external(ir.ExternalProcedure('sxp0', []))
        self.blobs = None
        if 'blob_types' in feats:
            shapes = rng.choice([[(8, 4), (8, 8), (16, 8)], [(8, 8), (8, 4), (12, 4)], [(16, 4), (16, 8), (8, 8), (8, 1)]])
            self.blobs = [ir.BlobDataTyp(sz, al) for sz, al in shapes]
            b0, b1 = self.blobs[0], self.blobs[1]
            self.bxf = ir.ExternalFunction('bxf', [b0, b1], b1)
            self.bxp = ir.ExternalProcedure('bxp', [b1, b0] + self.blobs[2:])
            m.add_external(self.bxf)
            m.add_external(self.bxp)
            bf = ir.Function('bf0', ir.Binding.GLOBAL, b1)
            m.add_function(bf)
            pa, pb = ir.Parameter('ba', b0), ir.Parameter('bb', b1)
            bf.add_parameter(pa)
            bf.add_parameter(pb)
            blk = ir.Block('bf0_entry')
            bf.add_block(blk)
            bf.entry = blk
            blk.add_instruction(ir.Return(pb))
        nfun = rng.randint(1, max(1, self.size))
        later = 'call_later' in feats and rng.random() < 0.7
        if later:
            nfun = max(nfun, 2)
            sigs = []
            for k in range(nfun):
                params = [rng.choice(INT_TYPES) for _ in range(rng.randint(0, 3))]
                binding = rng.choice([ir.Binding.GLOBAL, ir.Binding.LOCAL])
                rt = rng.choice(INT_TYPES) if rng.random() < 0.75 else None
                f = ir.Function('f%d' % k, binding, rt) if rt is not None else ir.Procedure('p%d' % k, binding)
                m.add_function(f)
                sigs.append((f, params, rt))
            for k in range(nfun):
                self.callables = sigs[k + 1:]          # only later functions: no recursion
                self.gen_body(*sigs[k], earlier=[x[0].name for x in sigs[:k]])
            self.callables = sigs
            return m
        for k in range(nfun):
            params = [rng.choice(INT_TYPES) for _ in range(rng.randint(0, 3))]
            binding = rng.choice([ir.Binding.GLOBAL, ir.Binding.LOCAL])
            if rng.random() < 0.75:
                rt = rng.choice(INT_TYPES)
                f = ir.Function('f%d' % k, binding, rt)
            else:
                rt = None
                f = ir.Procedure('p%d' % k, binding)
            m.add_function(f)
            self.gen_body(f, params, rt, earlier=[x[0].name for x in self.callables])
            self.callables.append((f, params, rt))
        return m

    def gen_body(self, f, params, rt, earlier):
        rng, feats = self.rng, self.feats
        clash = 'name_clash' in feats
        if clash:
            self.vprefix = rng.choice(['v_', 'g', 'f', ''])
        fg = FnGen(self, f, rng, feats, self.size)
        pnames = ['a%d' % j if not clash else rng.choice(['a0', 'g0', 'v_c']) for j in range(len(params))]
        if 'shadow_global' in feats and rng.random() < 0.8:
            pool = [g.name for g in self.gvars] + [e.name for e in self.m.externals] + list(earlier) + ['sg0']
            pool = [n for n in dict.fromkeys(pool) if n != f.name and n not in ('bxf', 'bxp', 'bf0')]
            chosen = rng.sample(pool, min(len(pool), rng.randint(1, 3)))
            fg.banned = set(chosen)
            for j in range(len(pnames)):
                if chosen and rng.random() < 0.6:
                    pnames[j] = chosen.pop()
            fg.shadow = chosen
        env = {}
        for j, t in enumerate(params):
            p = ir.Parameter(pnames[j], t)
            f.add_parameter(p)
            env.setdefault(t, []).append(p)
        fg.types = list(dict.fromkeys(fg.types + params[:1]))
        fg.cur = fg.block('entry')
        if fg.banned:
            for p in f.arguments:                       # shadowing parameters in typed positions
                if p.name in fg.banned:
                    env[p.ty].append(fg.emit(ir.Binop(p, '+', fg.const(p.ty), fg.nm('sp'), p.ty)))
            fg.shadow_prelude(env)                      # in the entry block: never a forward reference
        if self.blobs and rng.random() < 0.8:
            fg.blob_prelude(env)
        for _ in range(rng.randint(1, max(1, self.size))):
            fg.segment(env, 0)
        if rt is None:
            fg.emit(ir.Exit())
        else:
            fg.emit(ir.Return(fg.get(env, rt)))
        if 'shuffle' in feats and len(f.blocks) > 2 and rng.random() < 0.6:
            rest = f.blocks[1:]
            rng.shuffle(rest)
            f.blocks[1:] = rest


def gen_module(rng, size=3, features=None, name='gen'):
    feats = frozenset(ALL_FEATURES if features is None else features)
    unknown = feats - set(ALL_FEATURES) - set(EXTRA_FEATURES) - set(BLOB_FEATURES) - {'name_clash'}
    if unknown:
        raise ValueError('unknown features: %s' % sorted(unknown))
    m = ModGen(rng, size, feats, name).build()
    verify_module(m)
    return m


def gen_args(rng, function):
    out = []
    for p in function.arguments:
        lo, hi = rng_range(p.ty)
        out.append(rng.choice([0, 1, 2, 3, hi, lo, rng.randint(lo, hi)]))
    return out
