"""Systematic (not random) UB-free C translation units for the native differential search of C04.

Each program defines   unsigned char outbuf[OUTSZ];  int entry(void);   entry() fills outbuf with text lines and returns
the length (see DRIVER_GCC / START_C in tools/props/c04.py). A line `#<n>` opens group n; `groups[n]` is a human label
(function / type pair), so the first differing output line can be named. All operands come from volatile arrays, so
neither compiler can fold them. Undefined combinations (signed overflow, division by zero, MIN / -1, oversized or
negative-operand left shifts) are excluded statically by exact integer arithmetic here.
"""

OUTSZ = 1 << 18

TYPES = [  # (C name, short tag, bits, signed)
    ('signed char', 'sc', 8, True), ('unsigned char', 'uc', 8, False),
    ('short', 'ss', 16, True), ('unsigned short', 'us', 16, False),
    ('int', 'si', 32, True), ('unsigned', 'ui', 32, False),
    ('long', 'sl', 64, True), ('unsigned long', 'ul', 64, False),
    ('long long', 'sq', 64, True), ('unsigned long long', 'uq', 64, False),
]

PRELUDE = '''unsigned char outbuf[%d];
static int pos;
static void put_ch(int c) { outbuf[pos] = (unsigned char)c; pos = pos + 1; }
static void put_hex(unsigned long v, int digits)
{
    int k;
    for (k = digits * 4 - 4; k >= 0; k -= 4) {
        unsigned d = (unsigned)(v >> k) & 15u;
        put_ch((int)(d < 10u ? 48u + d : 87u + d));
    }
    put_ch(10);
}
static void group(int n)
{
    put_ch(35);
    put_hex((unsigned long)n, 4);
}
''' % OUTSZ


def tmin(bits, signed):
    return -(1 << (bits - 1)) if signed else 0


def tmax(bits, signed):
    return (1 << (bits - 1)) - 1 if signed else (1 << bits) - 1


def boundary(bits, signed):
    """0, 1, -1 (all ones), MIN, MAX, MAX/2+1"""
    mx = tmax(bits, signed)
    return [0, 1, -1 if signed else mx, tmin(bits, signed), mx, mx // 2 + 1]


def lit(v, name, bits, signed):
    """a C expression of the given type with value v"""
    if bits == 64:
        if signed:
            core = '(-9223372036854775807L - 1L)' if v == tmin(64, True) else '%dL' % v
        else:
            core = '%dUL' % v
        return '(%s)%s' % (name, core)
    if bits == 32 and signed and v == tmin(32, True):
        return '(-2147483647 - 1)'
    if bits == 32 and not signed:
        return '%dU' % v
    return '(%s)%s' % (name, ('(%d)' % v) if v < 0 else '%d' % v)


def utype(bits):
    return {8: 'unsigned char', 16: 'unsigned short', 32: 'unsigned', 64: 'unsigned long'}[bits]


def P(expr, bits):
    """print expr (of a type with `bits` bits) at its full width"""
    return 'put_hex((unsigned long)(%s)(%s), %d);' % (utype(bits), expr, bits // 4)


def promoted(bits, signed):
    return (32, True) if bits < 32 else (bits, signed)


# ------------------------------------------------------------------ (1) conversion matrix
def conversions():
    groups, L = [], [PRELUDE]
    for (n, t, b, s) in TYPES:
        L.append('volatile %s in_%s[6] = {%s};' % (n, t, ', '.join(lit(v, n, b, s) for v in boundary(b, s))))
        L.append('volatile %s mix_%s = %s;' % (n, t, lit(0x5a if b == 8 else 0x1234, n, b, s)))
        L.append('%s id_%s(%s x) { return x; }' % (n, t, n))
    body = []
    for (sn, st, sb, ss) in TYPES:
        fn = ['void from_%s(void)' % st, '{', '    int k;']
        for (dn, dt, db, ds) in TYPES:
            L.append('%s conv_%s_%s(%s x) { return x; }' % (dn, st, dt, sn))
            gid = len(groups)
            groups.append('conversion %s -> %s (return, assignment, cast, argument, xor, add/compare) on {0,1,-1,MIN,MAX,MAX/2+1}'
                          % (sn, dn))
            fn.append('    group(%d);' % gid)
            fn.append('    for (k = 0; k < 6; k++) {')
            fn.append('        %s x = in_%s[k]; %s a; %s m = mix_%s;' % (sn, st, dn, dn, dt))
            fn.append('        ' + P('conv_%s_%s(x)' % (st, dt), db))
            fn.append('        a = x; ' + P('a', db))
            fn.append('        ' + P('(%s)x' % dn, db))
            fn.append('        ' + P('id_%s(x)' % dt, db))
            fn.append('        a = m ^ x; ' + P('a', db))          # conversion inside arithmetic (no overflow possible)
            pb, ps = promoted(db, ds)
            cb, cs = promoted(sb, ss)
            common_unsigned = (not ps and pb >= cb) or (not cs and cb >= pb) or (pb == cb and (not ps or not cs))
            if common_unsigned:                                     # wrap-around addition is defined
                fn.append('        a = m + x; ' + P('a', db))
            fn.append('        ' + P('(unsigned)(x < m) + 2u * (unsigned)(m == x)', 32))
            fn.append('    }')
        fn.append('}')
        L.append('\n'.join(fn))
        body.append('    from_%s();' % st)
    L.append('int entry(void)\n{\n    pos = 0;\n%s\n    return pos;\n}\n' % '\n'.join(body))
    return 'conversion-matrix', '\n'.join(L), groups


# ------------------------------------------------------------------ (2) binary operators
BINOPS = ['+', '-', '*', '/', '%', '&', '|', '^']
CMPS = ['<', '<=', '>', '>=', '==', '!=']
COUNTS = [0, 1, 7, 15, 31, 63]
OPNAME = {'+': 'add', '-': 'sub', '*': 'mul', '/': 'div', '%': 'rem', '&': 'and', '|': 'or', '^': 'xor',
          '<': 'lt', '<=': 'le', '>': 'gt', '>=': 'ge', '==': 'eq', '!=': 'ne', '<<': 'shl', '>>': 'shr'}


def defined(op, a, b, bits, signed):
    pb, ps = promoted(bits, signed)
    lo, hi = tmin(pb, ps), tmax(pb, ps)
    if op in ('+', '-', '*'):
        if not ps:
            return True
        r = a + b if op == '+' else a - b if op == '-' else a * b
        return lo <= r <= hi
    if op in ('/', '%'):
        return b != 0 and not (ps and a == lo and b == -1)
    if op == '<<':
        if not (0 <= b < pb):
            return False
        return True if not ps else (a >= 0 and (a << b) <= hi)
    if op == '>>':
        return 0 <= b < pb
    return True


def operators():
    groups, L = [], [PRELUDE]
    body = []
    for (n, t, b, s) in TYPES:
        vals = boundary(b, s) + [2, 3 if not s else -3, 7]
        nv = len(vals)
        L.append('volatile %s v_%s[%d] = {%s};' % (n, t, nv, ', '.join(lit(v, n, b, s) for v in vals)))
        fn = ['void ops_%s(void)' % t, '{', '    int i, j;']
        for op in BINOPS + CMPS:
            cmpop = op in CMPS
            L.append('%s %s_%s(%s a, %s b) { return a %s b; }' % ('int' if cmpop else n, OPNAME[op], t, n, n, op))
            ok = [1 if defined(op, x, y, b, s) else 0 for x in vals for y in vals]
            gid = len(groups)
            groups.append('%s %s %s on boundary operands' % (n, op, n))
            fn.append('    group(%d);' % gid)
            guard = ''
            if not all(ok):
                L.append('static const unsigned char ok_%s_%s[%d] = {%s};' % (OPNAME[op], t, nv * nv, ','.join(map(str, ok))))
                guard = 'if (ok_%s_%s[i * %d + j]) ' % (OPNAME[op], t, nv)
            fn.append('    for (i = 0; i < %d; i++) for (j = 0; j < %d; j++) %s%s' % (
                nv, nv, guard, P('%s_%s(v_%s[i], v_%s[j])' % (OPNAME[op], t, t, t), 32 if cmpop else b)))
        for op in ('<<', '>>'):
            L.append('%s %s_%s(%s a, int c) { return a %s c; }' % (n, OPNAME[op], t, n, op))
            ok = [1 if defined(op, x, c, b, s) else 0 for x in vals for c in COUNTS]
            L.append('static const unsigned char ok_%s_%s[%d] = {%s};' % (OPNAME[op], t, nv * 6, ','.join(map(str, ok))))
            gid = len(groups)
            groups.append('%s %s count on boundary operands, counts %r' % (n, op, COUNTS))
            fn.append('    group(%d);' % gid)
            fn.append('    for (i = 0; i < %d; i++) for (j = 0; j < 6; j++) if (ok_%s_%s[i * 6 + j]) %s' % (
                nv, OPNAME[op], t, P('%s_%s(v_%s[i], counts[j])' % (OPNAME[op], t, t), b)))
        fn.append('}')
        L.append('\n'.join(fn))
        body.append('    ops_%s();' % t)
    L.insert(1, 'volatile int counts[6] = {%s};' % ', '.join(map(str, COUNTS)))
    L.append('int entry(void)\n{\n    pos = 0;\n%s\n    return pos;\n}\n' % '\n'.join(body))
    return 'operator-matrix', '\n'.join(L), groups


# ------------------------------------------------------------------ (3) memory widths, structs, many arguments
def memory():
    groups, L = [], [PRELUDE]
    W = [t for t in TYPES if t[1] not in ('sq', 'uq')]
    # arrays and pointers of every width
    L.append('struct mixed { signed char a; unsigned char b; short c; unsigned short d; int e; unsigned f; long g; '
             'unsigned long h; signed char tail; };')
    L.append('struct mixed gs; struct mixed garr[3];')
    for (n, t, b, s) in W:
        L.append('%s arr_%s[8];' % (n, t))
        L.append('volatile %s src_%s[6] = {%s};' % (n, t, ', '.join(lit(v, n, b, s) for v in boundary(b, s))))
        L.append('void store_%s(%s *p, int i, %s v) { p[i] = v; }' % (t, n, n))
        L.append('%s load_%s(%s *p, int i) { return p[i]; }' % (n, t, n))
        L.append('long wide_%s(%s *p) { return *p; }' % (t, n))
    body = ['    int i;', '    struct mixed ls; struct mixed *ps = &garr[1];', '    unsigned long rawl[4]; unsigned char *raw = (unsigned char *)rawl;']
    for (n, t, b, s) in W:
        gid = len(groups)
        groups.append('array/pointer store+load of %s (index, pointer arithmetic, neighbours untouched, widening load)' % n)
        body.append('    group(%d);' % gid)
        body.append('    for (i = 0; i < 8; i++) arr_%s[i] = %s;' % (t, lit(0x11 if b == 8 else 0x1111, n, b, s)))
        body.append('    for (i = 0; i < 6; i++) { store_%s(arr_%s, i + 1, src_%s[i]); %s %s %s }' % (
            t, t, t, P('load_%s(arr_%s + 1, i)' % (t, t), b), P('wide_%s(&arr_%s[i + 1])' % (t, t), 64),
            P('arr_%s[i] ^ arr_%s[i + 2]' % (t, t), b)))
    fields = [('a', 'sc'), ('b', 'uc'), ('c', 'ss'), ('d', 'us'), ('e', 'si'), ('f', 'ui'), ('g', 'sl'), ('h', 'ul')]
    bits = {t: b for (_, t, b, _) in TYPES}
    for who, acc in (('global struct', 'gs.'), ('local struct', 'ls.'), ('struct through pointer into array', 'ps->')):
        gid = len(groups)
        groups.append('%s: fields of every width written then read (and widened to long)' % who)
        body.append('    group(%d);' % gid)
        body.append('    for (i = 0; i < 6; i++) {')
        for f, t in fields:
            body.append('        %s%s = src_%s[i];' % (acc, f, t))
        body.append('        %stail = (signed char)(i - 3);' % acc)
        for f, t in fields:
            body.append('        %s %s' % (P('%s%s' % (acc, f), bits[t]), P('(long)%s%s' % (acc, f), 64)))
        body.append('        ' + P('%stail' % acc, 8))
        body.append('    }')
    gid = len(groups)
    groups.append('struct copy and byte-wise view of a 64/32/16-bit store')
    body.append('    group(%d);' % gid)
    body += ['    ls = garr[1]; ' + P('ls.g', 64) + ' ' + P('ls.c', 16) + ' ' + P('ls.tail', 8),
             '    for (i = 0; i < 32; i++) raw[i] = (unsigned char)i;',
             '    { unsigned long *p8 = (unsigned long *)(raw + 8); unsigned *p4 = (unsigned *)(raw + 4); unsigned short *p2 = (unsigned short *)(raw + 2);',
             '      *p8 = 0x8877665544332211UL; *p4 = 0xddccbbaaU; *p2 = (unsigned short)0xf1e2;',
             '      for (i = 0; i < 20; i++) ' + P('raw[i]', 8),
             '      ' + P('*p8', 64) + ' ' + P('*p4', 32) + ' ' + P('*p2', 16) + ' }']
    # many arguments: 7+ integer arguments (stack ones 32/64-bit only), mixed widths in registers
    L.append('unsigned long many7(int a, long b, unsigned c, unsigned long d, int e, long f, long g, unsigned long h, int i, unsigned j)\n'
             '{ return (unsigned long)a + 3UL * (unsigned long)b + 5UL * c + 7UL * d + 11UL * (unsigned long)e + 13UL * (unsigned long)f\n'
             '       + 17UL * (unsigned long)g + 19UL * h + 23UL * (unsigned long)i + 29UL * j; }')
    L.append('unsigned long mixed11(signed char a, unsigned char b, short c, unsigned short d, int e, unsigned f,\n'
             '                      long g, unsigned long h, int i, long j, unsigned k)\n'
             '{ return (unsigned long)a ^ ((unsigned long)b << 8) ^ ((unsigned long)c << 13) ^ ((unsigned long)d << 24)\n'
             '       ^ ((unsigned long)e << 3) ^ ((unsigned long)f << 17) ^ (unsigned long)g ^ (h << 1) ^ ((unsigned long)i << 40)\n'
             '       ^ ((unsigned long)j >> 3) ^ ((unsigned long)k << 29); }')
    L.append('long pick(int n, long a, long b, long c, long d, long e, long f, long g, long h)\n'
             '{ switch (n) { case 0: return a; case 1: return b; case 2: return c; case 3: return d; case 4: return e;\n'
             '  case 5: return f; case 6: return g; default: return h; } }')
    gid = len(groups)
    groups.append('calls with 10/11/9 integer arguments (register + stack, stack-passed ones 32/64-bit)')
    body.append('    group(%d);' % gid)
    body += ['    for (i = 0; i < 6; i++) {',
             '        ' + P('many7(src_si[i], src_sl[i], src_ui[i] & 0xffffU, src_ul[i] & 0xffffUL, i, -(long)i, src_sl[5 - i] / 64, '
                            'src_ul[5 - i] & 0xfffffUL, src_si[5 - i] / 64, src_ui[i] >> 8)', 64),
             '        ' + P('mixed11(src_sc[i], src_uc[i], src_ss[i], src_us[i], src_si[i], src_ui[i], src_sl[i], src_ul[i], '
                            'src_si[5 - i], src_sl[5 - i], src_ui[5 - i])', 64),
             '        ' + P('pick(i + 2, 1L, 2L, 3L, src_sl[i], 5L, -6L, src_sl[5 - i], (long)src_si[i])', 64),
             '    }']
    L.append('int entry(void)\n{\n%s\n    pos = 0;\n%s\n    return pos;\n}\n' % ('\n'.join(body[:3]), '\n'.join(body[3:])))
    return 'memory-and-arguments', '\n'.join(L), groups


# ------------------------------------------------------------------ (4) displacements at the disp8 / disp32 / 32K boundaries
def displacements():
    groups, L = [], [PRELUDE]
    L += ['struct sa { int a[30]; int m120; int m124; int m128; int m132; int fill[29]; int m252; int m256; };',
          'struct sc { char c[126]; char m126; char m127; char m128; char m129; char m130; };',
          'struct sh { short s[62]; short m124; short m126; short m128; short m130; };',
          'struct sl { long l[14]; long m112; long m120; long m128; long m136; };',
          'struct sb { int a[8190]; int m32760; int m32764; int m32768; int m32772; };',
          'struct sa ga; struct sc gc; struct sh gh; struct sl gl; struct sb gb; struct sa gaa[3]; struct sl gla[3];',
          'volatile int seed = 0x01020304;', 'volatile int vidx = 1;']
    members = {'sa': ['m120', 'm124', 'm128', 'm132', 'm252', 'm256'], 'sc': ['m126', 'm127', 'm128', 'm129', 'm130'],
               'sh': ['m124', 'm126', 'm128', 'm130'], 'sl': ['m112', 'm120', 'm128', 'm136'],
               'sb': ['m32760', 'm32764', 'm32768', 'm32772']}
    bits = {'sa': 32, 'sc': 8, 'sh': 16, 'sl': 64, 'sb': 32}
    cty = {'sa': 'int', 'sc': 'char', 'sh': 'short', 'sl': 'long', 'sb': 'int'}
    body = ['    int i, k;', '    struct sa la; struct sc lc; struct sh lh; struct sl ll;', '    int mid[80]; char cmid[300]; long lmid[40];']
    for st, ms in members.items():
        for m in ms:       # one store and one load function per member, through a pointer
            L.append('void st_%s_%s(struct %s *p, %s v) { p->%s = v; }' % (st, m, st, cty[st], m))
            L.append('%s ld_%s_%s(struct %s *p) { return p->%s; }' % (cty[st], st, m, st, m))
            L.append('%s *ad_%s_%s(struct %s *p) { return &p->%s; }' % (cty[st], st, m, st, m))
    val = lambda k: '(seed * %d + %d)' % (2 * k + 3, k)
    for st, ms in members.items():
        targets = [('global', 'g' + st[1]), ] + ([('local', 'l' + st[1])] if st != 'sb' else [])
        for who, var in targets:
            gid = len(groups)
            groups.append('struct %s members %s of a %s object: direct store, load through pointer, store through pointer, '
                          'direct load, address-of' % (st, '/'.join(ms), who))
            body.append('    group(%d);' % gid)
            for k, m in enumerate(ms):
                body.append('    %s.%s = (%s)%s;' % (var, m, cty[st], val(k)))
            for k, m in enumerate(ms):
                body.append('    ' + P('ld_%s_%s(&%s)' % (st, m, var), bits[st]))
            for k, m in enumerate(ms):
                body.append('    st_%s_%s(&%s, (%s)%s);' % (st, m, var, cty[st], val(k + 7)))
            for k, m in enumerate(ms):
                body.append('    ' + P('%s.%s' % (var, m), bits[st]))
            for k, m in enumerate(ms):
                body.append('    *ad_%s_%s(&%s) = (%s)%s; ' % (st, m, var, cty[st], val(k + 13)) + P('*(&%s.%s)' % (var, m), bits[st]))
                body.append('    ' + P('(long)((char *)&%s.%s - (char *)&%s)' % (var, m, var), 32))
    for st, arr in (('sa', 'gaa'), ('sl', 'gla')):
        gid = len(groups)
        groups.append('array of struct %s: members at 120..256 of element [1] (constant index), [vidx] and [vidx-1]' % st)
        body.append('    group(%d);' % gid)
        for k, m in enumerate(members[st]):
            body.append('    %s[1].%s = (%s)%s; %s[vidx - 1].%s = (%s)%s;' % (arr, m, cty[st], val(k + 20), arr, m, cty[st], val(k + 30)))
        for k, m in enumerate(members[st]):
            body.append('    ' + P('%s[vidx].%s' % (arr, m), bits[st]) + ' ' + P('%s[0].%s' % (arr, m), bits[st]) +
                        ' ' + P('ld_%s_%s(&%s[vidx])' % (st, m, arr), bits[st]))
    # negative displacements through p[-k]
    negs = [('int', 'mid', 32, [31, 32, 33, 30, 1, 63, 64, 65]), ('char', 'cmid', 8, [124, 127, 128, 129, 132, 1, 255, 256, 257]),
            ('long', 'lmid', 64, [15, 16, 17, 31, 32])]
    for ty, arr, b, ks in negs:
        for k in ks:
            L.append('%s ldn_%s_%d(%s *p) { return p[-%d]; }' % (ty, arr, k, ty, k))
            L.append('void stn_%s_%d(%s *p, %s v) { p[-%d] = v; }' % (arr, k, ty, ty, k))
        n = {'mid': 80, 'cmid': 300, 'lmid': 40}[arr]
        base = {'mid': 70, 'cmid': 280, 'lmid': 36}[arr]
        gid = len(groups)
        groups.append('%s *p: p[-k] load and store for k in %r (byte offsets %r)' % (ty, ks, [-k * b // 8 for k in ks]))
        body.append('    group(%d);' % gid)
        body.append('    for (i = 0; i < %d; i++) %s[i] = (%s)(seed + i * 3);' % (n, arr, ty))
        for k in ks:
            body.append('    ' + P('ldn_%s_%d(%s + %d)' % (arr, k, arr, base), b))
        for j, k in enumerate(ks):
            body.append('    stn_%s_%d(%s + %d, (%s)%s);' % (arr, k, arr, base, ty, val(j + 40)))
        body.append('    for (i = 0; i < %d; i++) %s' % (n, P('%s[i]' % arr, b)))
    # a frame whose slots cross -128 / +128 from the frame pointer: constant indices into locals, many stack arguments
    # three small functions (ppci's interference graph is quadratic); store and load of an element next to each other
    def frame_fn(name, decl, lines):
        L.append('unsigned long %s(unsigned long s)\n{\n    %s unsigned long r = 0UL;\n%s\n    return r;\n}' % (name, decl, '\n'.join(lines)))
    frame_fn('frame_a', 'volatile int a[72];',
             ['    a[%d] = (int)(s + %dUL); r = r * 3UL + (unsigned long)a[%d];' % (k, k * 5 + 1, k) for k in range(72)]
             + ['    r = r * 7UL + (unsigned long)a[%d];' % k for k in (0, 31, 32, 33, 71)])
    cs = list(range(0, 20)) + list(range(118, 150))
    frame_fn('frame_c', 'volatile unsigned char c[150];',
             ['    c[%d] = (unsigned char)(s + %dUL); r = r * 5UL + (unsigned long)c[%d];' % (k, k, k) for k in cs]
             + ['    r = r * 7UL + (unsigned long)c[%d];' % k for k in (0, 19, 127, 128, 129, 149)])
    frame_fn('frame_w', 'volatile long w[20];',
             ['    w[%d] = (long)(s * %dUL); r = r ^ ((unsigned long)w[%d] << %d);' % (k, k + 2, k, k) for k in range(20)]
             + ['    r = r * 7UL + (unsigned long)w[%d];' % k for k in (0, 3, 4, 15, 16, 19)])
    nargs = 30
    L.append('unsigned long manyargs(%s)\n{ return %s; }' % (
        ', '.join('unsigned long a%d' % k for k in range(nargs)),
        ' ^ '.join('(a%d * %dUL)' % (k, 2 * k + 3) for k in range(nargs))))
    L.append('unsigned long pickarg(int n, %s)\n{\n    switch (n) {\n%s\n    default: return 0UL; }\n}' % (
        ', '.join('unsigned long a%d' % k for k in range(nargs)),
        '\n'.join('    case %d: return a%d;' % (k, k) for k in range(nargs))))
    gid = len(groups)
    groups.append('frame with locals at constant offsets across +-128 from the frame pointer; 30 (stack) arguments')
    body.append('    group(%d);' % gid)
    for f in ('frame_a', 'frame_c', 'frame_w'):
        body.append('    ' + P('%s((unsigned long)seed)' % f, 64) + ' ' + P('%s(3UL)' % f, 64))
    args = ', '.join('(unsigned long)seed + %dUL' % (k * 1000003) for k in range(nargs))
    body.append('    ' + P('manyargs(%s)' % args, 64))
    body.append('    for (k = 0; k < %d; k++) %s' % (nargs, P('pickarg(k, %s)' % args, 64)))
    # one small function per group (register allocation of one huge function is slow in ppci)
    chunks = []
    for line in body[3:]:
        if line.startswith('    group('):
            chunks.append([])
        chunks[-1].append(line)
    for n, ch in enumerate(chunks):
        text = '\n'.join(ch)
        decls = [d for d, names in ((body[0], ('i', 'k')), ('    struct sa la;', ('la',)), ('    struct sc lc;', ('lc',)),
                                    ('    struct sh lh;', ('lh',)), ('    struct sl ll;', ('ll',)), ('    int mid[80];', ('mid',)),
                                    ('    char cmid[300];', ('cmid',)), ('    long lmid[40];', ('lmid',)))
                 if any(__import__('re').search(r'\b%s\b' % nm, text) for nm in names)]
        L.append('void grp_%d(void)\n{\n%s\n%s\n}' % (n, '\n'.join(decls), text))
    L.append('int entry(void)\n{\n    pos = 0;\n%s\n    return pos;\n}\n' % '\n'.join('    grp_%d();' % n for n in range(len(chunks))))
    return 'displacement-boundaries', '\n'.join(L), groups


# ------------------------------------------------------------------ (5) immediate operands at the imm8 / imm32 boundaries
def immediates():
    groups, L = [], [PRELUDE]
    body = []
    u64 = [0, 1, 0x7f, 0x80, 0xff, 0x100, 0x7fff, 0x8000, 0xffff, 0x10000, 0x7fffffff, 0x80000000, 0xF0000000, 0xffffffff,
           0x100000000, 0x7fffffffffffffff, 0x8000000000000000, 0xffffffffffffff80, 0xffffffff80000000, 0xffffffffffffffff]
    s64 = [0, 1, -1, 0x7f, 0x80, -128, -129, 0x7fff, 0x8000, -32768, -32769, 0x7fffffff, 0x80000000, -0x80000000, -0x80000001,
           0xffffffff, 0x100000000, tmax(64, True), tmin(64, True)]
    u32 = [c for c in u64 if c < (1 << 32)]
    s32 = [c for c in s64 if tmin(32, True) <= c <= tmax(32, True)]
    for (n, t, b, s), pool in ((TYPES[4], s32), (TYPES[5], u32), (TYPES[6], s64), (TYPES[7], u64)):
        xs = boundary(b, s) + ([0x12345678, 0x7ffffff0] if b == 32 else [0x123456789abcdef0 if not s else 0x123456789abcdef0 >> 1, 0x80000000, 0xffffffff])
        L.append('volatile %s x_%s[%d] = {%s};' % (n, t, len(xs), ', '.join(lit(v, n, b, s) for v in xs)))
        for k, c in enumerate(pool):
            cl = lit(c, n, b, s)
            ops = ['&', '|', '^'] + (['+', '-', '*'] if not s else [])
            lines = ['void imm_%s_%d(%s x)' % (t, k, n), '{']
            for op in ops:
                lines.append('    ' + P('x %s %s' % (op, cl), b))
            for op in ('<', '==', '>='):
                lines.append('    ' + P('(unsigned)(x %s %s)' % (op, cl), 8))
            if c not in (0, -1):
                lines.append('    ' + P('x / %s' % cl, b) + ' ' + P('x %% %s' % cl, b))
            lines.append('}')
            L.append('\n'.join(lines))
            gid = len(groups)
            groups.append('%s x OP constant %s (%s): & | ^%s < == >= / %%' % (n, hex(c), cl, ' + - *' if not s else ''))
            body.append('    group(%d); for (i = 0; i < %d; i++) imm_%s_%d(x_%s[i]);' % (gid, len(xs), t, k, t))
    L.append('int entry(void)\n{\n    int i;\n    pos = 0;\n%s\n    return pos;\n}\n' % '\n'.join(body))
    return 'immediate-operands', '\n'.join(L), groups


def programs():
    return [conversions(), operators(), memory(), displacements(), immediates()]


def first_difference(groups, want, got):
    """-> (label of the group holding the first differing line, line number, expected line, actual line)"""
    wl, gl = want.split('\n'), got.split('\n')
    cur = None
    for k in range(max(len(wl), len(gl))):
        a = wl[k] if k < len(wl) else '<missing>'
        b = gl[k] if k < len(gl) else '<missing>'
        if a.startswith('#'):
            try:
                cur = groups[int(a[1:], 16)]
            except (ValueError, IndexError):
                cur = None
        if a != b:
            return cur or 'before the first group', k + 1, a, b
    return None
