"""build /verif/MANIFEST.json from the property modules (tools/props/cNN.py).
A module is claimed when it defines MANIFEST = {'text', 'note', 'technique'}; every other
property of properties.jsonl is listed under not_applicable with the reason recorded in
tools/props/unclaimed.json (default: designed in DESIGN.md §4 but not built)."""
import importlib
import json
import os
import sys
HERE = os.path.dirname(os.path.abspath(__file__))
VERIF = os.path.dirname(HERE)
sys.path.insert(0, HERE)
props = [json.loads(l) for l in open(os.path.join(VERIF, 'properties.jsonl'))]
unclaimed = {}
p = os.path.join(HERE, 'props', 'unclaimed.json')
if os.path.exists(p):
    unclaimed = json.load(open(p))
checks, na = [], []
claimed = set(json.load(open(os.path.join(HERE, 'props', 'claimed.json'))))
for pr in props:
    pid = pr['id']
    modfile = os.path.join(HERE, 'props', pid.lower() + '.py')
    mod = None
    if pid in claimed and os.path.exists(modfile):
        mod = importlib.import_module('props.' + pid.lower())
    if pid in claimed and mod is not None and hasattr(mod, 'MANIFEST'):
        m = mod.MANIFEST
        checks.append({
            'property_id': pid,
            'quick_cmd': './check %s --tier quick' % pid,
            'thorough_cmd': './check %s --tier thorough' % pid,
            'evidence_file': 'evidence/%s.json' % pid,
            'replay_cmd_template': './check %s --replay {path}' % pid,
            'engine': 'coq',
            'level_claimed': {'category': mod.LEVEL, 'text': m['text'], 'design_ref': 'DESIGN.md §4 ' + pid},
            'level_note': m['note'],
            'technique': m['technique'],
        })
    else:
        na.append({'property_id': pid, 'reason': unclaimed.get(
            pid, 'no executable-model theorem has been built for this property yet (designed in DESIGN.md §4, '
                 'not reached); nothing is claimed and no other technique is substituted')})
man = {
    'version': 1,
    'setup_cmd': './setup.sh',
    'hooks': {'guard': 'PPCI_VERIF', 'enable': 'no source hooks: all observation points are wrapped from the harness (PPCI_VERIF reserved, unused)',
              'baseline_off_cmd': 'cd /repo && /venv/bin/python -m pytest -ra -q -p no:cacheprovider --timeout=900 --continue-on-collection-errors',
              'source_commits': [], 'add_only': True},
    'engines': [{'name': 'coq', 'path': 'coq/', 'serves_properties': [c['property_id'] for c in checks],
                 'kind_free_text': 'Coq 8.16.1 development (Lib/Spec/Gen/Model/Proofs/Props); models regenerated from /repo by tools/py2coq.py '
                                   'and table exporters, or hand-written and tied by differential correspondence run inside coqc (vm_compute)'}],
    'checks': checks,
    'not_applicable': na,
    'notes': 'Technique family: machine-checked proof in Coq. See DESIGN.md. Known findings: known_findings.json. '
             'Properties under not_applicable are those for which no theorem exists yet; the reason says whether that is for lack of time or by nature.',
}
with open(os.path.join(VERIF, 'MANIFEST.json'), 'w') as f:
    json.dump(man, f, indent=1)
print('claimed', [c['property_id'] for c in checks])
