"""flipknown.py <property> <commit> key=value [key=value ...]
Mark the known_findings.json entries of <property> whose `match` contains every given key=value
(value compared as string, or as substring of the JSON of a non-string value) as fixed by <commit>.
Used by the coordinator after a `fix:` commit, only for entries whose deterministic witness was
re-run and no longer fails (see DESIGN §10.3)."""
import json
import os
import sys
V = os.path.dirname(os.path.dirname(os.path.abspath(__file__)))
P = os.path.join(V, 'known_findings.json')


def main():
    prop, commit = sys.argv[1], sys.argv[2]
    want = dict(a.split('=', 1) for a in sys.argv[3:])
    k = json.load(open(P))
    n = 0
    for e in k['findings']:
        if e.get('property') != prop or e.get('status') != 'known':
            continue
        m = e.get('match', {})
        ok = True
        for key, val in want.items():
            if key not in m:
                ok = False
            elif isinstance(m[key], str):
                ok = ok and m[key] == val
            else:
                ok = ok and val in json.dumps(m[key])
        if ok:
            e['status'] = 'fixed'
            e['commit'] = commit
            n += 1
            print('flipped', prop, json.dumps(m)[:140])
    if n:
        json.dump(k, open(P, 'w'), indent=1)
    else:
        print('NO MATCH', prop, want)


main()
