#!/venv/bin/python
"""seedtest.py <seed-dir> [--prop Cnn] — confirm a seeded change and run the property's check on it.

<seed-dir> contains patch.diff, demo.py, meta.json (written by an independent sub-agent that saw
only the property text). Steps (all in a scratch worktree, /repo is never touched):
  1. worktree of /repo HEAD + patch        2. baseline test-suite must still give 1400 passed
  3. demo.py fails on the patched tree and passes on /repo
  4. VERIF_REPO=<worktree> ./check Cnn --tier quick  -> expect exit 1 + VIOLATION line
  5. result written to /verif/seeded/<id>/ (patch.diff, demo.py, meta.json with what was run)
"""
import json
import os
import re
import shutil
import subprocess
import sys

VERIF = os.path.dirname(os.path.dirname(os.path.abspath(__file__)))


def sh(cmd, env=None, cwd=None, timeout=3000):
    e = dict(os.environ)
    e.update(env or {})
    p = subprocess.run(cmd, shell=True, env=e, cwd=cwd, stdout=subprocess.PIPE, stderr=subprocess.STDOUT,
                       text=True, timeout=timeout)
    out = '\n'.join(l for l in p.stdout.splitlines() if 'conda.cli' not in l)
    return p.returncode, out


def main():
    d = os.path.abspath(sys.argv[1])
    sid = os.path.basename(d.rstrip('/'))
    if '--tag' in sys.argv:
        sid = sys.argv[sys.argv.index('--tag') + 1] + '-' + sid
    meta = json.load(open(os.path.join(d, 'meta.json')))
    if meta.get('failed'):
        print(sid, 'seeding agent gave up:', meta['failed'])
        return 2
    prop = meta.get('property', os.path.basename(d.rstrip('/'))[:3])
    if '--prop' in sys.argv:
        prop = sys.argv[sys.argv.index('--prop') + 1]
    wt = '/tmp/sw-' + sid
    sh('git -C /repo worktree remove --force %s' % wt)
    rc, out = sh('git -C /repo worktree add --detach %s HEAD' % wt)
    res = {'seed': sid, 'property': prop}
    try:
        rc, out = sh('git -C %s apply %s' % (wt, os.path.join(d, 'patch.diff')))
        res['patch_applies'] = rc == 0
        if rc != 0:
            print(sid, 'PATCH DOES NOT APPLY', out[-300:])
            return 2
        rc, out = sh('/venv/bin/python -m pytest -q -p no:cacheprovider --timeout=900 2>&1 | tail -3', cwd=wt,
                     env={'PYTHONPATH': wt})
        m = re.search(r'(\d+) passed', out)
        failed = re.search(r'(\d+) failed', out)
        res['baseline'] = out.strip().splitlines()[-1] if out.strip() else ''
        res['baseline_ok'] = bool(m and int(m.group(1)) >= 1400 and not failed)
        rc1, o1 = sh('/venv/bin/python %s' % os.path.join(d, 'demo.py'), env={'PYTHONPATH': wt, 'PYTHONHASHSEED': '0'}, cwd='/tmp', timeout=900)
        rc2, o2 = sh('/venv/bin/python %s' % os.path.join(d, 'demo.py'), env={'PYTHONPATH': '/repo', 'PYTHONHASHSEED': '0'}, cwd='/tmp', timeout=900)
        res['demo_on_patched'] = 'FAIL' if rc1 != 0 else 'PASS'
        res['demo_on_head'] = 'FAIL' if rc2 != 0 else 'PASS'
        res['confirmed'] = res['baseline_ok'] and rc1 != 0 and rc2 == 0
        rc, out = sh('./check %s --tier quick' % prop, env={'VERIF_REPO': wt}, cwd=VERIF, timeout=3000)
        viol = [l for l in out.splitlines() if l.startswith('VIOLATION')]
        res['check_exit'] = rc
        res['check_violation_lines'] = viol[:4]
        res['check_result_line'] = [l for l in out.splitlines() if l.startswith('RESULT')][-1:]
        res['detected'] = rc == 1 and bool(viol)
        res['detected_with_input'] = any('no-failing-input-found' not in v for v in viol)
        # keep the first replay for the record
        if viol:
            m = re.search(r'replay=(\S+)', viol[0])
            if m and os.path.exists(m.group(1)):
                try:
                    res['first_replay'] = json.load(open(m.group(1)))
                    if isinstance(res['first_replay'], dict):
                        res['first_replay'].pop('failed_stages', None)
                        res['first_replay'] = json.loads(json.dumps(res['first_replay'], default=str)[:1500]) \
                            if len(json.dumps(res['first_replay'], default=str)) < 1500 else \
                            {'truncated': json.dumps(res['first_replay'], default=str)[:1200]}
                except Exception:   # noqa: BLE001
                    pass
    finally:
        sh('git -C /repo worktree remove --force %s' % wt)
        # replays written while testing a seeded change are not findings about /repo
        sh('rm -f %s/replays/%s-*.json' % (VERIF, prop))
    out_dir = os.path.join(VERIF, 'seeded', sid)
    os.makedirs(out_dir, exist_ok=True)
    for f in ('patch.diff', 'demo.py'):
        if os.path.abspath(d) != os.path.abspath(out_dir):
            shutil.copy(os.path.join(d, f), os.path.join(out_dir, f))
    meta['verification'] = res
    meta['ran'] = ['git worktree of /repo HEAD + patch.diff',
                   'baseline in patched tree: ' + res.get('baseline', ''),
                   'demo.py on patched tree: ' + res.get('demo_on_patched', '?'),
                   'demo.py on /repo HEAD: ' + res.get('demo_on_head', '?'),
                   'VERIF_REPO=<patched tree> ./check %s --tier quick: exit %s, %d VIOLATION line(s)' % (
                       prop, res.get('check_exit'), len(res.get('check_violation_lines', [])))]
    with open(os.path.join(out_dir, 'meta.json'), 'w') as f:
        json.dump(meta, f, indent=1)
    print(sid, 'confirmed=%s detected=%s with_input=%s' % (res.get('confirmed'), res.get('detected'),
                                                         res.get('detected_with_input')),
          res.get('baseline', ''), res.get('check_result_line'))
    return 0


if __name__ == '__main__':
    sys.exit(main())
