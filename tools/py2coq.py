#!/usr/bin/env python3
"""py2coq — fail-closed translator from a small pure subset of Python to Gallina.

Tie "T" of DESIGN.md §1.2: on every check run the named functions are re-read
from /repo's working tree with `ast` and the Coq definitions in coq/Gen/*.v are
regenerated; the theorems are stated about the regenerated definitions.

Anything outside the supported subset raises Unsupported (fail-closed): the
check then reports that the tie no longer holds rather than guessing.

Model conventions (see coq/Lib/Py.v):
  int -> Z, bool -> bool, list/bytes/bytearray of int -> list Z, list of bool -> list bool
  iterator of ints (``next(data)``) -> list Z threaded through; such functions
      return (value, remaining iterator)
  explicit ``raise X`` -> Diag <code>;  assert / implicit Python failures
      (ZeroDivisionError, negative shift, IndexError, StopIteration, bytes range)
      -> Internal <kind>
  ``while`` -> top-level Fixpoint on explicit fuel (OutOfFuel when exhausted)
  ``for`` -> top-level Fixpoint structurally recursive on the iterated list
  functions without any failure source are emitted as plain (non-monadic) terms
"""
import ast
import hashlib
import os
import sys
import textwrap

RESERVED = {
    'as', 'at', 'cofix', 'else', 'end', 'exists', 'exists2', 'fix', 'for', 'forall', 'fun',
    'if', 'IF', 'in', 'let', 'match', 'mod', 'Prop', 'return', 'Set', 'then', 'Type',
    'using', 'where', 'with', 'len', 'bind', 'guard', 'Ok', 'Diag', 'Internal', 'fuel',
    'rev', 'map', 'length', 'nil', 'cons', 'true', 'false', 'Next', 'Ret', 'bits_', 'id',
    'sum', 'max', 'min', 'abs', 'nat', 'Z', 'list', 'bool', 'option', 'Some', 'None',
}

DIAG_CODES = {'ValueError': 1, 'TypeError': 2, 'NotImplementedError': 3, 'KeyError': 4,
              'IndexError': 5, 'RuntimeError': 6, 'CompilerError': 7, 'HexFileException': 8,
              'TaskError': 9, 'OverflowError': 10}


class Unsupported(Exception):
    pass


def cname(n):
    return n + '_' if n in RESERVED else n


def zlit(v):
    return str(v) if v >= 0 else '(%d)' % v


def coq_type(t):
    if t == 'int':
        return 'Z'
    if t == 'bool':
        return 'bool'
    if t in ('list', 'bytes', 'iter'):
        return 'list Z'
    if t == 'blist':
        return 'list bool'
    if t.startswith('tuple:'):
        return '(' + ' * '.join(coq_type(x) for x in t[6:].split(',')) + ')'
    raise Unsupported('type ' + t)


def default_of(t):
    if t == 'int':
        return '0'
    if t == 'bool':
        return 'false'
    if t in ('list', 'bytes', 'iter', 'blist'):
        return '[]'
    raise Unsupported('default of ' + t)


# ---------------------------------------------------------------- term IR
# ('ret', text) | ('let', pat, text, body) | ('seq', pat, sub, body)
# ('if', c, a, b) | ('raise', text) | ('guard', cond, errtext, body)
# ('mcall', pat, calltext, body)   monadic call (bind)
# ('next', var, it, body)          next(iterator)
# ('matchctl', calltext, pat, body, retfn)  loop with return
# ('fuelmatch', body) | ('listmatch', lvar, ivar, nilbody, consbody)

class FnInfo:
    def __init__(self, name, params, ptypes, ret, pure, iters):
        self.name, self.params, self.ptypes, self.ret, self.pure, self.iters = \
            name, params, ptypes, ret, pure, iters


def stmts_have(stmts, kinds, into_loops=False):
    """does the statement list contain a node of the given kinds at this loop level"""
    for s in stmts:
        if isinstance(s, kinds):
            return True
        if isinstance(s, ast.If):
            if stmts_have(s.body, kinds, into_loops) or stmts_have(s.orelse, kinds, into_loops):
                return True
        if isinstance(s, (ast.While, ast.For)):
            # break/continue inside a nested loop belong to that loop; return/raise do not
            inner = tuple(k for k in kinds if k in (ast.Return,))
            if into_loops:
                inner = kinds
            if inner and (stmts_have(s.body, inner, into_loops)):
                return True
    return False


def assigned_vars(stmts):
    out = []

    def add(n):
        if n not in out:
            out.append(n)

    def tgt(t):
        if isinstance(t, ast.Name):
            add(t.id)
        elif isinstance(t, ast.Tuple):
            for e in t.elts:
                tgt(e)
        elif isinstance(t, ast.Subscript):
            if isinstance(t.value, ast.Name):
                add(t.value.id)
        else:
            raise Unsupported('assignment target ' + ast.dump(t))

    def walk(ss):
        for s in ss:
            if isinstance(s, ast.Assign):
                for t in s.targets:
                    tgt(t)
                find_next(s.value)
            elif isinstance(s, ast.AugAssign):
                tgt(s.target)
            elif isinstance(s, ast.AnnAssign):
                tgt(s.target)
            elif isinstance(s, ast.Expr):
                c = s.value
                if (isinstance(c, ast.Call) and isinstance(c.func, ast.Attribute)
                        and c.func.attr in ('append', 'extend')
                        and isinstance(c.func.value, ast.Name)):
                    add(c.func.value.id)
                find_next(c)
            elif isinstance(s, ast.If):
                walk(s.body)
                walk(s.orelse)
            elif isinstance(s, ast.While):
                walk(s.body)
            elif isinstance(s, ast.For):
                tgt(s.target)
                walk(s.body)

    def find_next(e):
        for n in ast.walk(e):
            if (isinstance(n, ast.Call) and isinstance(n.func, ast.Name) and n.func.id == 'next'
                    and n.args and isinstance(n.args[0], ast.Name)):
                add(n.args[0].id)

    walk(stmts)
    return out


def read_vars(node_or_list):
    out = []
    nodes = node_or_list if isinstance(node_or_list, list) else [node_or_list]
    for n in nodes:
        for x in ast.walk(n):
            if isinstance(x, ast.Name) and x.id not in out:
                out.append(x.id)
    return out


class FnTranslator:
    def __init__(self, mod, fn, sig, known):
        self.mod = mod
        self.fn = fn
        self.name = fn.name
        self.known = known          # name -> FnInfo
        self.defs = []              # emitted loop definitions (text)
        self.nloops = 0
        self.ntmp = 0
        self.sig = sig
        self.guards = []
        self.pre = []
        self.path = []

    # ---------------------------------------------------------- expressions
    def fresh(self, base='t'):
        self.ntmp += 1
        return '%s%d_' % (base, self.ntmp)

    def add_guard(self, cond, err):
        if self.path:
            cond = 'implb (%s) (%s)' % (' && '.join('(%s)' % p for p in self.path), cond)
        self.guards.append((cond, err))

    def expr(self, e, sc):
        """returns (coq text, type)"""
        if isinstance(e, ast.Constant):
            if isinstance(e.value, bool):
                return ('true' if e.value else 'false'), 'bool'
            if isinstance(e.value, int):
                return zlit(e.value), 'int'
            if isinstance(e.value, bytes):
                return '[' + '; '.join(str(b) for b in e.value) + ']', 'bytes'
            raise Unsupported('constant %r' % (e.value,))
        if isinstance(e, ast.Name):
            if e.id not in sc:
                raise Unsupported('unknown variable ' + e.id)
            return cname(e.id), sc[e.id]
        if isinstance(e, ast.UnaryOp):
            v, t = self.expr(e.operand, sc)
            if isinstance(e.op, ast.USub) and t == 'int':
                return '(- %s)' % v, 'int'
            if isinstance(e.op, ast.Invert) and t == 'int':
                return '(Z.lnot %s)' % v, 'int'
            if isinstance(e.op, ast.Not):
                return '(negb %s)' % self.as_bool(v, t), 'bool'
            raise Unsupported('unary op')
        if isinstance(e, ast.BinOp):
            return self.binop(e, sc)
        if isinstance(e, ast.BoolOp):
            vals = []
            saved = list(self.path)
            for i, x in enumerate(e.values):
                v, t = self.expr(x, sc)
                b = self.as_bool(v, t)
                vals.append(b)
                if isinstance(e.op, ast.And):
                    self.path.append(b)
                else:
                    self.path.append('negb (%s)' % b)
            self.path = saved
            op = ' && ' if isinstance(e.op, ast.And) else ' || '
            return '(' + op.join('(%s)' % v for v in vals) + ')', 'bool'
        if isinstance(e, ast.Compare):
            return self.compare(e, sc)
        if isinstance(e, ast.IfExp):
            c, ct = self.expr(e.test, sc)
            cb = self.as_bool(c, ct)
            saved = list(self.path)
            self.path.append(cb)
            a, at = self.expr(e.body, sc)
            self.path = saved + ['negb (%s)' % cb]
            b, bt = self.expr(e.orelse, sc)
            self.path = saved
            if at != bt:
                raise Unsupported('ifexp branch types')
            return '(if %s then %s else %s)' % (cb, a, b), at
        if isinstance(e, ast.Call):
            return self.call(e, sc)
        if isinstance(e, ast.Tuple):
            parts = [self.expr(x, sc) for x in e.elts]
            return '(' + ', '.join(p[0] for p in parts) + ')', 'tuple:' + ','.join(p[1] for p in parts)
        if isinstance(e, ast.List):
            parts = [self.expr(x, sc) for x in e.elts]
            ts = set(p[1] for p in parts)
            if ts - {'int', 'bool'} or len(ts) > 1:
                raise Unsupported('list literal element types')
            ty = 'blist' if ts == {'bool'} else 'list'
            return '[' + '; '.join(p[0] for p in parts) + ']', ty
        if isinstance(e, ast.Subscript):
            return self.subscript(e, sc)
        if isinstance(e, ast.Attribute):
            raise Unsupported('attribute ' + ast.dump(e))
        raise Unsupported('expression ' + ast.dump(e)[:80])

    def as_bool(self, v, t):
        if t == 'bool':
            return v
        if t == 'int':
            return 'truthy %s' % v if v.startswith('(') or v.isidentifier() else 'truthy (%s)' % v
        if t in ('list', 'bytes', 'blist'):
            return 'negb (len %s =? 0)' % v
        raise Unsupported('truthiness of ' + t)

    def as_int(self, v, t):
        if t == 'int':
            return v
        if t == 'bool':
            return '(b2z %s)' % v
        raise Unsupported('int of ' + t)

    def is_nonneg_const(self, e):
        return isinstance(e, ast.Constant) and isinstance(e.value, int) and not isinstance(e.value, bool) \
            and e.value >= 0

    def is_nonzero_const(self, e):
        return isinstance(e, ast.Constant) and isinstance(e.value, int) and e.value != 0

    def binop(self, e, sc):
        a, at = self.expr(e.left, sc)
        b, bt = self.expr(e.right, sc)
        op = e.op
        if at in ('list', 'bytes', 'blist') and isinstance(op, ast.Add):
            if bt != at and not (at in ('list', 'bytes') and bt in ('list', 'bytes')):
                raise Unsupported('list + other')
            return '(%s ++ %s)' % (a, b), at
        a = self.as_int(a, at)
        b = self.as_int(b, bt)
        if isinstance(op, ast.Add):
            return '(%s + %s)' % (a, b), 'int'
        if isinstance(op, ast.Sub):
            return '(%s - %s)' % (a, b), 'int'
        if isinstance(op, ast.Mult):
            return '(%s * %s)' % (a, b), 'int'
        if isinstance(op, ast.FloorDiv):
            if not self.is_nonzero_const(e.right):
                self.add_guard('negb (%s =? 0)' % b, 'Internal ZeroDiv')
            return '(%s / %s)' % (a, b), 'int'
        if isinstance(op, ast.Mod):
            if not self.is_nonzero_const(e.right):
                self.add_guard('negb (%s =? 0)' % b, 'Internal ZeroDiv')
            return '(%s mod %s)' % (a, b), 'int'
        if isinstance(op, ast.Pow):
            if not self.is_nonneg_const(e.right):
                # negative exponent gives a float in Python; every use in the subset then fails
                self.add_guard('0 <=? %s' % b, 'Internal TypeError')
            return '(%s ^ %s)' % (a, b), 'int'
        if isinstance(op, ast.LShift):
            if not self.is_nonneg_const(e.right):
                self.add_guard('0 <=? %s' % b, 'Internal ValueErrorI')
            return '(Z.shiftl %s %s)' % (a, b), 'int'
        if isinstance(op, ast.RShift):
            if not self.is_nonneg_const(e.right):
                self.add_guard('0 <=? %s' % b, 'Internal ValueErrorI')
            return '(Z.shiftr %s %s)' % (a, b), 'int'
        if isinstance(op, ast.BitAnd):
            return '(Z.land %s %s)' % (a, b), 'int'
        if isinstance(op, ast.BitOr):
            return '(Z.lor %s %s)' % (a, b), 'int'
        if isinstance(op, ast.BitXor):
            return '(Z.lxor %s %s)' % (a, b), 'int'
        raise Unsupported('binop ' + type(op).__name__)

    def range_args(self, call, sc):
        args = [self.as_int(*self.expr(x, sc)) for x in call.args]
        if len(args) == 1:
            return '0', args[0], None
        if len(args) == 2:
            return args[0], args[1], None
        if len(args) == 3:
            st = call.args[2]
            if not (isinstance(st, ast.Constant) and isinstance(st.value, int) and st.value > 0):
                raise Unsupported('range step must be a positive literal')
            return args[0], args[1], args[2]
        raise Unsupported('range arity')

    def is_range_call(self, e):
        return isinstance(e, ast.Call) and isinstance(e.func, ast.Name) and e.func.id == 'range'

    def compare(self, e, sc):
        parts = []
        left = e.left
        lv = None
        for op, right in zip(e.ops, e.comparators):
            if isinstance(op, (ast.In, ast.NotIn)):
                if not self.is_range_call(right):
                    raise Unsupported('in over non-range')
                x = self.as_int(*self.expr(left, sc))
                lo, hi, step = self.range_args(right, sc)
                if step is not None:
                    raise Unsupported('in range with step')
                t = '((%s <=? %s) && (%s <? %s))' % (lo, x, x, hi)
                if isinstance(op, ast.NotIn):
                    t = '(negb %s)' % t
                parts.append(t)
                left = right
                continue
            a, at = self.expr(left, sc) if lv is None else lv
            b, bt = self.expr(right, sc)
            lv = (b, bt)
            if at == 'bool' and bt == 'bool' and isinstance(op, (ast.Eq, ast.NotEq)):
                t = '(Bool.eqb %s %s)' % (a, b)
                if isinstance(op, ast.NotEq):
                    t = '(negb %s)' % t
                parts.append(t)
                left = right
                continue
            a = self.as_int(a, at)
            b = self.as_int(b, bt)
            sym = {ast.Eq: '=?', ast.Lt: '<?', ast.LtE: '<=?', ast.Gt: '>?', ast.GtE: '>=?'}
            if isinstance(op, ast.NotEq):
                parts.append('(negb (%s =? %s))' % (a, b))
            elif type(op) in sym:
                parts.append('(%s %s %s)' % (a, sym[type(op)], b))
            else:
                raise Unsupported('comparison ' + type(op).__name__)
            left = right
        if len(parts) == 1:
            return parts[0], 'bool'
        return '(' + ' && '.join(parts) + ')', 'bool'

    def call(self, e, sc):
        f = e.func
        if isinstance(f, ast.Attribute):
            if f.attr == 'bit_length' and not e.args:
                v, t = self.expr(f.value, sc)
                return '(bit_length %s)' % self.as_int(v, t), 'int'
            raise Unsupported('method call ' + f.attr)
        if not isinstance(f, ast.Name):
            raise Unsupported('call target')
        n = f.id
        if n == 'bool' and len(e.args) == 1:
            v, t = self.expr(e.args[0], sc)
            return '(%s)' % self.as_bool(v, t), 'bool'
        if n == 'int' and len(e.args) == 1:
            v, t = self.expr(e.args[0], sc)
            return self.as_int(v, t), 'int'
        if n == 'len' and len(e.args) == 1:
            v, t = self.expr(e.args[0], sc)
            if t not in ('list', 'bytes', 'blist', 'iter'):
                raise Unsupported('len of ' + t)
            return '(len %s)' % v, 'int'
        if n == 'abs' and len(e.args) == 1:
            v, t = self.expr(e.args[0], sc)
            return '(Z.abs %s)' % self.as_int(v, t), 'int'
        if n in ('min', 'max') and len(e.args) == 2:
            a = self.as_int(*self.expr(e.args[0], sc))
            b = self.as_int(*self.expr(e.args[1], sc))
            return '(Z.%s %s %s)' % (n, a, b), 'int'
        if n == 'isinstance' and len(e.args) == 2 and isinstance(e.args[1], ast.Name) \
                and e.args[1].id == 'int':
            v, t = self.expr(e.args[0], sc)
            if t != 'int':
                raise Unsupported('isinstance on non-int')
            return 'true', 'bool'
        if n == 'range':
            lo, hi, step = self.range_args(e, sc)
            if step is None:
                return '(rangeZ %s %s)' % (lo, hi), 'list'
            return '(rangeZ_step %s %s %s)' % (lo, hi, step), 'list'
        if n == 'reversed' and len(e.args) == 1:
            v, t = self.expr(e.args[0], sc)
            if t not in ('list', 'bytes', 'blist'):
                raise Unsupported('reversed of ' + t)
            return '(rev %s)' % v, t
        if n in ('bytes', 'bytearray', 'list'):
            if not e.args:
                return '[]', ('bytes' if n != 'list' else 'list')
            if len(e.args) != 1:
                raise Unsupported(n + ' arity')
            a = e.args[0]
            if isinstance(a, ast.GeneratorExp):
                v, t = self.genexp(a, sc)
            else:
                v, t = self.expr(a, sc)
            if t not in ('list', 'bytes'):
                raise Unsupported('%s(%s)' % (n, t))
            if n == 'list':
                return v, 'list'
            if t != 'bytes':
                tmp = self.fresh('bs')
                self.pre.append((tmp, v, True))
                self.add_guard('all_byte %s' % tmp, 'Internal ValueErrorI')
                return tmp, 'bytes'
            return v, 'bytes'
        if n == 'sum' and len(e.args) == 1:
            a = e.args[0]
            v, t = self.genexp(a, sc) if isinstance(a, ast.GeneratorExp) else self.expr(a, sc)
            if t not in ('list', 'bytes'):
                raise Unsupported('sum of ' + t)
            return '(sumZ %s)' % v, 'int'
        if n in self.known:
            info = self.known[n]
            if len(e.args) != len(info.params) or e.keywords:
                raise Unsupported('call arity/keywords for ' + n)
            if info.iters:
                raise Unsupported('call of iterator-consuming function inside expression')
            args = []
            for x, pt in zip(e.args, info.ptypes):
                v, t = self.expr(x, sc)
                if t != pt and not (t in ('list', 'bytes') and pt in ('list', 'bytes')):
                    if pt == 'int' and t == 'bool':
                        v = self.as_int(v, t)
                    else:
                        raise Unsupported('argument type %s for %s of %s' % (t, pt, n))
                args.append(v)
            if getattr(info, 'uses_fuel', False):
                # callee has a leading fuel argument: thread the caller's fuel (top level only,
                # for-loop bodies have no fuel in scope)
                if getattr(self, 'in_loop', 0):
                    raise Unsupported('call of fuelled function %s inside a loop' % n)
                self.uses_fuel = True
                args = ['fuel'] + args
            callt = '(%s %s)' % (cname(n), ' '.join(args)) if args else cname(n)
            if info.pure:
                return callt, info.ret
            if self.path:
                raise Unsupported('failing call under short-circuit')
            tmp = self.fresh('r')
            self.pre.append((tmp, callt, False))
            return tmp, info.ret
        raise Unsupported('call of ' + n)

    def genexp(self, g, sc):
        if len(g.generators) != 1 or g.generators[0].ifs or g.generators[0].is_async:
            raise Unsupported('generator shape')
        gen = g.generators[0]
        if not isinstance(gen.target, ast.Name):
            raise Unsupported('generator target')
        it, itt = self.expr(gen.iter, sc)
        if itt not in ('list', 'bytes'):
            raise Unsupported('generator over ' + itt)
        sc2 = dict(sc)
        sc2[gen.target.id] = 'int'
        ng = len(self.guards)
        npre = len(self.pre)
        body, bt = self.expr(g.elt, sc2)
        if len(self.pre) != npre:
            raise Unsupported('failing call inside generator expression')
        for gi in range(ng, len(self.guards)):
            cond, err = self.guards[gi]
            self.guards[gi] = ('forallb (fun %s => %s) %s' % (cname(gen.target.id), cond, it), err)
        if bt != 'int':
            raise Unsupported('generator element type')
        return '(map (fun %s => %s) %s)' % (cname(gen.target.id), body, it), 'list'

    def subscript(self, e, sc):
        v, t = self.expr(e.value, sc)
        if t not in ('list', 'bytes', 'blist'):
            raise Unsupported('subscript of ' + t)
        if isinstance(e.slice, ast.Slice):
            s = e.slice
            if s.step is not None:
                raise Unsupported('slice step')
            lo = self.as_int(*self.expr(s.lower, sc)) if s.lower else '0'
            hi = self.as_int(*self.expr(s.upper, sc)) if s.upper else '(len %s)' % v
            for b in (s.lower, s.upper):
                if b is not None and not self.is_nonneg_const(b):
                    self.add_guard('0 <=? %s' % self.as_int(*self.expr(b, sc)), 'Internal OtherI 1')
            return '(sliceZ %s %s %s)' % (v, lo, hi), t
        i = self.as_int(*self.expr(e.slice, sc))
        self.add_guard('(0 <=? %s) && (%s <? len %s)' % (i, i, v), 'Internal IndexError')
        dflt = 'false' if t == 'blist' else '0'
        return '(nth (Z.to_nat %s) %s %s)' % (i, v, dflt), ('bool' if t == 'blist' else 'int')

    # ---------------------------------------------------------- statements
    def with_effects(self, body_fn):
        """wrap pending pre-binds and guards (collected while translating the
        expressions of one statement) around the term produced by body_fn()"""
        pre, guards = self.pre, self.guards
        self.pre, self.guards = [], []
        t = body_fn()
        for cond, err in reversed(guards):
            t = ('guard', cond, err, t)
        for tmp, text, pure in reversed(pre):
            t = ('let', tmp, text, t) if pure else ('mcall', tmp, text, t)
        return t

    def block(self, stmts, sc, k):
        if not stmts:
            return k['fall'](sc)
        s, rest = stmts[0], stmts[1:]
        if isinstance(s, ast.Expr) and isinstance(s.value, ast.Constant) and isinstance(s.value.value, str):
            return self.block(rest, sc, k)   # docstring
        if isinstance(s, ast.Pass):
            return self.block(rest, sc, k)
        if isinstance(s, (ast.Assign, ast.AnnAssign, ast.AugAssign)):
            return self.assign(s, rest, sc, k)
        if isinstance(s, ast.Expr):
            return self.expr_stmt(s, rest, sc, k)
        if isinstance(s, ast.Return):
            if s.value is None:
                raise Unsupported('bare return')
            v, t = self.expr(s.value, sc)
            self.note_ret(t)
            return self.with_effects(lambda: k['return'](v, sc))
        if isinstance(s, ast.Raise):
            exc = s.exc
            if isinstance(exc, ast.Call):
                exc = exc.func
            if not isinstance(exc, ast.Name):
                raise Unsupported('raise form')
            code = DIAG_CODES.get(exc.id)
            if code is None:
                raise Unsupported('raise of ' + exc.id)
            return ('raise', 'Diag %d' % code)
        if isinstance(s, ast.Assert):
            c, ct = self.expr(s.test, sc)
            cb = self.as_bool(c, ct)
            return self.with_effects(
                lambda: ('guard', cb, 'Internal AssertionError', self.block(rest, sc, k)))
        if isinstance(s, ast.Break):
            return k['break'](sc)
        if isinstance(s, ast.Continue):
            return k['continue'](sc)
        if isinstance(s, ast.If):
            return self.if_stmt(s, rest, sc, k)
        if isinstance(s, ast.While):
            return self.while_stmt(s, rest, sc, k)
        if isinstance(s, ast.For):
            return self.for_stmt(s, rest, sc, k)
        raise Unsupported('statement ' + type(s).__name__)

    def note_ret(self, t):
        if self.ret_type is None:
            self.ret_type = t
        elif self.ret_type != t and not ({self.ret_type, t} <= {'list', 'bytes'}):
            raise Unsupported('return types %s vs %s' % (self.ret_type, t))

    def assign(self, s, rest, sc, k):
        if isinstance(s, ast.AugAssign):
            target = s.target
            value = ast.BinOp(left=ast.Name(id=target.id, ctx=ast.Load()) if isinstance(target, ast.Name)
                              else target, op=s.op, right=s.value)
            ast.copy_location(value, s)
            ast.fix_missing_locations(value)
        elif isinstance(s, ast.AnnAssign):
            target, value = s.target, s.value
        else:
            if len(s.targets) != 1:
                raise Unsupported('chained assignment')
            target, value = s.targets[0], s.value
        # x = next(it)
        if (isinstance(value, ast.Call) and isinstance(value.func, ast.Name) and value.func.id == 'next'):
            if not (isinstance(target, ast.Name) and len(value.args) == 1
                    and isinstance(value.args[0], ast.Name) and sc.get(value.args[0].id) == 'iter'):
                raise Unsupported('next() form')
            sc2 = dict(sc)
            sc2[target.id] = 'int'
            return ('next', cname(target.id), cname(value.args[0].id), self.block(rest, sc2, k))
        if isinstance(target, ast.Name):
            v, t = self.expr(value, sc)
            sc2 = dict(sc)
            if target.id in sc and sc[target.id] == 'bytes' and t == 'list':
                t = 'bytes'
            sc2[target.id] = t
            return self.with_effects(lambda: ('let', cname(target.id), v, self.block(rest, sc2, k)))
        if isinstance(target, ast.Tuple) and all(isinstance(x, ast.Name) for x in target.elts):
            v, t = self.expr(value, sc)
            if not t.startswith('tuple:'):
                raise Unsupported('tuple assignment from ' + t)
            ts = t[6:].split(',')
            if len(ts) != len(target.elts):
                raise Unsupported('tuple arity')
            sc2 = dict(sc)
            for x, xt in zip(target.elts, ts):
                sc2[x.id] = xt
            pat = '(' + ', '.join(cname(x.id) for x in target.elts) + ')'
            return self.with_effects(lambda: ('let', pat, v, self.block(rest, sc2, k)))
        # lst[i] = x  (also lst[i] op= x): functional update of a list / bytearray of ints.
        # Negative indices are not modelled (IndexError), bytearray elements must be in range(256).
        if (isinstance(target, ast.Subscript) and isinstance(target.value, ast.Name)
                and not isinstance(target.slice, ast.Slice) and sc.get(target.value.id) in ('list', 'bytes')):
            lname = cname(target.value.id)
            v = self.as_int(*self.expr(value, sc))
            i = self.as_int(*self.expr(target.slice, sc))
            tmp = self.fresh('x')
            self.pre.append((tmp, v, True))
            self.add_guard('(0 <=? %s) && (%s <? len %s)' % (i, i, lname), 'Internal IndexError')
            if sc[target.value.id] == 'bytes':
                self.add_guard('is_byte %s' % tmp, 'Internal ValueErrorI')
            newl = '(firstn (Z.to_nat %s) %s ++ %s :: skipn (S (Z.to_nat %s)) %s)' % (i, lname, tmp, i, lname)
            return self.with_effects(lambda: ('let', lname, newl, self.block(rest, dict(sc), k)))
        raise Unsupported('assignment target')

    def expr_stmt(self, s, rest, sc, k):
        c = s.value
        if (isinstance(c, ast.Call) and isinstance(c.func, ast.Attribute)
                and isinstance(c.func.value, ast.Name) and c.func.attr in ('append', 'extend')):
            lst = c.func.value.id
            lt = sc.get(lst)
            if lt not in ('list', 'bytes', 'blist') or len(c.args) != 1:
                raise Unsupported('append on ' + str(lt))
            v, t = self.expr(c.args[0], sc)
            if c.func.attr == 'append':
                if lt == 'blist':
                    if t != 'bool':
                        raise Unsupported('append non-bool to bool list')
                else:
                    v = self.as_int(v, t)
                    if lt == 'bytes':
                        self.add_guard('is_byte %s' % v, 'Internal ValueErrorI')
                new = '(%s ++ [%s])' % (cname(lst), v)
            else:
                if t not in ('list', 'bytes'):
                    raise Unsupported('extend with ' + t)
                if lt == 'bytes' and t != 'bytes':
                    self.add_guard('all_byte %s' % v, 'Internal ValueErrorI')
                new = '(%s ++ %s)' % (cname(lst), v)
            return self.with_effects(lambda: ('let', cname(lst), new, self.block(rest, sc, k)))
        raise Unsupported('expression statement')

    def tuple_pat(self, vs):
        if len(vs) == 0:
            return 'tt'
        if len(vs) == 1:
            return cname(vs[0])
        return '(' + ', '.join(cname(v) for v in vs) + ')'

    def if_stmt(self, s, rest, sc, k):
        c, ct = self.expr(s.test, sc)
        cb = self.as_bool(c, ct)
        ctl = (ast.Return, ast.Break, ast.Continue, ast.Raise)
        has_ctl = stmts_have(s.body, ctl) or stmts_have(s.orelse, ctl)
        av = assigned_vars(s.body + s.orelse)
        joinable = not has_ctl and all(v in sc for v in av)
        if not joinable:
            # duplicate the continuation into both branches
            def mk():
                return ('if', cb, self.block(s.body + rest, sc, k), self.block(s.orelse + rest, sc, k))
            return self.with_effects(mk)
        pat = self.tuple_pat(av)
        types = {}

        def fall(sc_inner):
            for v in av:
                types.setdefault(v, sc_inner[v])
            return ('ret', pat)
        k2 = dict(k)
        k2['fall'] = fall

        def mk():
            a = self.block(s.body, sc, k2)
            b = self.block(s.orelse, sc, k2)
            sc2 = dict(sc)
            sc2.update(types)
            return ('seq', pat, ('if', cb, a, b), self.block(rest, sc2, k))
        return self.with_effects(mk)

    def loop_common(self, s, rest, sc, k, is_for):
        self.nloops += 1
        lname = '%s_loop%d' % (cname(self.name), self.nloops)
        self.in_loop = getattr(self, 'in_loop', 0) + 1   # see call(): fuelled callees only at top level
        body = s.body
        if s.orelse:
            raise Unsupported('loop else')
        av = assigned_vars(body)
        itervar = None
        if is_for:
            if not isinstance(s.target, ast.Name):
                raise Unsupported('for target')
            itervar = s.target.id
            av = [v for v in av if v != itervar]
        sc = dict(sc)
        newvars = set()   # unbound before the loop: the call site passes a dummy (body assigns before any read)
        # variables first assigned in the loop and used afterwards
        for v in av:
            if v not in sc:
                used_after = v in read_vars(rest)
                if not used_after:
                    continue
                always = (not is_for and isinstance(s.test, ast.Constant) and s.test.value is True)
                first = None
                for st in body:
                    if isinstance(st, (ast.If, ast.While, ast.For, ast.Break, ast.Continue, ast.Return)):
                        break
                    if v in assigned_vars([st]):
                        first = st
                        break
                if not (always and first is not None):
                    raise Unsupported('variable %s first assigned inside a loop and used after it' % v)
                sc[v] = '?'   # type discovered while translating the body
                newvars.add(v)
        carried = [v for v in av if v in sc]
        has_ret = stmts_have(body, (ast.Return,), into_loops=True)
        rd = read_vars(body) + ([] if is_for else read_vars(s.test))
        free = [v for v in rd if v in sc and v not in carried and v != itervar]
        free = list(dict.fromkeys(free))
        cpat = self.tuple_pat(carried)
        lvar = 'l_'
        fuel = [] if is_for else ['fuel']

        def reccall(sc_inner):
            self.fix_types(sc, sc_inner, carried)
            args = fuel + [cname(v) for v in free] + ([lvar] if is_for else []) + [cname(v) for v in carried]
            return ('raw_call', '%s %s' % (lname, ' '.join(args)))

        def exit_(sc_inner):
            self.fix_types(sc, sc_inner, carried)
            return ('ret', ('Next %s' % cpat) if has_ret else cpat)

        k2 = {'fall': reccall, 'continue': reccall, 'break': exit_,
              'return': (lambda v, sc_inner: ('ret', 'Ret (%s)' % v))}
        sc_body = dict(sc)
        if is_for:
            sc_body[itervar] = 'int'
        # unknown-typed carried vars: translate body once to discover types
        if any(sc[v] == '?' for v in carried):
            for st in body:
                if isinstance(st, (ast.If, ast.While, ast.For)):
                    break
                for v in assigned_vars([st]):
                    if sc.get(v) == '?':
                        # discover from the assignment
                        if isinstance(st, ast.Assign) and isinstance(st.value, ast.Call) \
                                and isinstance(st.value.func, ast.Name) and st.value.func.id == 'next':
                            sc[v] = 'int'
                        else:
                            sv = (self.pre, self.guards)
                            self.pre, self.guards = [], []
                            tmp_sc = {a: (b if b != '?' else 'int') for a, b in sc_body.items()}
                            _, ty = self.expr(st.value, tmp_sc)
                            self.pre, self.guards = sv
                            sc[v] = ty
            sc_body.update({v: sc[v] for v in carried})
        if is_for:
            it, itt = self.expr(s.iter, sc)
            if itt not in ('list', 'bytes'):
                raise Unsupported('for over ' + itt)
            bodyt = self.block(body, sc_body, k2)
            term = ('listmatch', lvar, cname(itervar), exit_(sc), bodyt)
        else:
            c, ct = self.expr(s.test, sc)
            cb = self.as_bool(c, ct)
            if self.pre:
                raise Unsupported('failing call in while condition')
            cond_guards, self.guards = self.guards, []
            bodyt = self.block(body, sc_body, k2)
            inner = bodyt if cb == 'true' else ('if', cb, bodyt, exit_(sc))
            for gc, ge in reversed(cond_guards):
                inner = ('guard', gc, ge, inner)
            term = ('fuelmatch', inner)
        self.in_loop -= 1
        pure = is_for and loop_term_pure(term)
        params = ''
        if not is_for:
            params += ' (fuel : nat)'
        for v in free:
            params += ' (%s : %s)' % (cname(v), coq_type(sc[v]))
        if is_for:
            params += ' (%s : list Z)' % lvar
        for v in carried:
            params += ' (%s : %s)' % (cname(v), coq_type(sc[v]))
        struct = '{struct %s}' % (lvar if is_for else 'fuel')
        text = 'Fixpoint %s%s %s :=\n%s.\n' % (lname, params, struct, render_loop(term, pure))
        self.defs.append(text)
        # call site
        args = (['fuel'] if not is_for else []) + [cname(v) for v in free] + \
               ([it] if is_for else []) + \
               [cname(v) if (sc[v] != '?' and v not in newvars) else default_of(sc[v] if sc[v] != '?' else 'int')
                for v in carried]
        # carried vars that were not defined before the loop get a default
        call_args = []
        for a, v in zip(args[len(args) - len(carried):], carried):
            call_args.append(a)
        callt = '%s %s' % (lname, ' '.join(args))
        sc_after = dict(sc)
        if not is_for:
            self.uses_fuel = True
        restt_sc = sc_after

        def after():
            return self.block(rest, restt_sc, k)
        if has_ret:
            def mk():
                retv = k['return']('r_', restt_sc)
                return ('matchctl', callt if not pure else 'Ok (%s)' % callt, cpat, after(), retv)
            return self.with_effects(mk)
        if pure:
            return self.with_effects(lambda: ('let', cpat, callt, after()))
        return self.with_effects(lambda: ('mcall', cpat, callt, after()))

    def fix_types(self, sc_outer, sc_inner, carried):
        for v in carried:
            if sc_outer.get(v) == '?' and v in sc_inner:
                sc_outer[v] = sc_inner[v]

    def while_stmt(self, s, rest, sc, k):
        # pre-declare variables first assigned in the loop with defaults in scope
        return self.loop_with_defaults(s, rest, sc, k, False)

    def for_stmt(self, s, rest, sc, k):
        return self.loop_with_defaults(s, rest, sc, k, True)

    def loop_with_defaults(self, s, rest, sc, k, is_for):
        before = set(sc)
        t = self.loop_common(s, rest, sc, k, is_for)
        return t

    # ---------------------------------------------------------- function
    def translate(self):
        fn = self.fn
        params = [a.arg for a in fn.args.args]
        if fn.args.vararg or fn.args.kwarg or fn.args.kwonlyargs:
            raise Unsupported('signature shape')
        if params and params[0] == 'self':
            raise Unsupported('method')
        ptypes = [self.sig.get('params', {}).get(p, 'int') for p in params]
        sc = dict(zip(params, ptypes))
        iters = [p for p, t in zip(params, ptypes) if t == 'iter']
        self.ret_type = None
        self.uses_fuel = False

        def ret(v, sc_inner):
            if iters:
                return ('ret', '(%s, %s)' % (v, ', '.join(cname(i) for i in iters)))
            return ('ret', v)

        def fall(sc_inner):
            raise Unsupported('function may fall off its end (returns None)')
        k = {'fall': fall, 'return': ret,
             'break': lambda sc_: (_ for _ in ()).throw(Unsupported('break outside loop')),
             'continue': lambda sc_: (_ for _ in ()).throw(Unsupported('continue outside loop'))}
        body = self.block(fn.body, sc, k)
        pure = is_pure(body) and not self.uses_fuel
        ps = ''
        if self.uses_fuel:
            ps += ' (fuel : nat)'
        for p, t in zip(params, ptypes):
            ps += ' (%s : %s)' % (cname(p), coq_type(t))
        text = ''.join(self.defs)
        text += 'Definition %s%s :=\n%s.\n' % (cname(self.name), ps, render(body, pure))
        rett = self.ret_type or 'none'
        info = FnInfo(self.name, params, ptypes, rett, pure, iters)
        info.uses_fuel = self.uses_fuel
        return text, info


def loop_term_pure(t):
    k = t[0]
    if k in ('ret', 'raw_call'):
        return True
    if k == 'let':
        return loop_term_pure(t[3])
    if k == 'seq':
        return loop_term_pure(t[2]) and loop_term_pure(t[3])
    if k == 'if':
        return loop_term_pure(t[2]) and loop_term_pure(t[3])
    if k == 'listmatch':
        return loop_term_pure(t[3]) and loop_term_pure(t[4])
    return False


def render_loop(t, pure, ind=2):
    """like render, but raw_call nodes are emitted verbatim (they already have the
    loop function's result type)"""
    sp = ' ' * ind
    k = t[0]
    if k == 'raw_call':
        return sp + t[1]
    if k == 'ret':
        return sp + (t[1] if pure else 'Ok (%s)' % t[1])
    if k == 'let':
        pat = t[1]
        letpat = ("'" + pat) if pat.startswith('(') else pat
        return '%slet %s := %s in\n%s' % (sp, letpat, t[2], render_loop(t[3], pure, ind))
    if k == 'seq':
        pat = t[1]
        subpure = loop_term_pure(t[2])
        if subpure:
            letpat = ("'" + pat) if pat.startswith('(') else pat
            return '%slet %s :=\n%s in\n%s' % (sp, letpat, render_loop(t[2], True, ind + 2),
                                               render_loop(t[3], pure, ind))
        bpat = ("'" + pat) if pat.startswith('(') else pat
        return '%s%s <- (\n%s) ;;\n%s' % (sp, bpat, render_loop(t[2], False, ind + 2),
                                          render_loop(t[3], False, ind))
    if k == 'if':
        return '%sif %s then\n%s\n%selse\n%s' % (sp, t[1], render_loop(t[2], pure, ind + 2), sp,
                                                render_loop(t[3], pure, ind + 2))
    if k == 'listmatch':
        _, lvar, ivar, nilb, consb = t
        return ('%smatch %s with\n%s| [] =>\n%s\n%s| %s :: %s =>\n%s\n%send'
                % (sp, lvar, sp, render_loop(nilb, pure, ind + 2), sp, ivar, lvar,
                   render_loop(consb, pure, ind + 2), sp))
    assert not pure, k
    if k == 'raise':
        return sp + t[1]
    if k == 'guard':
        return '%sguard (%s) (%s) (\n%s)' % (sp, t[1], t[2], render_loop(t[3], False, ind))
    if k == 'mcall':
        pat = t[1]
        bpat = ("'" + pat) if pat.startswith('(') else pat
        return '%s%s <- %s ;;\n%s' % (sp, bpat, t[2], render_loop(t[3], False, ind))
    if k == 'next':
        return ('%smatch %s with\n%s| [] => Internal StopIteration\n%s| %s :: %s =>\n%s\n%send'
                % (sp, t[2], sp, sp, t[1], t[2], render_loop(t[3], False, ind + 2), sp))
    if k == 'matchctl':
        return ('%sctl_ <- %s ;;\n%smatch ctl_ with\n%s| Ret r_ =>\n%s\n%s| Next %s =>\n%s\n%send'
                % (sp, t[1], sp, sp, render_loop(t[4], False, ind + 2), sp, t[2],
                   render_loop(t[3], False, ind + 2), sp))
    if k == 'fuelmatch':
        return ('%smatch fuel with\n%s| O => OutOfFuel\n%s| S fuel =>\n%s\n%send'
                % (sp, sp, sp, render_loop(t[1], False, ind + 2), sp))
    raise AssertionError(k)


render = render_loop
is_pure = loop_term_pure


def source_hash(fn):
    return hashlib.sha256(ast.dump(fn, include_attributes=False).encode()).hexdigest()[:16]


def translate_module(pyfile, entries, header_imports=(), known=None):
    """entries: list of dicts {'name': fn, 'params': {...}} in dependency order.
    Returns (coq text, {name: FnInfo}, {name: hash})"""
    src = open(pyfile).read()
    tree = ast.parse(src)
    fns = {n.name: n for n in tree.body if isinstance(n, ast.FunctionDef)}
    known = dict(known or {})   # FnInfo of functions translated elsewhere (header_imports must provide them)
    hashes = {}
    out = ['(* GENERATED by tools/py2coq.py from %s — do not edit; regenerated on every check run *)'
           % (os.path.relpath(pyfile, '/repo') if os.path.abspath(pyfile).startswith('/repo/')
              else os.path.basename(pyfile)),
           'From PV Require Import Lib.Py.']
    for h in header_imports:
        out.append(h)
    out.append('Open Scope Z_scope.\n')
    for ent in entries:
        name = ent['name']
        if name not in fns:
            raise Unsupported('function %s not found in %s' % (name, pyfile))
        tr = FnTranslator(pyfile, fns[name], ent, known)
        try:
            text, info = tr.translate()
        except Unsupported as ex:
            raise Unsupported('%s:%s: %s' % (os.path.basename(pyfile), name, ex))
        known[name] = info
        hashes[name] = source_hash(fns[name])
        out.append('(* %s  source-hash %s  %s *)' % (name, hashes[name],
                                                    'pure' if info.pure else 'result'))
        out.append(text)
    return '\n'.join(out), known, hashes


def write_if_changed(path, text):
    if os.path.exists(path) and open(path).read() == text:
        return False
    os.makedirs(os.path.dirname(path), exist_ok=True)
    with open(path, 'w') as f:
        f.write(text)
    return True


if __name__ == '__main__':
    import json
    spec = json.load(open(sys.argv[1]))
    text, known, hashes = translate_module(spec['file'], spec['functions'])
    print(text)
