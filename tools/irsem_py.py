"""irsem_py — an independent, straightforward Python interpreter of ppci IR with the same
observable behaviour as coq/Spec/IRSem.v (run_main).  It works on live ppci.ir objects (not on
the imported syntax), so that comparing it with the Coq interpreter also exercises
tools/irimport.py.  Used as a fast search oracle by the IR-hub clients.

    run_main(module, fname, args, fuel=200, cfg=DEFAULT_CFG) -> outcome
    outcome = vlib.OkV((ret, [(gname, bytes)], [(callee, [args])]))      normal termination
            | ('ub', tag) | 'unsupported' | 'stuck' | 'fuel'
      ret = None | int | ('f', bits64) ...   exactly what vlib.to_val needs to equal the Coq
      value `toval (run_main cfg m fname args fuel)`.
    args: list of int (or ('f', bits64) for floats)
    cfg = (ptr_bytes, glob_base, stack_base)

Semantics: see the header of coq/Spec/IRSem.v (wrap-around integers, truncating / and %, UB on
zero divisor / MIN/-1 / out-of-range shifts / reads of Undefined / unallocated memory,
simultaneous phis, little-endian memory, bump allocation, externals = trace events returning 0,
floats only carried as bit patterns).
"""
from ppci import ir
from vlib import OkV

DEFAULT_CFG = (8, 65536, 16777216)


class _UB(Exception):
    pass


class _Unsupported(Exception):
    pass


class _Stuck(Exception):
    pass


class _Fuel(Exception):
    pass


class _Undef:
    pass


UNDEF = _Undef()


def wrap_bits(bits, signed, z):
    u = z % (1 << bits)
    if signed and u >= (1 << (bits - 1)):
        return u - (1 << bits)
    return u


def quot(a, b):
    q = abs(a) // abs(b)
    return q if (a < 0) == (b < 0) else -q


class Machine:
    def __init__(self, module, cfg=DEFAULT_CFG):
        self.m = module
        self.ptr_bytes, self.glob_base, self.stack_base = cfg
        self.mem = {}
        self.trace = []
        self.ge = {}
        self.gsize = {}
        a = self.glob_base
        for g in module.variables:
            al = g.alignment
            if al > 1:
                a = ((a + al - 1) // al) * al
            size = max(0, g.amount)
            if g.value is not None:
                tot = sum(len(p) if isinstance(p, bytes) else self.ptr_bytes for p in g.value)
                size = max(size, tot)
            if g.name not in self.ge:
                self.ge[g.name] = a
            self.gsize[id(g)] = (a, size)
            a += size
        for g in module.variables:
            addr, size = self.gsize[id(g)]
            if self.ge[g.name] != addr:
                continue                      # duplicate name: the first one wins (as assoc_str)
            body = []
            if g.value is not None:
                for p in g.value:
                    if isinstance(p, bytes):
                        body += list(p)
                    else:
                        target = self.ge.get(p[1], 0)
                        body += list((target % (1 << (8 * self.ptr_bytes))).to_bytes(self.ptr_bytes, 'little'))
            body += [0] * (size - len(body))
            for k, b in enumerate(body):
                self.mem[addr + k] = b
        self.sp = self.stack_base

    # ---- types
    def shape(self, t):
        if t is ir.ptr:
            return 8 * self.ptr_bytes, False
        if isinstance(t, ir.IntegerTyp):
            return t.bits, isinstance(t, ir.SignedIntegerTyp)
        return None

    @staticmethod
    def is_float(t):
        return t is ir.f32 or t is ir.f64

    def no_shape(self, t):
        raise (_Unsupported() if self.is_float(t) else _Stuck())

    def scalar_bytes(self, t):
        if t is ir.ptr:
            return self.ptr_bytes
        if t is ir.f64:
            return 8
        if t is ir.f32:
            raise _Unsupported()
        if isinstance(t, ir.BlobDataTyp):
            raise _Stuck()
        return t.bits // 8

    # ---- memory
    def read(self, a, n):
        out = []
        for k in range(n):
            if a + k not in self.mem:
                raise _UB('mem')
            out.append(self.mem[a + k])
        return out

    def write(self, a, data):
        for k in range(len(data)):
            if a + k not in self.mem:
                raise _UB('mem')
        for k, b in enumerate(data):
            self.mem[a + k] = b

    def alloc(self, data, al):
        a = self.sp
        if al > 1:
            a = ((a + al - 1) // al) * al
        for k, b in enumerate(data):
            self.mem[a + k] = b
        self.sp = a + len(data)
        return a

    # ---- functions
    def find_func(self, name):
        for f in self.m.functions:
            if f.name == name:
                return f
        return None

    def find_ext(self, name):
        for e in self.m.externals:
            if e.name == name:
                return e
        return None

    def run(self, f, args, fuel):
        if not f.blocks:
            raise _Stuck()
        if fuel <= 0:
            raise _Fuel()
        env = {}
        params = {id(p): k for k, p in enumerate(f.arguments)}
        deftype = {}
        for b in f.blocks:
            for i in b.instructions:
                if isinstance(i, ir.Value):
                    deftype[id(i)] = i.ty
        blocks = {id(b) for b in f.blocks}

        def ref(r, phi_mode=False):
            if id(r) in deftype:
                if id(r) not in env:
                    raise _Stuck()
                v = env[id(r)]
                if v is UNDEF and not phi_mode:
                    raise _UB('undef')
                return v
            if id(r) in params:
                return args[params[id(r)]]
            if isinstance(r, ir.GlobalValue):
                if r.name in self.ge:
                    return self.ge[r.name]
                if self.find_func(r.name) is None and self.find_ext(r.name) is None:
                    raise _Stuck()
                raise _Unsupported()
            raise _Stuck()

        def ref_int(r):
            v = ref(r)
            if isinstance(v, int):
                return v
            if isinstance(v, tuple) and v[0] == 'f':
                raise _Unsupported()
            raise _Stuck()

        def call(want_value, callee, vs):
            if id(callee) in deftype or id(callee) in params:
                raise _Unsupported()
            if not isinstance(callee, ir.GlobalValue):
                raise _Stuck()
            g = self.find_func(callee.name)
            if g is not None:
                if len(vs) != len(g.arguments):
                    raise _Stuck()
                r = self.run(g, vs, fuel_box[0] - 1)
                if want_value != (r is not None):
                    raise _Stuck()
                return r
            self.trace.append((callee.name, list(vs)))
            e = self.find_ext(callee.name)
            if isinstance(e, ir.ExternalFunction) and want_value:
                if len(vs) != len(e.argument_types):
                    raise _Stuck()
                if self.is_float(e.return_ty):
                    return ('f', 0)
                if isinstance(e.return_ty, ir.BlobDataTyp):
                    raise _Stuck()
                return 0
            if isinstance(e, ir.ExternalProcedure) and not want_value:
                if len(vs) != len(e.argument_types):
                    raise _Stuck()
                return None
            raise _Stuck()

        fuel_box = [fuel]
        pred = None
        block = f.blocks[0]
        while True:
            if fuel_box[0] <= 0:
                raise _Fuel()
            if block is None or id(block) not in blocks:
                raise _Stuck()
            # simultaneous phis
            new = []
            for i in block.instructions:
                if isinstance(i, ir.Phi):
                    if pred is None:
                        raise _Stuck()
                    if pred not in i.inputs:
                        raise _Stuck()
                    new.append((id(i), ref(i.inputs[pred], phi_mode=True)))
            for k, v in new:
                env[k] = v
            nxt = None
            for i in block.instructions:
                T = type(i)
                if T is ir.Jump:
                    nxt = i.target
                    break
                if T is ir.CJump:
                    a = ref_int(i.a)
                    b = ref_int(i.b)
                    c = {'==': a == b, '<': a < b, '>': a > b, '>=': a >= b, '<=': a <= b, '!=': a != b}[i.cond]
                    nxt = i.lab_yes if c else i.lab_no
                    break
                if T is ir.Return:
                    return ref(i.result)
                if T is ir.Exit:
                    return None
                if T is ir.FunctionCall:
                    vs = [ref(a) for a in i.arguments]
                    env[id(i)] = call(True, i.callee, vs)
                elif T is ir.ProcedureCall:
                    vs = [ref(a) for a in i.arguments]
                    call(False, i.callee, vs)
                elif T is ir.Const:
                    if isinstance(i.value, float):
                        if not self.is_float(i.ty):
                            raise _Stuck()
                        import struct
                        env[id(i)] = ('f', int.from_bytes(struct.pack('<d', i.value), 'little'))
                    else:
                        sh = self.shape(i.ty)
                        if sh is None:
                            self.no_shape(i.ty)
                        env[id(i)] = wrap_bits(sh[0], sh[1], i.value)
                elif T is ir.Binop:
                    a = ref_int(i.a)
                    b = ref_int(i.b)
                    env[id(i)] = self.binop(i.ty, i.operation, a, b)
                elif T is ir.Unop:
                    a = ref_int(i.a)
                    sh = self.shape(i.ty)
                    if sh is None:
                        self.no_shape(i.ty)
                    env[id(i)] = wrap_bits(sh[0], sh[1], -a if i.operation == '-' else ~a)
                elif T is ir.Cast:
                    v = ref(i.src)
                    if isinstance(v, int):
                        sh = self.shape(i.ty)
                        if sh is None:
                            self.no_shape(i.ty)
                        env[id(i)] = wrap_bits(sh[0], sh[1], v)
                    elif isinstance(v, tuple) and v[0] == 'f':
                        raise (_Stuck() if isinstance(i.ty, ir.BlobDataTyp) else _Unsupported())
                    else:
                        raise _Stuck()
                elif T is ir.Load:
                    p = ref_int(i.address)
                    env[id(i)] = self.load(i.ty, p)
                elif T is ir.Store:
                    p = ref_int(i.address)
                    t = i.value.ty if (id(i.value) in deftype or id(i.value) in params) else (
                        ir.ptr if isinstance(i.value, ir.GlobalValue) else None)
                    if t is None:
                        raise _Stuck()
                    v = ref(i.value)
                    self.store(t, p, v)
                elif T is ir.Alloc:
                    if i.amount <= 0:
                        raise _Stuck()
                    a = self.alloc([0] * i.amount, i.alignment)
                    env[id(i)] = ('blob', a, i.amount)
                elif T is ir.AddressOf:
                    v = ref(i.src)
                    if not (isinstance(v, tuple) and v[0] == 'blob'):
                        raise _Stuck()
                    env[id(i)] = v[1]
                elif T is ir.LiteralData:
                    a = self.alloc(list(i.data), 1)
                    env[id(i)] = ('blob', a, len(i.data))
                elif T is ir.CopyBlob:
                    pd = ref_int(i.dst)
                    ps = ref_int(i.src)
                    if i.amount < 0:
                        raise _Stuck()
                    self.write(pd, self.read(ps, i.amount))
                elif T is ir.Undefined:
                    env[id(i)] = UNDEF
                elif T is ir.Phi:
                    pass
                else:
                    raise _Stuck()
            if nxt is None:
                raise _Stuck()
            pred, block = block, nxt
            fuel_box[0] -= 1

    def binop(self, t, op, a, b):
        sh = self.shape(t)
        if sh is None:
            self.no_shape(t)
        bits, sg = sh

        def w(z):
            return wrap_bits(bits, sg, z)
        if op == '+':
            return w(a + b)
        if op == '-':
            return w(a - b)
        if op == '*':
            return w(a * b)
        if op in ('/', '%'):
            if b == 0:
                raise _UB('divzero')
            if sg and a == -(1 << (bits - 1)) and b == -1:
                raise _UB('divoverflow')
            q = quot(a, b)
            return w(q) if op == '/' else w(a - q * b)
        if op == '|':
            return w(a | b)
        if op == '&':
            return w(a & b)
        if op == '^':
            return w(a ^ b)
        if not 0 <= b < bits:
            raise _UB('shift')
        u = a % (1 << bits)
        if op == '<<':
            return w(a << b)
        if op == '>>':
            return w(a >> b)
        if op == 'rol':
            return w((u << b) | (u >> (bits - b)))
        if op == 'ror':
            return w((u >> b) | (u << (bits - b)))
        raise _Stuck()

    def load(self, t, a):
        n = self.scalar_bytes(t)
        u = int.from_bytes(bytes(self.read(a, n)), 'little')
        if self.is_float(t):
            return ('f', u)
        sh = self.shape(t)
        return wrap_bits(sh[0], sh[1], u)

    def store(self, t, a, v):
        n = self.scalar_bytes(t)
        if isinstance(v, int):
            if self.is_float(t):
                raise _Stuck()
            z = v
        elif isinstance(v, tuple) and v[0] == 'f':
            if not self.is_float(t):
                raise _Stuck()
            z = v[1]
        elif v is UNDEF:
            raise _UB('undef')
        else:
            raise _Stuck()
        self.write(a, list((z % (1 << (8 * n))).to_bytes(n, 'little')))


def _render(v):
    if v is UNDEF:
        return 'undef'
    return v


def run_main(module, fname, args, fuel=200, cfg=DEFAULT_CFG):
    try:
        mach = Machine(module, cfg)
        f = mach.find_func(fname)
        if f is None or len(args) != len(f.arguments):
            return 'stuck'
        r = mach.run(f, list(args), fuel)
        globs = []
        for g in module.variables:
            if g.name in mach.ge:
                a = mach.ge[g.name]
                size = mach.gsize[id(g)][1]
                try:
                    globs.append((g.name, bytes(mach.read(a, size))))
                except _UB:
                    globs.append((g.name, b''))
            else:
                globs.append((g.name, b''))
        tr = [(n, [_render(x) for x in vs]) for n, vs in mach.trace]
        return OkV((_render(r), globs, tr))
    except _UB as ex:
        return ('ub', ex.args[0])
    except _Unsupported:
        return 'unsupported'
    except _Stuck:
        return 'stuck'
    except _Fuel:
        return 'fuel'
    except RecursionError:
        return 'fuel'
