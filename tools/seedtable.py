"""print the markdown tables of seeded changes (DESIGN.md §10.5) from seeded/*/meta.json + HISTORY.json"""
import glob
import json
import os
V = os.path.dirname(os.path.dirname(os.path.abspath(__file__)))
hist = json.load(open(os.path.join(V, 'seeded', 'HISTORY.json')))


def table(pattern, missed, noinput, title):
    rows = []
    for d in sorted(glob.glob(os.path.join(V, 'seeded', pattern))):
        sid = os.path.basename(d)
        try:
            m = json.load(open(os.path.join(d, 'meta.json')))
        except OSError:
            continue
        v = m.get('verification', {})
        first = 'missed' if sid in missed else ('detected, no input' if sid in noinput else 'detected')
        now = ('detected' + ('' if v.get('detected_with_input') else ', no input')) if v.get('detected') else 'MISSED'
        rows.append((sid, v.get('property') or m.get('property', sid[:3]),
                     (m.get('summary') or '')[:110].replace('|', '/').replace('\n', ' '),
                     (m.get('needs_to_manifest') or m.get('needs') or '')[:90].replace('|', '/').replace('\n', ' '), first, now,
                     v.get('confirmed')))
    print('#### ' + title)
    print()
    print('| seed | property | change (one line) | needs | first run | now |')
    print('|------|----------|-------------------|-------|-----------|-----|')
    for r in rows:
        print('| %s | %s | %s | %s | %s | %s |' % r[:6])
    n = len(rows)
    print()
    print('%d seeded changes; confirmed (baseline 1400 passed, demo fails on patched tree, passes on HEAD): %d; '
          'detected now: %d (with a concrete failing input: %d); detected on first run: %d' % (
              n, sum(1 for r in rows if r[6]), sum(1 for r in rows if r[5].startswith('detected')),
              sum(1 for r in rows if r[5] == 'detected'), sum(1 for r in rows if r[4] != 'missed')))
    print()


table('C*', hist['first_run_missed'], set(hist['first_run_detected_without_input']),
      'Round 1 (two seeds per property, written while the checks were being built)')
table('r2-C*', hist.get('round2_first_run_missed', {}), set(hist.get('round2_first_run_detected_without_input', [])),
      'Round 2 (one fresh seed per property, written against the finished checks)')
if glob.glob(os.path.join(V, 'seeded', 'r3-C*')):
    table('r3-C*', hist.get('round3_first_run_missed', {}), set(hist.get('round3_first_run_detected_without_input', [])),
          'Round 3 (one more seed per property in less central code, after the round-2 follow-ups and the last repairs)')
if glob.glob(os.path.join(V, 'seeded', 'r4-C*')):
    table('r4-C*', hist.get('round4_first_run_missed', {}), set(hist.get('round4_first_run_detected_without_input', [])),
          'Round 4 (20 properties whose tie rests most on hand models and search; fourth-choice code sites)')
if glob.glob(os.path.join(V, 'seeded', 'r5-C*')):
    table('r5-C*', hist.get('round5_first_run_missed', {}), set(hist.get('round5_first_run_detected_without_input', [])),
          'Round 5 (six properties, fresh seeders in a later session; no follow-up time, so "now" = first run)')
