"""print the markdown table of seeded changes (DESIGN.md §10.5) from seeded/*/meta.json + HISTORY.json"""
import glob
import json
import os
V = os.path.dirname(os.path.dirname(os.path.abspath(__file__)))
hist = json.load(open(os.path.join(V, 'seeded', 'HISTORY.json')))
missed = hist['first_run_missed']
noinput = set(hist['first_run_detected_without_input'])
rows = []
for d in sorted(glob.glob(os.path.join(V, 'seeded', 'C*'))):
    sid = os.path.basename(d)
    try:
        m = json.load(open(os.path.join(d, 'meta.json')))
    except OSError:
        continue
    v = m.get('verification', {})
    first = 'missed' if sid in missed else ('detected, no input' if sid in noinput else 'detected')
    now = ('detected' + ('' if v.get('detected_with_input') else ', no input')) if v.get('detected') else 'MISSED'
    rows.append((sid, m.get('property', sid[:3]), (m.get('summary') or '')[:110].replace('|', '/'),
                 (m.get('needs_to_manifest') or '')[:90].replace('|', '/'), first, now, v.get('confirmed')))
print('| seed | property | change (one line) | needs | first run | now |')
print('|------|----------|-------------------|-------|-----------|-----|')
for r in rows:
    print('| %s | %s | %s | %s | %s | %s |' % r[:6])
n = len(rows)
print()
print('%d seeded changes; confirmed (baseline 1400 passed, demo fails on patched tree, passes on HEAD): %d; '
      'detected now: %d (with a concrete failing input: %d); detected on first run: %d' % (
          n, sum(1 for r in rows if r[6]), sum(1 for r in rows if r[5].startswith('detected')),
          sum(1 for r in rows if r[5] == 'detected'), sum(1 for r in rows if r[4] != 'missed')))
