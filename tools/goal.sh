#!/bin/bash
# usage: goal.sh <file.v relative to coq/> <line>  — show the proof state after <line>
cd /verif/coq
d=$(mktemp -d /tmp/goalXXXX)
head -n "$2" "$1" > $d/G.v
echo "Show." >> $d/G.v
timeout 300 coqc -Q . PV $d/G.v 2>&1 | grep -v conda | head -${3:-60}
rm -rf $d
