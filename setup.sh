#!/bin/bash
# MANIFEST.setup_cmd — build the whole Coq development from files on disk (offline).
# Generated models (coq/Gen/*.v) are regenerated from /repo's working tree first.
set -u
cd "$(dirname "$0")"
export PYTHONHASHSEED=0 PYTHONDONTWRITEBYTECODE=1
mkdir -p .work evidence replays coq/Gen
/venv/bin/python tools/regen_all.py || echo "setup: regeneration reported problems (checks will report them per property)"
/venv/bin/python - <<'P'
import sys
sys.path.insert(0, 'tools')
import vlib
vlib.ensure_makefile()
bad = vlib.gate_all()
if bad:
    print('GATE:', bad)
P
timeout 3000 make -C coq -j16 -k 2>&1 | grep -v 'conda.cli' | tail -15
exit 0
