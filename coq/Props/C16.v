(* Props/C16.v — IR JSON serialisation round-trips (ppci/irutils/io.py), statements only.
   Model.IrJson.roundtrip cfg m = from_dict cfg (to_dict cfg m): DictReader.construct applied to
   the JSON value produced by DictWriter.write_module (json.dumps/json.loads not modelled).
   cfg_orig = the code as found; cfg_fixed = all 8 defects repaired (io.py fixes C16-1..5 and the ir.py
   replace_use fixes 2d6a9c1, e4350a7, 283ca09 = /repo now); cfg_no_X = everything repaired but X. *)
From PV Require Import Lib.Py Lib.Json Spec.IRSyntax Model.IrJson Proofs.C16_irjson Gen.c16_corpus.

(* ---- the code as it is violates the property: one well-formed witness per defect *)
Theorem c16_value_refuted : exists m, wf_modul m = true /\ roundtrip cfg_no_value m <> Ok m.
Proof. exact value_refuted. Qed.
Print Assumptions c16_value_refuted.
Theorem c16_volatile_refuted : exists m, wf_modul m = true /\ roundtrip cfg_no_volatile m <> Ok m.
Proof. exact volatile_refuted. Qed.
Print Assumptions c16_volatile_refuted.
Theorem c16_copyblob_refuted : exists m, wf_modul m = true /\ roundtrip cfg_no_copyblob m <> Ok m.
Proof. exact copyblob_refuted. Qed.
Print Assumptions c16_copyblob_refuted.
Theorem c16_undefined_refuted : exists m, wf_modul m = true /\ roundtrip cfg_no_undefined m <> Ok m.
Proof. exact undefined_refuted. Qed.
Print Assumptions c16_undefined_refuted.
Theorem c16_forward_operand_refuted : exists m, wf_modul m = true /\ roundtrip cfg_no_fwdtype m <> Ok m.
Proof. exact fwdtype_refuted. Qed.
Print Assumptions c16_forward_operand_refuted.
Theorem c16_orig_refuted : forall w, In w all_witnesses -> wf_modul w = true /\ roundtrip cfg_orig w <> Ok w.
Proof. exact orig_refuted. Qed.
Print Assumptions c16_orig_refuted.
(* ---- as-found ppci/ir.py replace_use reached through the reader (fixed in /repo by 2d6a9c1, e4350a7, 283ca09) *)
Theorem c16_forward_double_use_refuted :
  wf_modul w_fwd_double = true /\ roundtrip cfg_no_ru_generic w_fwd_double = Internal KeyError.
Proof. exact fwd_double_use_refuted. Qed.
Print Assumptions c16_forward_double_use_refuted.
Theorem c16_forward_phi_refuted :
  wf_modul w_fwd_phi = true /\ roundtrip cfg_no_ru_phi w_fwd_phi = Internal KeyError.
Proof. exact fwd_phi_refuted. Qed.
Print Assumptions c16_forward_phi_refuted.
Theorem c16_forward_call_args_refuted :
  exists m', wf_modul w_fwd_call = true /\ roundtrip cfg_no_ru_call w_fwd_call = Ok m' /\ m' <> w_fwd_call.
Proof. exact fwd_call_args_refuted. Qed.
Print Assumptions c16_forward_call_args_refuted.

(* ---- the repaired code: whole-module round trip on the generated corpus (bounded) *)
Theorem c16_roundtrip_bounded : forall m, In m corpus -> wf_modul m = true /\ roundtrip cfg_fixed m = Ok m.
Proof. exact corpus_roundtrip. Qed.
Print Assumptions c16_roundtrip_bounded.

(* ---- the repaired code: components, for all inputs *)
Theorem c16_type_roundtrip : forall t, get_type (write_type t) = Ok t.
Proof. exact type_roundtrip. Qed.
Print Assumptions c16_type_roundtrip.
Theorem c16_bytes_roundtrip : forall d, all_byte d = true -> asc2bin (bin2asc d) = Ok d.
Proof. exact bytes_roundtrip. Qed.
Print Assumptions c16_bytes_roundtrip.
Theorem c16_const_roundtrip : forall c, read_const (write_const c) = Ok c.
Proof. exact const_roundtrip. Qed.
Print Assumptions c16_const_roundtrip.
(* a global variable WITH its initial value is reconstructed and registered in the module scope *)
Theorem c16_variable_roundtrip : forall gn g st,
  wf_gvar gn g = true -> rs_infun st = false ->
  plookup (g_name g) (rs_pend st) = None -> vlookup (g_name g) (rs_glob st) = None ->
  construct_variable cfg_fixed (write_variable cfg_fixed g) st = Ok (g, reg_glob (g_name g) st).
Proof. exact variable_roundtrip. Qed.
Print Assumptions c16_variable_roundtrip.
Theorem c16_external_roundtrip : forall e st,
  rs_infun st = false ->
  plookup (ext_name e) (rs_pend st) = None -> vlookup (ext_name e) (rs_glob st) = None ->
  construct_external cfg_fixed (write_external e) st = Ok (e, reg_glob (ext_name e) st).
Proof. exact external_roundtrip. Qed.
Print Assumptions c16_external_roundtrip.

(* instruction kinds without operands (const, alloc, literaldata, undefined) in any reader state in
   which the name is fresh and the block open; the kinds WITH operands are not proved unboundedly *)
Theorem c16_leaf_instr_roundtrip_partial : forall f vt i v n t st,
  match i with
  | IConst _ _ _ _ | IUndef _ _ _ => True
  | IAlloc _ _ s _ => s <> 0
  | ILit _ _ d => all_byte d = true
  | _ => False
  end ->
  instr_def i = Some (v, n, t) -> v = rs_next st -> fresh_name n st -> open_block st ->
  exists j, write_instruction cfg_fixed f i = Ok j /\
            construct_instruction cfg_fixed vt j st = Ok (after_value i n t st).
Proof. exact leaf_instr_roundtrip. Qed.
Print Assumptions c16_leaf_instr_roundtrip_partial.

Example c16_nonvacuous :
  (10 <= List.length corpus)%nat /\ forallb (rt_ok cfg_fixed) all_witnesses = true.
Proof. split; [exact corpus_nonempty | exact fixed_witnesses]. Qed.
