(* Props/C16.v — IR JSON serialisation round-trips (ppci/irutils/io.py), statements only.
   Model.IrJson.roundtrip cfg m = from_dict cfg (to_dict cfg m): DictReader.construct applied to
   the JSON value produced by DictWriter.write_module (json.dumps/json.loads not modelled).
   cfg_orig = the code as found; cfg_fixed = all 8 defects repaired (io.py fixes C16-1..5 and the ir.py
   replace_use fixes 2d6a9c1, e4350a7, 283ca09 = /repo now); cfg_no_X = everything repaired but X. *)
From PV Require Import Lib.Py Lib.Json Spec.IRSyntax Model.IrJson Proofs.C16_irjson Gen.c16_corpus.
From PV Require Import Proofs.C16_rd_scope Proofs.C16_rd_patch Proofs.C16_rd_func.
From PV Require Import Proofs.C16_rd_wf Proofs.C16_rd_sub Proofs.C16_rd_mod Proofs.C16_roundtrip.
From Coq Require Import String.

(* ---- the code as it is violates the property: one well-formed witness per defect *)
Theorem c16_value_refuted : exists m, wf_modul m = true /\ roundtrip cfg_no_value m <> Ok m.
Proof. exact value_refuted. Qed.
Print Assumptions c16_value_refuted.
Theorem c16_volatile_refuted : exists m, wf_modul m = true /\ roundtrip cfg_no_volatile m <> Ok m.
Proof. exact volatile_refuted. Qed.
Print Assumptions c16_volatile_refuted.
Theorem c16_copyblob_refuted : exists m, wf_modul m = true /\ roundtrip cfg_no_copyblob m <> Ok m.
Proof. exact copyblob_refuted. Qed.
Print Assumptions c16_copyblob_refuted.
Theorem c16_undefined_refuted : exists m, wf_modul m = true /\ roundtrip cfg_no_undefined m <> Ok m.
Proof. exact undefined_refuted. Qed.
Print Assumptions c16_undefined_refuted.
Theorem c16_forward_operand_refuted : exists m, wf_modul m = true /\ roundtrip cfg_no_fwdtype m <> Ok m.
Proof. exact fwdtype_refuted. Qed.
Print Assumptions c16_forward_operand_refuted.
Theorem c16_orig_refuted : forall w, In w all_witnesses -> wf_modul w = true /\ roundtrip cfg_orig w <> Ok w.
Proof. exact orig_refuted. Qed.
Print Assumptions c16_orig_refuted.
(* ---- as-found ppci/ir.py replace_use reached through the reader (fixed in /repo by 2d6a9c1, e4350a7, 283ca09) *)
Theorem c16_forward_double_use_refuted :
  wf_modul w_fwd_double = true /\ roundtrip cfg_no_ru_generic w_fwd_double = Internal KeyError.
Proof. exact fwd_double_use_refuted. Qed.
Print Assumptions c16_forward_double_use_refuted.
Theorem c16_forward_phi_refuted :
  wf_modul w_fwd_phi = true /\ roundtrip cfg_no_ru_phi w_fwd_phi = Internal KeyError.
Proof. exact fwd_phi_refuted. Qed.
Print Assumptions c16_forward_phi_refuted.
Theorem c16_forward_call_args_refuted :
  exists m', wf_modul w_fwd_call = true /\ roundtrip cfg_no_ru_call w_fwd_call = Ok m' /\ m' <> w_fwd_call.
Proof. exact fwd_call_args_refuted. Qed.
Print Assumptions c16_forward_call_args_refuted.

(* ---- the repaired code: whole-module round trip on the generated corpus (bounded) *)
Theorem c16_roundtrip_bounded : forall m, In m corpus -> wf_modul m = true /\ roundtrip cfg_fixed m = Ok m.
Proof. exact corpus_roundtrip. Qed.
Print Assumptions c16_roundtrip_bounded.

(* ---- the repaired code: components, for all inputs *)
Theorem c16_type_roundtrip : forall t, get_type (write_type t) = Ok t.
Proof. exact type_roundtrip. Qed.
Print Assumptions c16_type_roundtrip.
Theorem c16_bytes_roundtrip : forall d, all_byte d = true -> asc2bin (bin2asc d) = Ok d.
Proof. exact bytes_roundtrip. Qed.
Print Assumptions c16_bytes_roundtrip.
Theorem c16_const_roundtrip : forall c, read_const (write_const c) = Ok c.
Proof. exact const_roundtrip. Qed.
Print Assumptions c16_const_roundtrip.
(* a global variable WITH its initial value is reconstructed and registered in the module scope *)
Theorem c16_variable_roundtrip : forall gn g st,
  wf_gvar gn g = true -> rs_infun st = false ->
  plookup (g_name g) (rs_pend st) = None -> vlookup (g_name g) (rs_glob st) = None ->
  construct_variable cfg_fixed (write_variable cfg_fixed g) st = Ok (g, reg_glob (g_name g) st).
Proof. exact variable_roundtrip. Qed.
Print Assumptions c16_variable_roundtrip.
Theorem c16_external_roundtrip : forall e st,
  rs_infun st = false ->
  plookup (ext_name e) (rs_pend st) = None -> vlookup (ext_name e) (rs_glob st) = None ->
  construct_external cfg_fixed (write_external e) st = Ok (e, reg_glob (ext_name e) st).
Proof. exact external_roundtrip. Qed.
Print Assumptions c16_external_roundtrip.

(* instruction kinds without operands (const, alloc, literaldata, undefined) in any reader state in
   which the name is fresh and the block open; the kinds WITH operands are not proved unboundedly *)
Theorem c16_leaf_instr_roundtrip_partial : forall f vt i v n t st,
  match i with
  | IConst _ _ _ _ | IUndef _ _ _ => True
  | IAlloc _ _ s _ => s <> 0
  | ILit _ _ d => all_byte d = true
  | _ => False
  end ->
  instr_def i = Some (v, n, t) -> v = rs_next st -> fresh_name n st -> open_block st ->
  exists j, write_instruction cfg_fixed f i = Ok j /\
            construct_instruction cfg_fixed vt j st = Ok (after_value i n t st).
Proof. exact leaf_instr_roundtrip. Qed.
Print Assumptions c16_leaf_instr_roundtrip_partial.

(* ---- the repaired reader, unbounded, up to whole blocks (Proofs/C16_rd_*.v).
   fun_ctx gn f vt fs : names identify values inside f, vt is the type pre-scan of f, earlier subroutines fs only
                        contain placeholders for module-level names (consequences of wf_modul).
   SInv / FInv        : reader-state invariants.  FInv next gk bs is st says: the blocks bs and the instructions is
                        read so far equal the ORIGINAL ones with every operand that is not yet registered
                        (value id >= next, module-level name not in gk) replaced by its placeholder [Unres name];
                        undefined_values has an entry (of the right type) for each placeholder that occurs.
                        G = the module scope (rs_glob), unchanged while a subroutine is read.
   hide / addps / fin : the operand as the reader sees it, the names added to undefined_values, registration. *)
(* every instruction kind, in ANY reader state with correct scopes: operands registered, pending or never seen *)
Theorem c16_instr_roundtrip : forall gn f vt fs next gk st i j,
  fun_ctx gn f vt fs -> SInv gn f next gk st ->
  Forall (wfr gn f) (instr_uses i) -> ctor_ok_instr f i = true ->
  (forall b, In b (instr_targets i ++ phi_blocks i) -> blookup (block_name f b) (rs_bmap st) = Some b) ->
  nodup_pos (phi_blocks i) = true ->
  (forall v n t, instr_def i = Some (v, n, t) -> v = rs_next st) ->
  write_instruction cfg_fixed f i = Ok j ->
  construct_instruction cfg_fixed vt j st = fin (map_refs (hide f next gk) i) (addps f next gk (instr_uses i) st).
Proof. exact instr_roundtrip. Qed.
Print Assumptions c16_instr_roundtrip.
(* DictReader.register_value with the fixed replace_use = substitution of the placeholder everywhere *)
Theorem c16_register_spec : forall name r t (self : option instr) st,
  cov (rs_pend st) (all_built st ++ match self with Some i => [i] | None => [] end) ->
  vlookup name (if rs_infun st then rs_loc st else rs_glob st) = None ->
  register cfg_fixed name r t self st = Ok (option_map (map_refs (sub1 name r)) self, reg_state name r t st).
Proof. exact register_spec. Qed.
Print Assumptions c16_register_spec.
(* one instruction keeps the function invariant (forward-reference patching included) *)
Theorem c16_instr_step_nodef : forall gn f vt fs G next gk bs is st i j,
  fun_ctx gn f vt fs -> FInv gn f fs G next gk bs is st -> instr_def i = None ->
  Forall (wfr gn f) (instr_uses i) -> ctor_ok_instr f i = true ->
  (forall b, In b (instr_targets i) -> blookup (block_name f b) (rs_bmap st) = Some b) ->
  forallb (fun x => negb (is_terminator x)) is = true ->
  write_instruction cfg_fixed f i = Ok j ->
  exists st', construct_instruction cfg_fixed vt j st = Ok st' /\ FInv gn f fs G next gk bs (is ++ [i]) st' /\
              rs_bmap st' = rs_bmap st.
Proof. exact instr_step_nodef. Qed.
Print Assumptions c16_instr_step_nodef.
Theorem c16_instr_step_def : forall gn f vt fs G next gk bs is st i j n t,
  fun_ctx gn f vt fs -> FInv gn f fs G next gk bs is st -> instr_def i = Some (next, n, t) ->
  wfr gn f (Loc next) -> ref_name f (Loc next) = n -> vref_ty f (Loc next) = t ->
  mem_str n (map b_name bs) = false ->
  Forall (wfr gn f) (instr_uses i) -> ctor_ok_instr f i = true ->
  (forall b, In b (phi_blocks i) -> blookup (block_name f b) (rs_bmap st) = Some b) ->
  nodup_pos (phi_blocks i) = true ->
  forallb (fun x => negb (is_terminator x)) is = true ->
  write_instruction cfg_fixed f i = Ok j ->
  exists st', construct_instruction cfg_fixed vt j st = Ok st' /\
              FInv gn f fs G (Pos.succ next) gk bs (is ++ [i]) st' /\ rs_bmap st' = rs_bmap st.
Proof. exact instr_step_def. Qed.
Print Assumptions c16_instr_step_def.
(* a whole block (seq_ok = its instructions are locally well-formed, value ids run from next to next') *)
Theorem c16_block_roundtrip : forall gn f vt fs G bm gk bs k next next' st j,
  fun_ctx gn f vt fs ->
  seq_ok gn f bm bs [] next (b_ins k) next' ->
  FInv gn f fs G next gk bs [] st -> rs_bmap st = bm ->
  blookup (b_name k) bm = Some (b_id k) ->
  mem_str (b_name k) (map b_name bs ++ map def_name (instrs_defs (flat_map b_ins bs ++ b_ins k))) = false ->
  write_block cfg_fixed f k = Ok j ->
  exists st', construct_block cfg_fixed vt j st = Ok st' /\ FInv gn f fs G next' gk (bs ++ [k]) [] st' /\
              rs_bmap st' = bm.
Proof. exact block_roundtrip. Qed.
Print Assumptions c16_block_roundtrip.
(* the hypotheses above are inhabited: first two blocks of the forward-operand witness, x stays pending *)
Theorem c16_reader_nonvacuous :
  fun_ctx nv_gn nv_f nv_vt [] /\ FInv nv_gn nv_f [] nv_G 1 nv_gn [] [] nv_st /\
  exists j1 j2 st1 st2,
    write_block cfg_fixed nv_f (mk_block 1 "entry"%string [IJump 3]) = Ok j1 /\
    construct_block cfg_fixed nv_vt j1 nv_st = Ok st1 /\
    write_block cfg_fixed nv_f (mk_block 2 "b1"%string [IUnop 1 "y"%string I32 Neg (Loc 2); IExit]) = Ok j2 /\
    construct_block cfg_fixed nv_vt j2 st1 = Ok st2 /\
    FInv nv_gn nv_f [] nv_G 2 nv_gn [mk_block 1 "entry"%string [IJump 3]; mk_block 2 "b1"%string [IUnop 1 "y"%string I32 Neg (Loc 2); IExit]] [] st2 /\
    rs_pend st2 = [("x"%string, I32)].
Proof. split; [exact nv_ctx|]. split; [exact nv_finv | exact nv_blocks]. Qed.
Print Assumptions c16_reader_nonvacuous.

(* ---- one whole subroutine, unbounded (Proofs/C16_rd_wf.v, C16_rd_sub.v, C16_rd_mod.v).
   MInv gn gk done st : the reader state between subroutines: the module-level names gk (a subset of all module-level
   names gn) are registered in the module scope; the subroutines read so far are the ORIGINAL ones (done) with every
   reference to a module-level name that is not yet registered replaced by its placeholder; undefined_values holds
   exactly such names (ptr-typed).  Reading the JSON written for a well-formed, constructor-typed subroutine f whose
   name is not registered yet registers it, consumes its parameters, the type pre-scan and all its blocks (loops,
   shuffled block order, forward references, calls to later subroutines, recursion) and appends f itself. *)
Theorem c16_function_roundtrip : forall gn gk done f st j,
  MInv gn gk done st -> wf_func gn f = true -> ctor_ok_func f = true ->
  In (f_name f) gn -> mem_str (f_name f) gk = false ->
  write_subroutine cfg_fixed f = Ok j ->
  exists st', construct_subroutine cfg_fixed j st = Ok st' /\ MInv gn (f_name f :: gk) (done ++ [f]) st'.
Proof. exact function_read. Qed.
Print Assumptions c16_function_roundtrip.
(* registering a module-level name (external, variable, subroutine) keeps the module invariant *)
Theorem c16_register_global : forall gn gk done n st,
  MInv gn gk done st -> In n gn -> mem_str n gk = false ->
  register cfg_fixed n (Glob n) Ptr None st = Ok (None, reg_state n (Glob n) Ptr st) /\
  MInv gn (n :: gk) done (reg_state n (Glob n) Ptr st).
Proof. exact reg_global. Qed.
Print Assumptions c16_register_global.
(* inhabited: the empty reader state satisfies MInv, and the forward-operand subroutine is read back exactly *)
Theorem c16_function_nonvacuous :
  (forall gn, MInv gn [] [] rst0) /\
  exists j st', write_subroutine cfg_fixed nv_f = Ok j /\ construct_subroutine cfg_fixed j rst0 = Ok st' /\
                MInv nv_gn ["pr"%string] [nv_f] st' /\ rs_funcs st' = [nv_f] /\ rs_pend st' = [].
Proof. split; [exact MInv_init | exact nv_function]. Qed.
Print Assumptions c16_function_nonvacuous.

(* ---- THE PROPERTY, unbounded, for the repaired code (= /repo now): every well-formed module whose instructions
   satisfy the constructor invariants of ppci.ir (operand types etc.; true of every live ppci module, the reader
   re-runs the constructors) is reconstructed exactly by from_dict (to_dict m): externals, global variables with
   their initial values, subroutines, blocks, instructions, types, constants, volatile flags. *)
Theorem c16_roundtrip : forall m, wf_modul m = true -> ctor_ok_modul m = true -> roundtrip cfg_fixed m = Ok m.
Proof. exact roundtrip_unbounded. Qed.
Print Assumptions c16_roundtrip.
(* all subroutines of a module in sequence (the fold used by c16_roundtrip) *)
Theorem c16_subroutines_roundtrip : forall gn rest done gk st js,
  MInv gn gk done st ->
  (forall f, In f rest -> wf_func gn f = true /\ ctor_ok_func f = true /\ In (f_name f) gn /\ mem_str (f_name f) gk = false) ->
  NoDup (map f_name rest) ->
  mapM (write_subroutine cfg_fixed) rest = Ok js ->
  exists st' gk', construct_subroutines cfg_fixed js st = Ok st' /\ MInv gn gk' (done ++ rest) st' /\
                  (forall s, In s gk' <-> In s gk \/ In s (map f_name rest)).
Proof. exact subs_fold. Qed.
Print Assumptions c16_subroutines_roundtrip.

Example c16_nonvacuous :
  forallb (fun m => wf_modul m && ctor_ok_modul m) corpus = true /\ (10 <= List.length corpus)%nat /\ forallb (rt_ok cfg_fixed) all_witnesses = true.
Proof. split; [vm_compute; reflexivity|]. split; [exact corpus_nonempty | exact fixed_witnesses]. Qed.
