(* Props/C15.v — IR text format round-trips (ppci/irutils/writer.py, reader.py, ir.py __str__), statements only.
   Model.IrText: print_text/print_tokens = Writer + __str__;  read_text = tokenize ; Reader.parse_* ; name
   resolution.  tcfg_orig = the baseline code; tcfg_noru = baseline + fixes/C15-*.diff; tcfg_fixed = the current /repo (replace_use
   of ir.py repaired) + fixes/C15-*.diff.
   text_roundtrip c tab m = read_text c (print_text c m); [tab] = the float table (bits, repr text) of m.
   norm c m = m without what the text does not carry (volatile flags, order of phi inputs).
   l_instr = __str__ of one instruction as layout tokens, toks = its tokens (white space dropped). *)
From PV Require Import Lib.Py Lib.Val Spec.IRSyntax Model.IrText Proofs.C15_irtext Proofs.C15_lexer Proofs.C15_layout
  Proofs.C15_module Proofs.C15_resolve Proofs.C15_compose Gen.c15_corpus.
From Coq Require Import String List.
Import ListNotations.

(* ---- the code as it is violates the property: one well-formed witness per defect *)
Theorem c15_global_init_refuted :
  exists m', wf_modul w_init = true /\ text_roundtrip tcfg_orig [] w_init = Ok m' /\
             map g_value (m_vars m') = [None] /\ map g_value (m_vars w_init) <> [None].
Proof. exact global_init_refuted. Qed.
Print Assumptions c15_global_init_refuted.
Theorem c15_float_exponent_refuted :
  wf_modul w_float_exp = true /\ text_roundtrip tcfg_orig tab_exp w_float_exp = Diag 1.
Proof. exact float_exponent_refuted. Qed.
Print Assumptions c15_float_exponent_refuted.
Theorem c15_float_nonfinite_refuted :
  wf_modul w_float_inf = true /\ text_roundtrip tcfg_orig tab_inf w_float_inf = Internal NotImplemented.
Proof. exact float_nonfinite_refuted. Qed.
Print Assumptions c15_float_nonfinite_refuted.
Theorem c15_rotate_refuted : wf_modul w_rol = true /\ text_roundtrip tcfg_orig [] w_rol = Internal NotImplemented.
Proof. exact rotate_refuted. Qed.
Print Assumptions c15_rotate_refuted.
Theorem c15_invert_refuted : wf_modul w_inv = true /\ text_roundtrip tcfg_orig [] w_inv = Diag 1.
Proof. exact invert_refuted. Qed.
Print Assumptions c15_invert_refuted.
Theorem c15_forward_type_refuted : wf_modul w_fwd = true /\ text_roundtrip tcfg_orig [] w_fwd = Internal TypeError.
Proof. exact forward_type_refuted. Qed.
Print Assumptions c15_forward_type_refuted.
(* ---- with the fixes the same witnesses round-trip (lexer, reader, normal form, textual fixpoint) *)
Theorem c15_witnesses_fixed : forall tab m,
  In (tab, m) [([], w_init); (tab_exp, w_float_exp); (tab_inf, w_float_inf); ([], w_rol); ([], w_inv); ([], w_fwd)] ->
  roundtrip_prop tcfg_fixed tab m.
Proof. exact witnesses_roundtrip. Qed.
Print Assumptions c15_witnesses_fixed.
(* ---- the three defects repaired last (tcfg_w2 = the code before fixes/C15-copyblob-reader, C15-undefined-type,
        C15-volatile-marker.diff; tcfg_fixed = with them) *)
Theorem c15_volatile_refuted :
  exists m', wf_modul w_volatile = true /\ text_roundtrip tcfg_w2 [] w_volatile = Ok m' /\ m' <> w_volatile
             /\ m' = norm tcfg_w2 w_volatile.
Proof. exact volatile_refuted. Qed.
Print Assumptions c15_volatile_refuted.
Theorem c15_copyblob_refuted : wf_modul w_copyblob = true /\ text_roundtrip tcfg_w2 [] w_copyblob = Internal KeyError.
Proof. exact copyblob_refuted. Qed.
Print Assumptions c15_copyblob_refuted.
Theorem c15_undefined_refuted : wf_modul w_undef = true /\ text_roundtrip tcfg_w2 [] w_undef = Internal KeyError.
Proof. exact undefined_refuted. Qed.
Print Assumptions c15_undefined_refuted.
(* the replace_use defects of ppci/ir.py reached through Reader.define_value (baseline + C15 fixes = tcfg_noru);
   repaired in /repo by the commits 2d6a9c1, e4350a7, 283ca09: with them the witnesses round-trip *)
Theorem c15_forward_double_use_refuted :
  wf_modul w_fwd_double = true /\ text_roundtrip tcfg_noru [] w_fwd_double = Internal KeyError.
Proof. exact fwd_double_use_refuted. Qed.
Print Assumptions c15_forward_double_use_refuted.
Theorem c15_forward_double_phi_refuted :
  wf_modul w_fwd_phi = true /\ text_roundtrip tcfg_noru [] w_fwd_phi = Internal KeyError.
Proof. exact fwd_double_phi_refuted. Qed.
Print Assumptions c15_forward_double_phi_refuted.
Theorem c15_forward_call_args_refuted :
  exists m', wf_modul w_fwd_call = true /\ text_roundtrip tcfg_noru [] w_fwd_call = Ok m' /\ wf_modul m' = false.
Proof. exact fwd_call_args_refuted. Qed.
Print Assumptions c15_forward_call_args_refuted.
Theorem c15_replace_use_fixed : forall m, In m [w_fwd_double; w_fwd_phi; w_fwd_call] -> roundtrip_prop tcfg_fixed [] m.
Proof. exact replace_use_roundtrip. Qed.
Print Assumptions c15_replace_use_fixed.

(* ---- unbounded: every printable instruction kind is parsed back from its own tokens (any configuration c,
        any loop bound N that covers the argument / phi lists) *)
Theorem c15_kind_const : forall c N t n k, rprintable_instr c (RConst t n k) = true -> stmt_ok c N (RConst t n k).
Proof. exact kind_const. Qed.
Print Assumptions c15_kind_const.
Theorem c15_kind_binop : forall c N t n a o b,
  rprintable_instr c (RBinop t n a o b) = true -> stmt_ok c N (RBinop t n a o b).
Proof. exact kind_binop. Qed.
Print Assumptions c15_kind_binop.
Theorem c15_kind_unop : forall c N t n o a, rprintable_instr c (RUnop t n o a) = true -> stmt_ok c N (RUnop t n o a).
Proof. exact kind_unop. Qed.
Print Assumptions c15_kind_unop.
Theorem c15_kind_cast : forall c N t n a, stmt_ok c N (RCast t n a).
Proof. exact kind_cast. Qed.
Print Assumptions c15_kind_cast.
Theorem c15_kind_load : forall c N t n a vol, rprintable_instr c (RLoad t n a vol) = true -> stmt_ok c N (RLoad t n a vol).
Proof. exact kind_load. Qed.
Print Assumptions c15_kind_load.
Theorem c15_kind_store : forall c N x a vol, rprintable_instr c (RStore x a vol) = true -> stmt_ok c N (RStore x a vol).
Proof. exact kind_store. Qed.
Print Assumptions c15_kind_store.
Theorem c15_kind_copyblob : forall c N d s n, rprintable_instr c (RCopyBlob d s n) = true -> stmt_ok c N (RCopyBlob d s n).
Proof. exact kind_copyblob. Qed.
Print Assumptions c15_kind_copyblob.
Theorem c15_kind_undefined : forall c N t n, rprintable_instr c (RUndef t n) = true -> stmt_ok c N (RUndef t n).
Proof. exact kind_undef. Qed.
Print Assumptions c15_kind_undefined.
Theorem c15_kind_alloc : forall c N t n s al, stmt_ok c N (RAlloc t n s al).
Proof. exact kind_alloc. Qed.
Print Assumptions c15_kind_alloc.
Theorem c15_kind_addressof : forall c N t n a, stmt_ok c N (RAddrOf t n a).
Proof. exact kind_addressof. Qed.
Print Assumptions c15_kind_addressof.
Theorem c15_kind_literal : forall c N t n h, stmt_ok c N (RLit t n h).
Proof. exact kind_literal. Qed.
Print Assumptions c15_kind_literal.
Theorem c15_kind_phi : forall c N t n ins,
  rprintable_instr c (RPhi t n ins) = true -> (List.length ins <= N)%nat -> stmt_ok c N (RPhi t n ins).
Proof. exact kind_phi. Qed.
Print Assumptions c15_kind_phi.
Theorem c15_kind_callf : forall c N t n f args, (List.length args <= N)%nat -> stmt_ok c N (RCallF t n f args).
Proof. exact kind_callf. Qed.
Print Assumptions c15_kind_callf.
Theorem c15_kind_callp : forall c N f args, (List.length args <= N)%nat -> stmt_ok c N (RCallP f args).
Proof. exact kind_callp. Qed.
Print Assumptions c15_kind_callp.
Theorem c15_kind_jump : forall c N b, stmt_ok c N (RJump b).
Proof. exact kind_jump. Qed.
Print Assumptions c15_kind_jump.
Theorem c15_kind_cjump : forall c N a o b y n, stmt_ok c N (RCJump a o b y n).
Proof. exact kind_cjump. Qed.
Print Assumptions c15_kind_cjump.
Theorem c15_kind_return : forall c N a, stmt_ok c N (RReturn a).
Proof. exact kind_return. Qed.
Print Assumptions c15_kind_return.
Theorem c15_kind_exit : forall c N, stmt_ok c N RExit.
Proof. exact kind_exit. Qed.
Print Assumptions c15_kind_exit.
Theorem c15_statement_roundtrip : forall c N i rest,
  rprintable_instr c i = true -> (rsize_instr i <= N)%nat ->
  parse_statement c N (toks (l_instr i) ++ TOp ";" :: rest) = Ok (i, rest).
Proof. intros c N i rest H1 H2. exact (stmt_roundtrip c N i H1 H2 rest). Qed.
Print Assumptions c15_statement_roundtrip.
Theorem c15_block_roundtrip : forall c N k rest,
  rblock_ok c N k -> parse_block c N (toks (l_block k) ++ rest) = Ok (k, rest).
Proof. exact block_roundtrip. Qed.
Print Assumptions c15_block_roundtrip.

Theorem c15_function_roundtrip : forall c N f rest,
  rfunc_ok c N f -> parse_declaration c N (toks (l_func f) ++ rest) = Ok (RFunc f, rest).
Proof. exact func_roundtrip. Qed.
Print Assumptions c15_function_roundtrip.

(* ---- unbounded, layer by layer (any configuration c unless stated) *)
(* lexer: a layout whose tokens are well-formed spellings separated as tokenize needs is lexed to its tokens *)
Theorem c15_lex_render : forall c l, lay_ok c l = true -> lex c (render l) = Ok (toks l).
Proof. exact lex_render. Qed.
Print Assumptions c15_lex_render.
(* every layout the printer produces from lexable names / spellings satisfies that side condition *)
Theorem c15_layout_lexable : forall c r, rlex_ok c r = true -> lay_ok c (layout r) = true.
Proof. exact layout_lexable. Qed.
Print Assumptions c15_layout_lexable.
Theorem c15_print_lexes : forall c fr fp m, printable c fr fp m = true ->
  lex c (print_text c fr m) = Ok (print_tokens c fr m).
Proof. exact print_lexes. Qed.
Print Assumptions c15_print_lexes.
(* parser, module level (externals, variables with initial values, functions), with the loop bound of [parse] *)
Theorem c15_module_parse : forall c fr fp m, printable c fr fp m = true ->
  parse c (print_tokens c fr m) = Ok (erase fr c m).
Proof. exact module_parse_printable. Qed.
Print Assumptions c15_module_parse.
(* name resolution incl. forward references (placeholders + Value.replace_by), for every configuration in which
   placeholders take the expected type and replace_use is repaired (= the current code + fixes/C15-*.diff) *)
Theorem c15_resolve_roundtrip : forall c fp fr m,
  fx_fwd c = true -> fx_ru_generic c = true -> fx_ru_phi c = true -> fx_ru_call c = true ->
  wf_modul m = true -> printable c fr fp m = true ->
  resolve c fp (erase fr c m) = Ok (norm c m).
Proof. exact resolve_roundtrip. Qed.
Print Assumptions c15_resolve_roundtrip.
(* the composition: the characters printed for a well-formed printable module are read back to its normal form,
   which prints identically *)
Theorem c15_roundtrip : forall c fr fp m,
  fx_fwd c = true -> fx_ru_generic c = true -> fx_ru_phi c = true -> fx_ru_call c = true ->
  wf_modul m = true -> printable c fr fp m = true ->
  read_text c fp (print_text c fr m) = Ok (norm c m) /\
  print_text c fr (norm c m) = print_text c fr m /\ print_tokens c fr (norm c m) = print_tokens c fr m.
Proof. exact text_roundtrip_all. Qed.
Print Assumptions c15_roundtrip.
(* with everything repaired the normal form only sorts phi inputs: volatile flags are kept, CopyBlob and Undefined
   are printable *)
Theorem c15_norm_keeps_volatile : forall c f i, fx_volatile c = true -> (forall v n t ins, i <> IPhi v n t ins) ->
  norm_instr c f i = i.
Proof. exact norm_keeps_volatile. Qed.
Print Assumptions c15_norm_keeps_volatile.
Theorem c15_wave3_fixed : forall m, In m [w_volatile; w_copyblob; w_undef] -> roundtrip_prop tcfg_fixed [] m.
Proof. exact wave3_roundtrip. Qed.
Print Assumptions c15_wave3_fixed.
Theorem c15_volatile_kept : text_roundtrip tcfg_fixed [] w_volatile = Ok w_volatile.
Proof. exact volatile_kept. Qed.
Print Assumptions c15_volatile_kept.
Theorem c15_roundtrip_fixed : forall fr fp m, wf_modul m = true -> printable tcfg_fixed fr fp m = true ->
  read_text tcfg_fixed fp (print_text tcfg_fixed fr m) = Ok (norm tcfg_fixed m) /\
  print_text tcfg_fixed fr (norm tcfg_fixed m) = print_text tcfg_fixed fr m.
Proof. intros fr fp m Hw Hp. destruct (text_roundtrip_all tcfg_fixed fr fp m eq_refl eq_refl eq_refl eq_refl Hw Hp) as (A & B & _). now split. Qed.
Print Assumptions c15_roundtrip_fixed.

(* ---- the repaired code, whole modules (bounded: the generated corpus): the text is lexed to the printed
        tokens, read back to the normal form of the module, and prints identically *)
Theorem c15_roundtrip_bounded : forall tab m, In (tab, m) corpus -> roundtrip_prop tcfg_fixed tab m.
Proof. exact corpus_roundtrip. Qed.
Print Assumptions c15_roundtrip_bounded.

Example c15_nonvacuous :
  Nat.leb 60 (List.length corpus) = true /\ rprintable_instr tcfg_fixed (RBinop I32 "r" "a" Rol "b") = true /\
  rblock_ok tcfg_fixed 5 (mk_rblock "entry" [RConst F64 "c" (RFloat "inf"); RExit]).
Proof. split; [vm_compute; reflexivity|split; [reflexivity|]]. split; [cbn; lia|].
  intros i [<-|[<-|[]]]; split; cbn; try reflexivity; lia. Qed.
