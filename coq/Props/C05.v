(* Props/C05.v — property C05 (PARTIAL: rule level, RISC-V RV32IM only): machine code preserves IR behaviour.
   Only statements, [exact] of lemmas from Proofs/, and Print Assumptions.
   rv_rules (Gen/Tab_rv_patterns.v) is regenerated on every run by executing every @isa.pattern function of
   ppci/arch/riscv/instructions.py on a dummy tree with a recording context; exec is Spec/RV32Exec.v; the IR side
   is Spec/IRSem.eval_binop / wrap_bits at the riscv configuration (32-bit pointers).
   Representation: a register r represents the IR value v of a type with [bits] bits iff r = v (mod 2^bits)
   ([rep]); [val bits sg r] is the IR value a register content stands for.
   rule_correct r (Proofs/C05_rules.v): for every environment (operand registers, distinct non-zero fresh
   temporaries disjoint from the operands, constants in the range of their type that satisfy the rule's
   condition) and every machine state: if the IR operator of the tree is defined (no UB) with value v on the
   operand values, then executing the instantiated instruction list leaves in the result register a
   representation of v, changes no register other than the rule's fresh temporaries, and leaves memory alone.
   NOT covered here: everything outside [tree_sem] (casts, neg/inv, loads/stores, moves, jumps, calls, labels,
   frame-relative addressing, floats), register allocation, frame layout, other targets. *)
From PV Require Import Lib.Py Spec.IRSyntax Spec.IRSem Spec.RV32Decode Spec.RV32Exec Model.RvRules
  Gen.Tab_rv_patterns Gen.Tab_rv_bad Proofs.C05_arith Proofs.C05_rules Proofs.C05_mem Proofs.C05_ext Proofs.C05_ext2 Proofs.C05_table Model.RvFrame Proofs.C05_frame.
From Coq Require Import String.
Open Scope Z_scope.
Open Scope list_scope.

(* per-opcode lemma, register-register forms: add sub mul and or xor sll at 8/16/32 bits, srl/sra div/divu
   rem/remu at 32 bits implement the IR operator on represented values (UB cases excluded by ODone) *)
Theorem c05_rv_alu_rr : forall t o bits sg ro a b v,
  int_shape rv_cfg t = Some (bits, sg) -> (bits = 8 \/ bits = 16 \/ bits = 32) ->
  rr_op o bits sg = Some ro -> 0 <= a < 2 ^ 32 -> 0 <= b < 2 ^ 32 ->
  eval_binop rv_cfg t o (val bits sg a) (val bits sg b) = ODone v ->
  rep bits (alu_r ro a b) v.
Proof. exact alu_rr_sound. Qed.
Print Assumptions c05_rv_alu_rr.

(* immediate forms addi andi ori xori (12-bit signed immediate) and slli srli srai *)
Theorem c05_rv_alu_ri : forall t o bits sg io a c v,
  int_shape rv_cfg t = Some (bits, sg) -> (bits = 8 \/ bits = 16 \/ bits = 32) ->
  ri_op o bits sg = Some io -> 0 <= a < 2 ^ 32 ->
  (is_shift o = false -> -2048 <= c < 2048) -> (is_shift o = true -> c < 32) ->
  eval_binop rv_cfg t o (val bits sg a) c = ODone v ->
  rep bits (alu_i io a (if is_shift_i io then c else imm12 c)) v.
Proof. exact alu_ri_sound. Qed.
Print Assumptions c05_rv_alu_ri.

(* large-immediate materialisation: Li(rd, v) = addi, or lui + addi with the 0x800 carry, loads exactly v *)
Theorem c05_rv_li_correct : forall rd v, rd <> 0 -> -2147483648 <= v < 4294967296 ->
  exists il, to_rv_all (li_expand rd v) = Some il /\
    forall s, getreg (exec_seq il s) rd = u32 v /\
              (forall x, x <> rd -> getreg (exec_seq il s) x = getreg s x) /\
              (forall a, loadbyte (exec_seq il s) a = loadbyte s a).
Proof. exact li_correct. Qed.
Print Assumptions c05_rv_li_correct.

(* every rule that passes the syntactic check is sound (any rule, in particular those of the table) *)
Theorem c05_rv_rule_sound : forall r, check_rule r = true -> rule_correct r.
Proof. exact check_rule_sound. Qed.
Print Assumptions c05_rv_rule_sound.

(* the exported counterexamples are real: the rule fails the check and the concrete execution disagrees *)
Theorem c05_rv_rule_refuted : forall w, In w rv_rules_bad ->
  witness_ok (rule_at (fst (fst w))) (snd (fst w)) (snd w) = true /\ check_rule (rule_at (fst (fst w))) = false.
Proof. exact rules_refuted. Qed.
Print Assumptions c05_rv_rule_refuted.

(* every rule in the scope of tree_sem is proved, refuted, or explicitly listed as undecided *)
Theorem c05_rv_rules_decided :
  forallb (fun n => let r := rule_at n in
                    negb (in_scope r) || check_rule r || check_subword_bin r ||
                    existsb (fun w => Nat.eqb (fst (fst w)) n) rv_rules_bad ||
                    existsb (Nat.eqb n) rv_rules_undecided)
          (seq 0 (List.length rv_rules)) = true.
Proof. exact rules_decided. Qed.
Print Assumptions c05_rv_rules_decided.

(* ---- memory, move and control rules (Proofs/C05_mem.v).  mem_rel m s: every byte IRSem's memory m holds at an
   address (0 <= a < 2^32, byte in 0..255) is the byte the machine memory holds there.
   load_correct: LDRt(reg | mem | ADD(reg, const)) with the 12-bit offset confined by the rule's condition (or, for
   the (base, offset) pair of a mem child, by hypothesis mem_off_ok): if IRSem.read_bytes at the IR address
   (congruent to base register + offset) yields bs, the result register represents wrap_t(le_decode bs)
   (= IRSem.load_val), only the fresh register changes, memory is untouched.
   store_correct: STRt(reg | mem, reg): if IRSem.write_bytes of le_encode z (z represented by the value register)
   succeeds with m', then mem_rel m' holds after the store and no register changes.
   mov_correct: MOVt(reg): tree.value := operand, nothing else changes.
   cjmp_correct: CJMPt(reg, reg)[op] at 32-bit types: the emitted branch is taken iff IRSem.eval_cond op on the
   represented values (exec_branch / exec_jal0 give the pc of branch and of the following j);
   sub-word CJMP rules come out refuted (c05_rv_cjmp_refuted). *)
Theorem c05_rv_mem_rel_store : forall n m s A x z r m',
  mem_rel m s -> u32 A = u32 x -> z mod 256 ^ Z.of_nat n = r mod 256 ^ Z.of_nat n ->
  write_bytes m A (le_encode z n) = Some m' -> mem_rel m' (store_le s n x r).
Proof. exact store_rel. Qed.
Print Assumptions c05_rv_mem_rel_store.

Theorem c05_rv_load_rule_sound : forall r, check_load r = true -> load_correct r.
Proof. exact check_load_sound. Qed.
Print Assumptions c05_rv_load_rule_sound.

Theorem c05_rv_store_rule_sound : forall r, check_store r = true -> store_correct r.
Proof. exact check_store_sound. Qed.
Print Assumptions c05_rv_store_rule_sound.

Theorem c05_rv_mov_rule_sound : forall r, check_mov r = true -> mov_correct r.
Proof. exact check_mov_sound. Qed.
Print Assumptions c05_rv_mov_rule_sound.

Theorem c05_rv_cjmp_rule_sound : forall r, check_cjmp r = true -> cjmp_correct r.
Proof. exact check_cjmp_sound. Qed.
Print Assumptions c05_rv_cjmp_rule_sound.

Theorem c05_rv_branch_pc : forall bc x y off s,
  getpc (exec (RBranch bc x y off) s) =
    (if branch_taken bc (getreg s x) (getreg s y) then u32 (getpc s + off) else u32 (getpc s + 4)) /\
  (forall q, getreg (exec (RBranch bc x y off) s) q = getreg s q) /\
  (forall a, loadbyte (exec (RBranch bc x y off) s) a = loadbyte s a).
Proof. exact exec_branch. Qed.
Print Assumptions c05_rv_branch_pc.

Theorem c05_rv_jmp_rule_sound : forall r, check_jmp r = true ->
  exists l, r_body r = [("j"%string, [SOther l])] /\ forall off, to_rv ("j"%string, [off]) = Some (RJal 0 off).
Proof. exact check_jmp_sound. Qed.
Print Assumptions c05_rv_jmp_rule_sound.

Theorem c05_rv_cjmp_refuted : forall w, In w rv_cj_bad ->
  cj_witness_ok (rule_at (fst (fst w))) (snd (fst w)) (snd w) = true /\ check_rule2 (rule_at (fst (fst w))) = false.
Proof. exact cj_refuted. Qed.
Print Assumptions c05_rv_cjmp_refuted.

Theorem c05_rv_rules2_decided :
  forallb (fun n => let r := rule_at n in
                    negb (in_scope2 r) || check_rule2 r || check_cjmp_ext r ||
                    existsb (fun w => Nat.eqb (fst (fst w)) n) rv_cj_bad ||
                    existsb (Nat.eqb n) rv_rules2_undecided)
          (seq 0 (List.length rv_rules)) = true.
Proof. exact rules2_decided. Qed.
Print Assumptions c05_rv_rules2_decided.

(* ---- sub-word conditional jumps that extend their operands first, and unary value rules (Proofs/C05_ext.v).
   ext_correct: slli k; srai/srli k (k = 32 - bits) leaves the 32-bit register whose signed/unsigned reading is
   the sub-word IR value.  cjmp_ext_correct: CJMP{I,U}{8,16}[op] emitting the two extensions into fresh registers
   and then the 32-bit branch: taken iff IRSem.eval_cond on the represented sub-word values; only the two
   temporaries change.  unary_correct: truncating/same-width casts (no code), widening casts by extension
   according to the SOURCE signedness into a fresh register, NEG (sub d, x0, a), INV (xori d, a, -1), REG. *)
Theorem c05_rv_ext_correct : forall bits sg a, (bits = 8 \/ bits = 16) -> 0 <= a < 4294967296 ->
  0 <= ext_val bits sg a < 4294967296 /\ wrap_bits 32 sg (ext_val bits sg a) = wrap_bits bits sg a.
Proof. exact ext_correct. Qed.
Print Assumptions c05_rv_ext_correct.

Theorem c05_rv_cjmp_ext_rule_sound : forall r, check_cjmp_ext r = true -> cjmp_ext_correct r.
Proof. exact check_cjmp_ext_sound. Qed.
Print Assumptions c05_rv_cjmp_ext_rule_sound.

Theorem c05_rv_unary_rule_sound : forall r, check_unary r = true -> unary_correct r.
Proof. exact check_unary_sound. Qed.
Print Assumptions c05_rv_unary_rule_sound.

(* ---- wave 4 (Proofs/C05_ext2.v): SHRU8/16, SHRI8/16 (extend the left operand into a temporary, then srl/sra
   by the right operand) and DIVU/REMU 8/16 (zero-extend both operands, then divu/remu) satisfy the same
   rule_correct as the one-instruction rules; address rows: mem: reg and mem: FPRELU32 emit no code and hand on a
   (base, offset) pair whose offset is within 12 bits (this discharges mem_off_ok of the load/store theorems);
   reg: FPRELU32 computes fp + offset *)
Theorem c05_rv_subword_rule_sound : forall r, check_subword_bin r = true -> rule_correct r.
Proof. exact check_subword_bin_sound. Qed.
Print Assumptions c05_rv_subword_rule_sound.

Theorem c05_rv_mem_address_rule_sound : forall r, check_memprod r = true -> memprod_correct r.
Proof. exact check_memprod_sound. Qed.
Print Assumptions c05_rv_mem_address_rule_sound.

Theorem c05_rv_fprel_rule_sound : forall r, check_fprel_reg r = true -> fprel_correct r.
Proof. exact check_fprel_reg_sound. Qed.
Print Assumptions c05_rv_fprel_rule_sound.

(* ---- c05_rv_callconv: frame code and argument locations on the abstract frame machine of Model/RvFrame.v
   (registers + word slots addressed by byte address; the printed prologue/epilogue instruction lists are
   shown to BE these operations).  Model = RiscvArch without options: arguments in x12..x17 then stack slots
   packed by size, result in x10.  Balanced: after prologue; any body that restores sp and leaves the save area
   intact; epilogue => sp, fp, ra and every saved callee-saved register have their entry values, no other
   register and no memory is changed by the epilogue. *)
Theorem c05_rv_frame_items_are_ops : forall stacksize saved extras,
  fops_of (prologue_items stacksize saved extras) = Some (prologue_ops stacksize saved extras) /\
  fops_of (epilogue_items stacksize saved extras) = Some (epilogue_ops stacksize saved extras).
Proof. intros. split; [apply prologue_is_ops|apply epilogue_is_ops]. Qed.
Print Assumptions c05_rv_frame_items_are_ops.

Theorem c05_rv_callconv : forall stacksize saved extras s s2,
  0 <= stacksize -> NoDup saved -> ~ In SPr saved -> ~ In FPr saved -> ~ In RAr saved ->
  let ssize := round_up (stacksize + 8) in
  let rsize := round_up (4 * Z.of_nat (List.length saved)) in
  let sp0 := f_regs s SPr in
  let s1 := frun (prologue_ops stacksize saved extras) s in
  f_regs s1 SPr = sp0 - frame_total stacksize saved extras /\ f_regs s1 FPr = sp0 - ssize + 8 /\
  (forall x, x <> SPr -> x <> FPr -> f_regs s1 x = f_regs s x) /\
  (forall a, sp0 <= a -> f_mem s1 a = f_mem s a) /\
  (f_regs s2 SPr = f_regs s1 SPr ->
   (forall a, sp0 - ssize - rsize <= a < sp0 - ssize + 8 -> f_mem s2 a = f_mem s1 a) ->
   let s3 := frun (epilogue_ops stacksize saved extras) s2 in
   f_regs s3 SPr = sp0 /\ f_regs s3 FPr = f_regs s FPr /\ f_regs s3 RAr = f_regs s RAr /\
   (forall r, In r saved -> f_regs s3 r = f_regs s r) /\
   (forall x, x <> SPr -> x <> FPr -> x <> RAr -> ~ In x saved -> f_regs s3 x = f_regs s2 x) /\
   (forall a, f_mem s3 a = f_mem s2 a)).
Proof. exact frame_balanced. Qed.
Print Assumptions c05_rv_callconv.

Theorem c05_rv_arg_locations : forall args,
  NoDup (regs_of (determine_arg_locations args)) /\
  (exists n, regs_of (determine_arg_locations args) = firstn n [12; 13; 14; 15; 16; 17]) /\
  stack_ok (determine_arg_locations args) 0.
Proof.
  intros. split; [apply arg_regs_distinct|]. split; [apply arg_locs_regs|apply arg_locs_stack].
Qed.
Print Assumptions c05_rv_arg_locations.

Theorem c05_rv_callee_sees_caller_slot : forall stacksize saved extras s off,
  0 <= stacksize -> NoDup saved -> ~ In SPr saved -> ~ In FPr saved -> ~ In RAr saved ->
  f_regs (frun (prologue_ops stacksize saved extras) s) FPr + (off + (round_up (stacksize + 8) - 8)) = f_regs s SPr + off.
Proof. exact callee_sees_caller_slot. Qed.
Print Assumptions c05_rv_callee_sees_caller_slot.

(* hypotheses are inhabited: ADDI32(reg, reg) is in the table, passes the check; a concrete run of its body *)
Example c05_nonvacuous :
  exists r, In r rv_rules /\ r_text r = "ADDI32(reg, reg)"%string /\ check_rule r = true /\
    Nat.ltb 40 (List.length covered_rules) = true /\ Nat.ltb 30 (List.length covered_rules2) = true /\
    (let e := mkEnv [11; 12] [20] [] 0 in
     match instantiate r e with
     | Some il => getreg (exec_seq il (state_of [(11, 4294967295); (12, 3)])) 20 =? 2
     | None => false
     end) = true /\
    li_expand 5 (-5000) = [("lui"%string, [5; 1048575]); ("addi"%string, [5; 5; 3192])].
Proof.
  assert (E : existsb (fun r => String.eqb (r_text r) "ADDI32(reg, reg)" && check_rule r) rv_rules = true)
    by (vm_compute; reflexivity).
  apply existsb_exists in E. destruct E as (r & Hin & Hr). apply andb_prop in Hr. destruct Hr as [Ht Hc].
  apply String.eqb_eq in Ht. exists r. split; [exact Hin|]. split; [exact Ht|]. split; [exact Hc|].
  split; [vm_compute; reflexivity|]. split; [vm_compute; reflexivity|]. split; [|vm_compute; reflexivity].
  revert Hin Ht Hc. generalize r. clear r.
  assert (F : forallb (fun r => negb (String.eqb (r_text r) "ADDI32(reg, reg)" && check_rule r) ||
    match instantiate r (mkEnv [11; 12] [20] [] 0) with
    | Some il => getreg (exec_seq il (state_of [(11, 4294967295); (12, 3)])) 20 =? 2
    | None => false end) rv_rules = true) by (vm_compute; reflexivity).
  intros r Hin Ht Hc. rewrite forallb_forall in F. specialize (F r Hin).
  rewrite Ht, Hc in F. cbn in F. exact F.
Qed.
