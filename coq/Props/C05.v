(* Props/C05.v — property C05 (PARTIAL: rule level, RISC-V RV32IM only): machine code preserves IR behaviour.
   Only statements, [exact] of lemmas from Proofs/, and Print Assumptions.
   rv_rules (Gen/Tab_rv_patterns.v) is regenerated on every run by executing every @isa.pattern function of
   ppci/arch/riscv/instructions.py on a dummy tree with a recording context; exec is Spec/RV32Exec.v; the IR side
   is Spec/IRSem.eval_binop / wrap_bits at the riscv configuration (32-bit pointers).
   Representation: a register r represents the IR value v of a type with [bits] bits iff r = v (mod 2^bits)
   ([rep]); [val bits sg r] is the IR value a register content stands for.
   rule_correct r (Proofs/C05_rules.v): for every environment (operand registers, distinct non-zero fresh
   temporaries disjoint from the operands, constants in the range of their type that satisfy the rule's
   condition) and every machine state: if the IR operator of the tree is defined (no UB) with value v on the
   operand values, then executing the instantiated instruction list leaves in the result register a
   representation of v, changes no register other than the rule's fresh temporaries, and leaves memory alone.
   NOT covered here: everything outside [tree_sem] (casts, neg/inv, loads/stores, moves, jumps, calls, labels,
   frame-relative addressing, floats), register allocation, frame layout, other targets. *)
From PV Require Import Lib.Py Spec.IRSyntax Spec.IRSem Spec.RV32Decode Spec.RV32Exec Model.RvRules
  Gen.Tab_rv_patterns Gen.Tab_rv_bad Proofs.C05_arith Proofs.C05_rules Proofs.C05_table.
From Coq Require Import String.
Open Scope Z_scope.
Open Scope list_scope.

(* per-opcode lemma, register-register forms: add sub mul and or xor sll at 8/16/32 bits, srl/sra div/divu
   rem/remu at 32 bits implement the IR operator on represented values (UB cases excluded by ODone) *)
Theorem c05_rv_alu_rr : forall t o bits sg ro a b v,
  int_shape rv_cfg t = Some (bits, sg) -> (bits = 8 \/ bits = 16 \/ bits = 32) ->
  rr_op o bits sg = Some ro -> 0 <= a < 2 ^ 32 -> 0 <= b < 2 ^ 32 ->
  eval_binop rv_cfg t o (val bits sg a) (val bits sg b) = ODone v ->
  rep bits (alu_r ro a b) v.
Proof. exact alu_rr_sound. Qed.
Print Assumptions c05_rv_alu_rr.

(* immediate forms addi andi ori xori (12-bit signed immediate) and slli srli srai *)
Theorem c05_rv_alu_ri : forall t o bits sg io a c v,
  int_shape rv_cfg t = Some (bits, sg) -> (bits = 8 \/ bits = 16 \/ bits = 32) ->
  ri_op o bits sg = Some io -> 0 <= a < 2 ^ 32 ->
  (is_shift o = false -> -2048 <= c < 2048) -> (is_shift o = true -> c < 32) ->
  eval_binop rv_cfg t o (val bits sg a) c = ODone v ->
  rep bits (alu_i io a (if is_shift_i io then c else imm12 c)) v.
Proof. exact alu_ri_sound. Qed.
Print Assumptions c05_rv_alu_ri.

(* large-immediate materialisation: Li(rd, v) = addi, or lui + addi with the 0x800 carry, loads exactly v *)
Theorem c05_rv_li_correct : forall rd v, rd <> 0 -> -2147483648 <= v < 4294967296 ->
  exists il, to_rv_all (li_expand rd v) = Some il /\
    forall s, getreg (exec_seq il s) rd = u32 v /\
              (forall x, x <> rd -> getreg (exec_seq il s) x = getreg s x) /\
              (forall a, loadbyte (exec_seq il s) a = loadbyte s a).
Proof. exact li_correct. Qed.
Print Assumptions c05_rv_li_correct.

(* every rule that passes the syntactic check is sound (any rule, in particular those of the table) *)
Theorem c05_rv_rule_sound : forall r, check_rule r = true -> rule_correct r.
Proof. exact check_rule_sound. Qed.
Print Assumptions c05_rv_rule_sound.

(* the exported counterexamples are real: the rule fails the check and the concrete execution disagrees *)
Theorem c05_rv_rule_refuted : forall w, In w rv_rules_bad ->
  witness_ok (rule_at (fst (fst w))) (snd (fst w)) (snd w) = true /\ check_rule (rule_at (fst (fst w))) = false.
Proof. exact rules_refuted. Qed.
Print Assumptions c05_rv_rule_refuted.

(* every rule in the scope of tree_sem is proved, refuted, or explicitly listed as undecided *)
Theorem c05_rv_rules_decided :
  forallb (fun n => let r := rule_at n in
                    negb (in_scope r) || check_rule r || existsb (fun w => Nat.eqb (fst (fst w)) n) rv_rules_bad ||
                    existsb (Nat.eqb n) rv_rules_undecided)
          (seq 0 (List.length rv_rules)) = true.
Proof. exact rules_decided. Qed.
Print Assumptions c05_rv_rules_decided.

(* hypotheses are inhabited: ADDI32(reg, reg) is in the table, passes the check; a concrete run of its body *)
Example c05_nonvacuous :
  exists r, In r rv_rules /\ r_text r = "ADDI32(reg, reg)"%string /\ check_rule r = true /\
    Nat.ltb 40 (List.length covered_rules) = true /\
    (let e := mkEnv [11; 12] [20] [] 0 in
     match instantiate r e with
     | Some il => getreg (exec_seq il (state_of [(11, 4294967295); (12, 3)])) 20 =? 2
     | None => false
     end) = true /\
    li_expand 5 (-5000) = [("lui"%string, [5; 1048575]); ("addi"%string, [5; 5; 3192])].
Proof.
  assert (E : existsb (fun r => String.eqb (r_text r) "ADDI32(reg, reg)" && check_rule r) rv_rules = true)
    by (vm_compute; reflexivity).
  apply existsb_exists in E. destruct E as (r & Hin & Hr). apply andb_prop in Hr. destruct Hr as [Ht Hc].
  apply String.eqb_eq in Ht. exists r. split; [exact Hin|]. split; [exact Ht|]. split; [exact Hc|].
  split; [vm_compute; reflexivity|]. split; [|vm_compute; reflexivity].
  revert Hin Ht Hc. generalize r. clear r.
  assert (F : forallb (fun r => negb (String.eqb (r_text r) "ADDI32(reg, reg)" && check_rule r) ||
    match instantiate r (mkEnv [11; 12] [20] [] 0) with
    | Some il => getreg (exec_seq il (state_of [(11, 4294967295); (12, 3)])) 20 =? 2
    | None => false end) rv_rules = true) by (vm_compute; reflexivity).
  intros r Hin Ht Hc. rewrite forallb_forall in F. specialize (F r Hin).
  rewrite Ht, Hc in F. cbn in F. exact F.
Qed.
