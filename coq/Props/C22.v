(* Props/C22.v — property C22 (PARTIAL): WebAssembly execution follows the specification.
   Proved core: integer numeric semantics (Spec/WasmNumSpec.v, WebAssembly core spec 4.3.2).
   Only statements, [exact] of a lemma from Proofs/, and Print Assumptions.
   Gen.wasm_runtime  = integer helpers of ppci/wasm/execution/runtime.py        (tie T, regenerated)
   Gen.irpy_rt       = IrPy.correct/idiv/irem/ishl/ishr as emitted by ir2py.py  (tie T, regenerated)
   Gen.wasm_irmap    = IR emitted by wasm2ppci.py for the 66 integer opcodes    (tie I, regenerated)
   Model.WasmIr      = semantics of that IR fragment on the python target        (tie H)
   Values are ppci's representation: signed ints in [-2^(N-1), 2^(N-1)) ([in_s]). *)
From PV Require Import Lib.Py Spec.BitsSpec Spec.WasmNumSpec Model.WasmIr Gen.wasm_runtime Gen.wasm_irmap.
From PV Require Import Proofs.C22_base Proofs.C22_helpers Proofs.C22_mapping Proofs.C22_table Proofs.C22_irread.
Open Scope Z_scope.

(* ---------------------------------------------------------------- runtime helpers (all operands) *)
Theorem c22_helper_i32_rotl : forall v c, i32_rotl v c = Ok (signed 32 (irotl 32 (unsigned 32 v) (unsigned 32 c))).
Proof. exact helper_i32_rotl. Qed.
Print Assumptions c22_helper_i32_rotl.
Theorem c22_helper_i32_rotr : forall v c, i32_rotr v c = Ok (signed 32 (irotr 32 (unsigned 32 v) (unsigned 32 c))).
Proof. exact helper_i32_rotr. Qed.
Print Assumptions c22_helper_i32_rotr.
Theorem c22_helper_i64_rotl : forall v c, i64_rotl v c = Ok (signed 64 (irotl 64 (unsigned 64 v) (unsigned 64 c))).
Proof. exact helper_i64_rotl. Qed.
Print Assumptions c22_helper_i64_rotl.
Theorem c22_helper_i64_rotr : forall v c, i64_rotr v c = Ok (signed 64 (irotr 64 (unsigned 64 v) (unsigned 64 c))).
Proof. exact helper_i64_rotr. Qed.
Print Assumptions c22_helper_i64_rotr.

(* the arithmetic irotl/irotr of the spec file are the bitwise rotations (sanity of the spec) *)
Theorem c22_spec_irotl_bits : forall N a b, 1 <= N -> 0 <= a < 2 ^ N -> is_rotl N a (b mod N) (irotl N a b).
Proof. exact irotl_is_rotl. Qed.
Print Assumptions c22_spec_irotl_bits.
Theorem c22_spec_irotr_bits : forall N a b, 1 <= N -> 0 <= a < 2 ^ N -> is_rotr N a (b mod N) (irotr N a b).
Proof. exact irotr_is_rotr. Qed.
Print Assumptions c22_spec_irotr_bits.

Theorem c22_helper_i32_clz : forall fuel v, (64 < fuel)%nat -> i32_clz fuel v = Ok (signed 32 (iclz 32 (unsigned 32 v))).
Proof. exact helper_i32_clz. Qed.
Print Assumptions c22_helper_i32_clz.
Theorem c22_helper_i64_clz : forall fuel v, (64 < fuel)%nat -> i64_clz fuel v = Ok (signed 64 (iclz 64 (unsigned 64 v))).
Proof. exact helper_i64_clz. Qed.
Print Assumptions c22_helper_i64_clz.
Theorem c22_helper_i32_ctz : forall fuel v, (64 < fuel)%nat -> i32_ctz fuel v = Ok (signed 32 (ictz 32 (unsigned 32 v))).
Proof. exact helper_i32_ctz. Qed.
Print Assumptions c22_helper_i32_ctz.
Theorem c22_helper_i64_ctz : forall fuel v, (64 < fuel)%nat -> i64_ctz fuel v = Ok (signed 64 (ictz 64 (unsigned 64 v))).
Proof. exact helper_i64_ctz. Qed.
Print Assumptions c22_helper_i64_ctz.
Theorem c22_helper_i32_popcnt : forall v, i32_popcnt v = Ok (signed 32 (ipopcnt 32 (unsigned 32 v))).
Proof. exact helper_i32_popcnt. Qed.
Print Assumptions c22_helper_i32_popcnt.
Theorem c22_helper_i64_popcnt : forall v, i64_popcnt v = Ok (signed 64 (ipopcnt 64 (unsigned 64 v))).
Proof. exact helper_i64_popcnt. Qed.
Print Assumptions c22_helper_i64_popcnt.

Theorem c22_helper_i32_extend8_s : forall x, in_s 32 x ->
  i32_extend8_s x = Ok (signed 32 (iextend_s 8 32 (unsigned 32 x))).
Proof. exact helper_i32_extend8_s. Qed.
Print Assumptions c22_helper_i32_extend8_s.
Theorem c22_helper_i32_extend16_s : forall x, in_s 32 x ->
  i32_extend16_s x = Ok (signed 32 (iextend_s 16 32 (unsigned 32 x))).
Proof. exact helper_i32_extend16_s. Qed.
Print Assumptions c22_helper_i32_extend16_s.
Theorem c22_helper_i64_extend8_s : forall x, in_s 64 x ->
  i64_extend8_s x = Ok (signed 64 (iextend_s 8 64 (unsigned 64 x))).
Proof. exact helper_i64_extend8_s. Qed.
Print Assumptions c22_helper_i64_extend8_s.
Theorem c22_helper_i64_extend16_s : forall x, in_s 64 x ->
  i64_extend16_s x = Ok (signed 64 (iextend_s 16 64 (unsigned 64 x))).
Proof. exact helper_i64_extend16_s. Qed.
Print Assumptions c22_helper_i64_extend16_s.
Theorem c22_helper_i64_extend32_s : forall x, in_s 64 x ->
  i64_extend32_s x = Ok (signed 64 (iextend_s 32 64 (unsigned 64 x))).
Proof. exact helper_i64_extend32_s. Qed.
Print Assumptions c22_helper_i64_extend32_s.

(* ---------------------------------------------------------------- opcode -> IR mapping *)
(* the exported table covers every integer numeric opcode *)
Theorem c22_mapping_covers_all_opcodes : forall o, valid_op o = true -> exists p, In (o, p) table.
Proof. exact table_covers. Qed.
Print Assumptions c22_mapping_covers_all_opcodes.

(* python target: whenever the spec does not trap, the emitted IR computes the spec value *)
Theorem c22_binop_mapping : forall fuel o p args r, (64 < fuel)%nat ->
  In (o, p) table -> args_ok o args ->
  wop_sem_signed o args = Some r -> py_run fuel p args = Ok r.
Proof. exact table_value. Qed.
Print Assumptions c22_binop_mapping.

(* divisor 0: the spec traps and the python target raises ZeroDivisionError (-> WasmTrapException) *)
Theorem c22_div_by_zero_traps : forall fuel w b p x, is_div b = true -> In (Bin w b, p) table ->
  in_s (bits w) x ->
  wop_sem_signed (Bin w b) [x; 0] = None /\ py_run fuel p [x; 0] = Internal ZeroDiv.
Proof. exact table_div_zero. Qed.
Print Assumptions c22_div_by_zero_traps.

(* the only traps of the integer spec: divisor 0, and MIN / -1 for div_s *)
Theorem c22_spec_trap_cases : forall o args, valid_op o = true -> args_ok o args ->
  wop_sem_signed o args = None ->
  exists w b x y, o = Bin w b /\ args = [x; y] /\ is_div b = true /\
                  (y = 0 \/ (b = DivS /\ x = - 2 ^ (bits w - 1) /\ y = -1)).
Proof. exact spec_trap_cases. Qed.
Print Assumptions c22_spec_trap_cases.

(* REFUTED (known finding): iN.div_s MIN -1 must trap; the emitted IR returns a value *)
Theorem c22_div_s_overflow_trap_refuted :
  exists o p args r, In (o, p) table /\ args_ok o args /\
                     wop_sem_signed o args = None /\ py_run 100 p args = Ok r.
Proof. exact div_s_overflow_not_trapped. Qed.
Print Assumptions c22_div_s_overflow_trap_refuted.

(* hypotheses are inhabited: i32.rotl 0x80000001 by 33 = 3 *)
Example c22_nonvacuous :
  args_ok (Bin W32 Rotl) [-2147483647; 33] /\
  wop_sem_signed (Bin W32 Rotl) [-2147483647; 33] = Some 3 /\
  py_run 100 (expected (Bin W32 Rotl)) [-2147483647; 33] = Ok 3.
Proof. split; [repeat constructor; unfold in_s; cbn; lia|]. split; vm_compute; reflexivity. Qed.

(* REFUTED for the target-independent IR reading (shifts defined only for 0 <= count < width): the count is
   not masked by wasm2ppci; the python target masks it in IrPy.ishl/ishr, so c22_binop_mapping still holds there *)
Theorem c22_shift_mask_in_ir_refuted :
  exists o p args r, In (o, p) table /\ args_ok o args /\
                     wop_sem_signed o args = Some r /\ ir_run 100 p args = None /\ py_run 100 p args = Ok r.
Proof. exact shift_count_unmasked_in_ir. Qed.
Print Assumptions c22_shift_mask_in_ir_refuted.

(* ---------------------------------------------------------------- target-independent IR reading (ir_run) *)
(* wherever the spec does not trap and shift counts lie in [0, N), the IR reading equals the spec value:
   the only gap between the IR reading and the spec is the unmasked shift count (theorem above) *)
Theorem c22_binop_mapping_ir : forall fuel o p args r, (64 < fuel)%nat ->
  In (o, p) table -> args_ok o args -> shift_defined o args ->
  wop_sem_signed o args = Some r -> ir_run fuel p args = Some r.
Proof. exact table_ir_value. Qed.
Print Assumptions c22_binop_mapping_ir.

(* every shift count outside [0, N) is undefined behaviour of the emitted IR *)
Theorem c22_shift_count_ir_undefined : forall fuel w b p x y, is_shift b = true -> In (Bin w b, p) table ->
  in_s (bits w) x -> in_s (bits w) y -> ~ (0 <= y < bits w) -> ir_run fuel p [x; y] = None.
Proof. exact table_ir_shift_undefined. Qed.
Print Assumptions c22_shift_count_ir_undefined.
