(* Props/C20.v — property C20: LEB128 encoding is the canonical specification encoding.
   Only statements, [exact] of a lemma from Proofs/, and Print Assumptions.
   All theorems are about Gen.leb128, regenerated from /repo/ppci/utils/leb128.py on every run;
   the specification (wf_leb, uleb_value, sleb_value, u_minimal, s_minimal, is_uleb, is_sleb) is
   Spec/Leb128Spec.v.  Every theorem holds for every integer v : Z (unbounded). *)
From PV Require Import Lib.Py Spec.Leb128Spec Gen.leb128 Proofs.C20_leb128.
Open Scope Z_scope.

(* the encoder output is the canonical (well-formed, value-correct, minimal) unsigned encoding,
   all its bytes are in 0..255 *)
Theorem c20_u_encode_spec : forall fuel v, 0 <= v ->
  (Z.to_nat (Z.log2 (Z.abs v) / 7) + 2 <= fuel)%nat ->
  exists l, unsigned_leb128_encode fuel v = Ok l /\ is_uleb v l /\ Forall (fun b => 0 <= b <= 255) l.
Proof. exact u_encode_spec_full. Qed.
Print Assumptions c20_u_encode_spec.

Theorem c20_s_encode_spec : forall fuel v,
  (Z.to_nat (Z.log2 (Z.abs v) / 7) + 2 <= fuel)%nat ->
  exists l, signed_leb128_encode fuel v = Ok l /\ is_sleb v l /\ Forall (fun b => 0 <= b <= 255) l.
Proof. exact s_encode_spec_full. Qed.
Print Assumptions c20_s_encode_spec.

(* decode (encode v ++ rest) = (v, rest): the decoder consumes exactly the encoding *)
Theorem c20_u_roundtrip : forall fuel fuel' v, 0 <= v ->
  (Z.to_nat (Z.log2 (Z.abs v) / 7) + 2 <= fuel)%nat -> (fuel <= fuel')%nat ->
  exists l, unsigned_leb128_encode fuel v = Ok l /\
            forall rest, unsigned_leb128_decode fuel' (l ++ rest) = Ok (v, rest).
Proof. exact u_roundtrip. Qed.
Print Assumptions c20_u_roundtrip.

Theorem c20_s_roundtrip : forall fuel fuel' v,
  (Z.to_nat (Z.log2 (Z.abs v) / 7) + 2 <= fuel)%nat -> (fuel <= fuel')%nat ->
  exists l, signed_leb128_encode fuel v = Ok l /\
            forall rest, signed_leb128_decode fuel' (l ++ rest) = Ok (v, rest).
Proof. exact s_roundtrip. Qed.
Print Assumptions c20_s_roundtrip.

(* the decoders compute the specification value of EVERY well-formed encoding (minimal or not)
   and stop after its last byte *)
Theorem c20_u_decode_spec : forall fuel l rest, wf_leb l -> (length l <= fuel)%nat ->
  unsigned_leb128_decode fuel (l ++ rest) = Ok (uleb_value l, rest).
Proof. exact u_decode_ok. Qed.
Print Assumptions c20_u_decode_spec.

Theorem c20_s_decode_spec : forall fuel l rest, wf_leb l -> (length l <= fuel)%nat ->
  signed_leb128_decode fuel (l ++ rest) = Ok (sleb_value l, rest).
Proof. exact s_decode_ok. Qed.
Print Assumptions c20_s_decode_spec.

(* uniqueness: any canonical encoding of v IS the encoder output *)
Theorem c20_minimal_unique : forall fuel v l,
  (Z.to_nat (Z.log2 (Z.abs v) / 7) + 2 <= fuel)%nat ->
  (is_uleb v l -> unsigned_leb128_encode fuel v = Ok l) /\
  (is_sleb v l -> signed_leb128_encode fuel v = Ok l).
Proof. exact minimal_unique. Qed.
Print Assumptions c20_minimal_unique.

(* ... in particular a well-formed minimal byte string that the decoder maps to v *)
Theorem c20_minimal_unique_decoded : forall fuel fuel' v l rest x,
  wf_leb l -> (length l <= fuel')%nat ->
  (Z.to_nat (Z.log2 (Z.abs v) / 7) + 2 <= fuel)%nat ->
  (u_minimal l -> unsigned_leb128_decode fuel' (l ++ rest) = Ok (v, x) ->
     unsigned_leb128_encode fuel v = Ok l) /\
  (s_minimal l -> signed_leb128_decode fuel' (l ++ rest) = Ok (v, x) ->
     signed_leb128_encode fuel v = Ok l).
Proof. exact minimal_unique_decoded. Qed.
Print Assumptions c20_minimal_unique_decoded.

Theorem c20_u_rejects_negative : forall fuel v, v < 0 ->
  exists code, unsigned_leb128_encode fuel v = Diag code.
Proof. exact u_rejects_negative_ex. Qed.
Print Assumptions c20_u_rejects_negative.

(* iterators over bytes WITHOUT a terminating byte (every byte has the continuation bit, including the empty
   iterator): next(data) runs off the end, both decoders raise StopIteration *)
Theorem c20_decode_truncated : forall fuel l, Forall (fun b => 128 <= b < 256) l -> (length l < fuel)%nat ->
  unsigned_leb128_decode fuel l = Internal StopIteration /\
  signed_leb128_decode fuel l = Internal StopIteration.
Proof. exact decode_truncated. Qed.
Print Assumptions c20_decode_truncated.

(* total characterisation of both decoders on EVERY iterator over bytes: either the data starts with a
   well-formed encoding l, the decoders return its specification value and leave exactly the rest, or every
   byte is a continuation byte and both raise StopIteration *)
Theorem c20_decode_total : forall fuel data, Forall (fun b => 0 <= b < 256) data -> (length data < fuel)%nat ->
  (exists l rest, data = l ++ rest /\ wf_leb l /\
     unsigned_leb128_decode fuel data = Ok (uleb_value l, rest) /\
     signed_leb128_decode fuel data = Ok (sleb_value l, rest)) \/
  (Forall (fun b => 128 <= b < 256) data /\
     unsigned_leb128_decode fuel data = Internal StopIteration /\
     signed_leb128_decode fuel data = Internal StopIteration).
Proof. exact decode_total. Qed.
Print Assumptions c20_decode_total.

(* converse of the decode theorems: whenever a decoder returns (v, rest) on a byte iterator, it has consumed
   exactly one well-formed encoding l (data = l ++ rest) and v is its specification value *)
Theorem c20_decode_ok_inv : forall fuel data v rest,
  Forall (fun b => 0 <= b < 256) data -> (length data < fuel)%nat ->
  (unsigned_leb128_decode fuel data = Ok (v, rest) ->
     exists l, data = l ++ rest /\ wf_leb l /\ v = uleb_value l) /\
  (signed_leb128_decode fuel data = Ok (v, rest) ->
     exists l, data = l ++ rest /\ wf_leb l /\ v = sleb_value l).
Proof. exact decode_ok_inv. Qed.
Print Assumptions c20_decode_ok_inv.

(* non-vacuity: the fuel hypothesis is met (12 iterations suffice for |v| <= 2^70), the encoders
   compute the textbook byte strings, the specification predicates are inhabited *)
Example c20_nonvacuous :
  (Z.to_nat (Z.log2 (Z.abs (2 ^ 70)) / 7) + 2 <= 12)%nat /\
  (Z.to_nat (Z.log2 (Z.abs (- 2 ^ 70 - 1)) / 7) + 2 <= 12)%nat /\
  unsigned_leb128_encode 12 624485 = Ok [0xE5; 0x8E; 0x26] /\
  signed_leb128_encode 12 (-123456) = Ok [0xC0; 0xBB; 0x78] /\
  signed_leb128_encode 12 (-1337) = Ok [0xC7; 0x75] /\
  signed_leb128_encode 12 64 = Ok [0xC0; 0x00] /\ signed_leb128_encode 12 (-65) = Ok [0xBF; 0x7F] /\
  signed_leb128_decode 12 [0x9B; 0xF1; 0x59; 7] = Ok (-624485, [7]) /\
  unsigned_leb128_decode 12 [0xE5; 0x8E; 0x26; 7] = Ok (624485, [7]) /\
  unsigned_leb128_decode 12 [0xE5; 0x8E] = Internal StopIteration /\
  signed_leb128_decode 12 [0xE5; 0x8E] = Internal StopIteration /\
  signed_leb128_decode 12 [] = Internal StopIteration /\
  length (match signed_leb128_encode 12 (- 2 ^ 70 - 1) with Ok l => l | _ => [] end) = 11%nat.
Proof. vm_compute. repeat split; lia. Qed.
