(* Props/C32_thorough.v — property C32, thorough tier only (about 5 minutes of vm_compute):
   bounded completeness on the larger family of all sets of exactly 4 candidate productions
   (111930 grammars; with c32_complete_bounded this covers every grammar with 1..4 productions,
   rhs length <= 2, over 2 terminals + 2 nonterminals). *)
From PV Require Import Lib.Py Spec.CfgGrammarSpec Model.LrValidator Model.LrBuilder
                       Proofs.C32_complete Proofs.C32_complete_big.
Open Scope Z_scope.

Theorem c32_complete_bounded4 : forall g, In g family4 ->
  forall T, generate_tables_sr true BFUEL g = Ok (T, false) ->
  forall w, (length w <= 4)%nat -> sentence g w ->
  exists v, parse_model true BFUEL g T w = Ok v /\ parse_of g w v.
Proof. exact c32_complete_bounded4_lemma. Qed.
Print Assumptions c32_complete_bounded4.
