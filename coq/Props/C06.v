(* Props/C06.v — property C06: register allocation never clobbers a live value.
   Only statements, [exact] of a lemma from Proofs/, and Print Assumptions.
   The theorems are about the validator Model.RegAllocCheck (translation validation): they hold for
   every program, colouring, alias relation, instruction semantics and machine state; the check
   tools/props/c06.py evaluates the validator on every frame the real allocator produces. *)
From Coq Require Import ZArith List Bool.
From PV Require Import Spec.RegAllocSpec Spec.SpillSpec Model.RegAllocCheck Model.SpillCheck
  Model.RegAllocHelpers Proofs.C06_helpers Proofs.C06_regalloc Proofs.C06_compact Proofs.C06_spill Proofs.C06_spillprog.
Import ListNotations.
Open Scope Z_scope.

(* any post-fixpoint of the dataflow equations over-approximates true liveness: a register that is
   not in the supplied set at a point is never read before being written on any path from there *)
Theorem c06_liveness_fixpoint_sound : forall prog live,
  check_live prog live = true ->
  forall r pc, (live_in prog r pc -> In r (live_in_of prog live pc)) /\
               (live_out prog r pc -> In r (live_out_of live pc)).
Proof. exact liveness_fixpoint_sound. Qed.
Print Assumptions c06_liveness_fixpoint_sound.

(* two distinct registers that are live at the same reachable point never get aliasing physical
   registers; they can only share the very same register, ... *)
Theorem c06_no_shared_live : forall prog live color alias physl removed,
  check_alloc prog live color alias physl removed = true ->
  forall pc, reachable prog pc ->
  forall r1 r2, live_in prog r1 pc -> live_in prog r2 pc -> r1 <> r2 ->
  isphys physl r1 && isphys physl r2 = false ->      (* not two physical registers of the input *)
  conflict alias (color r1) (color r2) = true -> color r1 = color r2.
Proof. exact no_shared_live. Qed.
Print Assumptions c06_no_shared_live.

(* ... and then, in every execution, they hold the same value (they are copies of each other) *)
Theorem c06_shared_are_copies : forall color L vrf prf u v,
  agree color L vrf prf -> In u L -> In v L -> color u = color v -> vrf u = vrf v.
Proof. exact shared_are_copies. Qed.
Print Assumptions c06_shared_are_copies.

(* main soundness theorem: for every instruction semantics S, every effect [junk] a write has on
   aliasing registers, every pair of initial states that agree on the registers live at entry, the
   coloured program (deleted copies = no-ops) runs in lock step with the virtual-register program
   (in which only the physical registers alias), all live registers keep agreeing, and every
   instruction reads exactly the values the virtual program reads *)
Theorem c06_check_alloc_sound : forall prog live color alias physl removed,
  check_alloc prog live color alias physl removed = true ->
  forall (S : semantics) (junk : nat -> junk_t),
  forall vrf prf, agree color (live_in_of prog live 0) vrf prf ->
  forall n,
    let s := run (src_alias (isphys physl) alias) junk S (map Some prog) n (0%nat, vrf) in
    let t := run alias junk S (target color prog removed) n (0%nat, prf) in
    fst s = fst t /\
    agree color (live_in_of prog live (fst s)) (snd s) (snd t) /\
    (nth (fst s) removed false = false ->
     reads (target color prog removed) t = reads (map Some prog) s).
Proof. exact check_alloc_sound. Qed.
Print Assumptions c06_check_alloc_sound.

(* the hypothesis on the initial states is satisfiable for every virtual register file *)
Theorem c06_initial_agreement_exists : forall prog live color alias physl removed,
  check_alloc prog live color alias physl removed = true ->
  forall vrf, agree color (live_in_of prog live 0) vrf
                    (init_phys color (live_in_of prog live 0) vrf).
Proof. exact init_agree. Qed.
Print Assumptions c06_initial_agreement_exists.

Theorem c06_precoloured_kept : forall color pre, check_precoloured color pre = true ->
  forall v p, In (v, p) pre -> color v = p.
Proof. exact precoloured_kept. Qed.
Print Assumptions c06_precoloured_kept.

(* what the per-frame entry point run by the check establishes: the liveness table it computes is
   validated like a supplied certificate, and the rewritten program is literally the renamed
   program without the deleted copies *)
Theorem c06_check_frame_unfold : forall prog fuel ctbl atbl physl extra ridx pre after,
  check_frame prog fuel ctbl atbl physl extra ridx pre after = true ->
  let live := compute_live prog fuel in
  let removed := removed_flags ridx (length prog) in
  check_alloc prog live (color_of ctbl) (alias_of atbl) physl removed = true /\
  check_entry_live prog live (physl ++ extra) = true /\
  check_precoloured (color_of ctbl) pre = true /\
  compact removed (target (color_of ctbl) prog removed) = after.
Proof. exact check_frame_unfold. Qed.
Print Assumptions c06_check_frame_unfold.

(* entry check: a register outside [allowed] is never read before being written on any path from the
   function entry (so spill code that reads its temporary before writing it is rejected) *)
Theorem c06_entry_live_sound : forall prog live allowed,
  check_live prog live = true -> check_entry_live prog live allowed = true ->
  forall r, live_in prog r 0%nat -> In r allowed.
Proof. exact entry_live_sound. Qed.
Print Assumptions c06_entry_live_sound.

(* deleting the no-op entries: the rewritten frame [after], run under the same semantics re-indexed
   to its own numbering, performs exactly the steps the coloured program performs at its
   non-deleted entries ([norm] renumbers the program counter; m <= n because deleted entries take
   no step) *)
Theorem c06_compact_sound : forall prog color removed after,
  length removed = length prog ->
  compact removed (target color prog removed) = after ->
  forall al junk S n st, exists m, (m <= n)%nat /\
    let tp := target color prog removed in
    norm tp (run al junk S tp n st)
    = run al (reindex_junk junk tp) (reindex_sem S tp) (map Some after) m (norm tp st).
Proof. exact compact_sound. Qed.
Print Assumptions c06_compact_sound.

(* PARTIAL (spilling): local correctness of rewrite_program for ONE rewritten instruction, for every
   instruction semantics g and every state: with t spilled to [slot] and the fresh register t2,
   "load t2 <- slot (if t is read); i[t := t2]; store slot <- t2 (if t is written)" reads exactly
   the values i reads and re-establishes the relation "slot holds t, all other old registers
   unchanged".  Not proved: stitching the blocks into a whole-program simulation, and that the
   target's generated load/store instructions behave as a load/store of that slot; the block
   structure itself is checked per frame in Python (check_spill_py). *)
Theorem c06_spill_block_sound_partial :
  forall (isph : reg -> bool) (al0 : reg -> reg -> bool) (J : junk_t)
         (g : list value -> list value) (t t2 : reg) (slot : Z) (i : instr),
  isph t = false -> isph t2 = false -> t2 <> t ->
  ~ In t2 (i_uses i) /\ ~ In t2 (i_defs i) /\ ~ In t2 (i_clob i) ->
  ~ In t (i_clob i) ->
  forall rf rf' mem, spill_rel t t2 slot rf rf' mem ->
  let '(rf1, rf2, mem2) := spilled_block (src_alias isph al0) J g t t2 slot i rf' mem in
  map rf1 (i_uses (rename (sigma t t2) i)) = map rf (i_uses i) /\
  spill_rel t t2 slot (exec (src_alias isph al0) J g i rf) rf2 mem2.
Proof. exact spill_block_sound. Qed.
Print Assumptions c06_spill_block_sound_partial.

(* WHOLE-PROGRAM spill validation (one rewrite_program round).  xp = rewritten program (inserted
   instructions marked, the slot loads/stores among them abstract XLoad/XStore), P = program before the
   round, facts = certificate.  If check_spill accepts then, for every instruction semantics, alias
   effect and related initial states, xp simulates P: after n steps of xp there are m <= n steps of P
   (inserted instructions take no step of P) such that P is at the corresponding point, every register
   that is neither spilled nor fresh is equal, every certified fact holds (in particular: the slot of a
   live spilled register holds its value, or the fresh temporary does while a store is pending), and at
   every original instruction xp reads exactly the values P reads.  Inserted spill code may overwrite
   physical scratch registers (AVR: Z for the slot address): these and their aliases are tracked as
   [dirty] (certificate, checked) and excluded from the equality until both programs rewrite them; an
   original instruction must not read a dirty register.  Outside the model: that the target's
   generated load/store instructions implement XLoad/XStore of that slot (and their address operands). *)
Theorem c06_check_spill_sound : forall physl special al0 xp marks P facts dirty,
  check_spill physl special al0 xp marks P facts dirty = true ->
  forall (S : semantics) (junk : nat -> junk_t) rf' mem rf,
  spill_sim (kclean special (dirty_at dirty 0)) (facts_at facts 0) rf' mem rf ->
  forall n, exists m, (m <= n)%nat /\
    let al := src_alias (isphys physl) al0 in
    let xs := xrun al junk S xp n (0%nat, rf', mem) in
    let ps := run al (reindex_junkb junk marks) (reindex_semb S marks) (map Some P) m (0%nat, rf) in
    fst ps = cntb marks (fst (fst xs)) /\
    spill_sim (kclean special (dirty_at dirty (fst (fst xs)))) (facts_at facts (fst (fst xs)))
              (snd (fst xs)) (snd xs) (snd ps) /\
    (forall i', nth_error xp (fst (fst xs)) = Some (XI i') ->
                nth (fst (fst xs)) marks false = false ->
                reads (map Some P) ps = Some (map (snd (fst xs)) (i_uses i'))).
Proof. exact check_spill_sound. Qed.
Print Assumptions c06_check_spill_sound.

(* slots of distinct spilled nodes are pairwise disjoint byte ranges of positive size *)
Theorem c06_slots_disjoint_sound : forall l, slots_disjoint l = true -> ForallOrdPairs slot_apart l.
Proof. exact slots_disjoint_sound. Qed.
Print Assumptions c06_slots_disjoint_sound.

(* hand models (tie H) of the allocator's helper algorithms, compared with the real algorithms' results
   per frame by the check.  FlowGraph.calculate_liveness: whenever the in-place iteration terminates,
   the sets satisfy the dataflow equations at every node (as sets) *)
Theorem c06_liveness_model_fixpoint : forall nodes ks fuel st st',
  liveness_iter nodes ks fuel st = Some st' ->
  forall k, In k ks ->
  forall x,
    (In x (fst (st' k)) <-> In x (n_gen (nodes k)) \/ (In x (snd (st' k)) /\ ~ In x (n_kill (nodes k))))
    /\ (In x (snd (st' k)) <-> exists s, In s (n_succ (nodes k)) /\ In x (fst (st' s))).
Proof. exact liveness_model_fixpoint. Qed.
Print Assumptions c06_liveness_model_fixpoint.

(* InterferenceGraph.calculate_interference: the graph contains every pair the validator requires
   (a register written by an instruction vs. a different register live across it) *)
Theorem c06_interference_complete : forall prog live pc i d v,
  nth_error prog pc = Some i ->
  In d (i_defs i ++ i_clob i) -> In v (live_out_of live pc) -> v <> d ->
  has_edge (interference_model prog live) d v = true.
Proof. exact interference_complete. Qed.
Print Assumptions c06_interference_complete.

(* non-vacuity of the spill checker: t=1000 spilled to slot 0; "1001 <- load; use 1001; def 1002; store" *)
Example c06_spill_nonvacuous :
  check_spill [5; 6; 7] [1000; 1001; 1002] (alias_of [(6, [7]); (7, [6])])
    [XI (mkInstr [5] [6] [] false []); XLoad 1001 0; XI (mkInstr [1001; 5] [1002] [] false []);
     XStore 0 1002; XI (mkInstr [] [6] [] false []); XI (mkInstr [7] [] [] false [0%nat])]
    [true; true; false; true; false; false]
    [mkInstr [1000; 5] [1000] [] false []; mkInstr [] [6] [] false []; mkInstr [7] [] [] false [0%nat]]
    [[(LSlot 0, 1000)]; [(LSlot 0, 1000)]; [(LReg 1001, 1000); (LSlot 0, 1000)]; [(LReg 1002, 1000)];
     [(LSlot 0, 1000)]; [(LSlot 0, 1000)]]
    [[7]; [6; 7]; [6; 7]; [6; 7]; [6; 7]; [7]] = false       (* 7 aliases the scratch register 6 and is read dirty *)
  /\ check_spill [5; 6; 7] [1000; 1001; 1002] (alias_of [(6, [7]); (7, [6])])
    [XI (mkInstr [5] [6] [] false []); XLoad 1001 0; XI (mkInstr [1001; 5] [1002] [] false []);
     XStore 0 1002; XI (mkInstr [] [6] [] false []); XI (mkInstr [6] [] [] false [0%nat])]
    [true; true; false; true; false; false]
    [mkInstr [1000; 5] [1000] [] false []; mkInstr [] [6] [] false []; mkInstr [6] [] [] false [0%nat]]
    [[(LSlot 0, 1000)]; [(LSlot 0, 1000)]; [(LReg 1001, 1000); (LSlot 0, 1000)]; [(LReg 1002, 1000)];
     [(LSlot 0, 1000)]; [(LSlot 0, 1000)]]
    [[7]; [6; 7]; [6; 7]; [6; 7]; [6; 7]; [7]] = true.
Proof. split; vm_compute; reflexivity. Qed.

(* non-vacuity: a frame with a coalesced copy, an aliasing pair (0 ~ 1) and a loop is accepted;
   the same frame with the loop-carried register put on the aliasing register is rejected *)
Definition ex_prog : list instr :=
  [ mkInstr [] [2] [] false [];            (* 0: def precoloured 2 *)
    mkInstr [2] [1000] [] true [];         (* 1: v1000 <- r2   (coalesced, deleted) *)
    mkInstr [] [1001] [] false [];         (* 2: v1001 <- const *)
    mkInstr [1000; 1001] [1001] [0] false [];   (* 3: v1001 <- f(v1000, v1001), clobbers r0 *)
    mkInstr [1001] [] [] false [3%nat; 5%nat];  (* 4: branch on v1001: loop or exit *)
    mkInstr [1001] [3] [] true [] ].       (* 5: r3 <- v1001 *)
Definition ex_live : list (list reg) := [[2]; [1000]; [1000; 1001]; [1000; 1001]; [1000; 1001]; []].
Definition ex_alias := alias_of [(0, [1]); (1, [0])].
Example c06_nonvacuous :
  check_frame ex_prog 10 [(1000, 2); (1001, 3)] [(0, [1]); (1, [0])] [0; 2; 3] []
              [1%nat] [(2, 2); (3, 3); (0, 0)]
              [ mkInstr [] [2] [] false []; mkInstr [] [3] [] false [];
                mkInstr [2; 3] [3] [0] false []; mkInstr [3] [] [] false [2%nat; 4%nat];
                mkInstr [3] [3] [] true [] ] = true
  /\ check_alloc ex_prog ex_live (color_of [(1000, 2); (1001, 1)]) ex_alias [0; 2; 3]
                 [false; true; false; false; false; false] = false.
Proof. split; vm_compute; reflexivity. Qed.
