(* Props/C22_mem.v — property C22, linear memory of the python target.
   Model.WasmMem is a HAND model (tie H) of IrPy.get_memory/read_mem/write_mem/load_<ty>/store_<ty>
   (ir2py.py), PythonMemoryInstance.size/grow/write (_python_instance.py) and of the address
   computation and narrow load/store lowering of wasm2ppci.py; it is cross-checked on every run
   against the real runtime object and real modules (tools/props/c22_mem.py).
   Spec.WasmMemSpec: WebAssembly core spec 4.4.7 / 4.5.3.9 / 4.5.4.
   [wf m]: mem0 lies inside the heap and the heap holds bytes; the wasm memory is the heap from mem0 up.
   Addresses are ppci's signed i32 operands; the theorems need 0 <= s (addresses below 2^31):
   the other half is the refuted row.  Float loads/stores (struct 'f'/'d') are NOT modelled. *)
From PV Require Import Lib.Py Spec.BitsSpec Spec.WasmNumSpec Spec.WasmMemSpec Model.WasmMem.
From PV Require Import Proofs.C22_base Proofs.C22_mem Proofs.C22_mem_fixed Proofs.C22_grow_fixed.
Open Scope Z_scope.

(* iN.loadM_sx, M < N: little-endian, sign/zero extension, result in ppci's signed representation *)
Theorem c22_load_exact_narrow : forall m size N s off sx r, wf m -> (1 <= size)%nat ->
  8 * Z.of_nat size <= N -> 0 <= s -> 0 <= off -> 8 * Z.of_nat size <> N ->
  mem_load (wasm_mem m) size sx N s off = Some r -> wasm_load m size sx N s off = Ok (signed N r).
Proof. exact load_narrow_c. Qed.
Print Assumptions c22_load_exact_narrow.

(* iN.load (M = N): ppci reads with the signed struct format *)
Theorem c22_load_exact_full : forall m size N s off sx r, wf m -> (1 <= size)%nat ->
  8 * Z.of_nat size <= N -> 0 <= s -> 0 <= off -> 8 * Z.of_nat size = N ->
  mem_load (wasm_mem m) size sx N s off = Some r -> wasm_load m size true N s off = Ok (signed N r).
Proof. exact load_full_c. Qed.
Print Assumptions c22_load_exact_full.

(* out-of-bounds loads always raise (AssertionError of IrPy.read_mem: execution aborts) *)
Theorem c22_load_out_of_bounds_raises : forall m size N s off sgn sx, wf m -> (1 <= size)%nat ->
  8 * Z.of_nat size <= N -> 0 <= s -> 0 <= off ->
  mem_load (wasm_mem m) size sx N s off = None -> wasm_load m size sgn N s off = Internal AssertionError.
Proof. exact load_oob_c. Qed.
Print Assumptions c22_load_out_of_bounds_raises.

(* iN.store / iN.storeM: truncation to M bits, little-endian, in place; nothing below mem0 changes *)
Theorem c22_store_exact : forall m size N s off v W', wf m -> (1 <= size)%nat -> 8 * Z.of_nat size <= N ->
  0 <= s -> 0 <= off -> in_s N v ->
  mem_store (wasm_mem m) size s off (unsigned N v) = Some W' ->
  exists m', wasm_store m size N s off v = Ok m' /\ store_post m m' W'.
Proof. exact store_exact. Qed.
Print Assumptions c22_store_exact.

Theorem c22_store_out_of_bounds_raises : forall m size N s off v, wf m -> (1 <= size)%nat ->
  8 * Z.of_nat size <= N -> 0 <= s -> 0 <= off -> in_s N v ->
  mem_store (wasm_mem m) size s off (unsigned N v) = None ->
  wasm_store m size N s off v = Internal AssertionError.
Proof. exact store_oob. Qed.
Print Assumptions c22_store_out_of_bounds_raises.

(* active data segments *)
Theorem c22_data_segment_init : forall m off data W', wf m -> bytes_ok data ->
  mem_init (wasm_mem m) off data = Some W' ->
  exists m', mem_write m off data = Ok m' /\ store_post m m' W'.
Proof. exact data_init_exact. Qed.
Print Assumptions c22_data_segment_init.

Theorem c22_data_segment_out_of_bounds_raises : forall m off data, wf m -> 0 <= off ->
  mem_init (wasm_mem m) off data = None -> mem_write m off data = Internal AssertionError.
Proof. exact data_init_oob. Qed.
Print Assumptions c22_data_segment_out_of_bounds_raises.

(* memory.size / memory.grow for operands below 2^31: result, new size, zero-filled pages, old bytes kept *)
Theorem c22_memory_size : forall m pages, wf m -> paged m pages -> mem_size m = pages.
Proof. exact mem_size_paged. Qed.
Print Assumptions c22_memory_size.

Theorem c22_memory_grow_spec : forall m pages n, wf m -> paged m pages -> 0 <= n -> in_s 32 n ->
  exists m', mem_grow_py m n = Ok (fst (mem_grow pages (Some (maxp m)) n), m') /\
    paged m' (snd (mem_grow pages (Some (maxp m)) n)) /\
    wasm_mem m' = wasm_mem m ++ repeat 0 (Z.to_nat ((snd (mem_grow pages (Some (maxp m)) n) - pages) * PAGE)) /\
    mem0 m' = mem0 m /\ maxp m' = maxp m /\ wf m'.
Proof. exact grow_spec. Qed.
Print Assumptions c22_memory_grow_spec.

(* REFUTED (known finding): an address >= 2^31 (negative as ppci passes it) is not trapped *)
Theorem c22_load_high_address_trap_refuted :
  exists m s, wf m /\ in_s 32 s /\ mem_load (wasm_mem m) 4 false 32 (unsigned 32 s) 0 = None /\
              wasm_load m 4 true 32 s 0 = Ok 151587081.
Proof. exact load_high_address_not_trapped. Qed.
Print Assumptions c22_load_high_address_trap_refuted.

(* REFUTED (known finding): memory.grow with an operand >= 2^31 must return -1; the instance raises ValueError *)
Theorem c22_memory_grow_high_operand_refuted :
  exists m n, in_s 32 n /\ fst (mem_grow (mem_size m) (Some (maxp m)) n) = -1 /\
              mem_grow_py m n = Internal ValueErrorI.
Proof. exact grow_high_operand_raises. Qed.
Print Assumptions c22_memory_grow_high_operand_refuted.

(* ---- the repaired lowering of fixes/C22-address-unsigned.diff (address cast to u32 first; wasm_load_u / wasm_store_u):
   exact for EVERY i32 address, every out-of-bounds access raises.  The check reads the IR of a compiled load to see
   which lowering the current source has and runs the correspondence against that one. *)
Theorem c22_load_exact_narrow_fixed : forall m size N s off sx r, wf m -> (1 <= size)%nat ->
  8 * Z.of_nat size <= N -> 0 <= off -> 8 * Z.of_nat size <> N ->
  mem_load (wasm_mem m) size sx N (unsigned 32 s) off = Some r -> wasm_load_u m size sx N s off = Ok (signed N r).
Proof. exact load_narrow_u. Qed.
Print Assumptions c22_load_exact_narrow_fixed.
Theorem c22_load_exact_full_fixed : forall m size N s off sx r, wf m -> (1 <= size)%nat ->
  8 * Z.of_nat size <= N -> 0 <= off -> 8 * Z.of_nat size = N ->
  mem_load (wasm_mem m) size sx N (unsigned 32 s) off = Some r -> wasm_load_u m size true N s off = Ok (signed N r).
Proof. exact load_full_u. Qed.
Print Assumptions c22_load_exact_full_fixed.
Theorem c22_load_out_of_bounds_raises_fixed : forall m size N s off sgn sx, wf m -> (1 <= size)%nat ->
  8 * Z.of_nat size <= N -> 0 <= off ->
  mem_load (wasm_mem m) size sx N (unsigned 32 s) off = None -> wasm_load_u m size sgn N s off = Internal AssertionError.
Proof. exact load_oob_u. Qed.
Print Assumptions c22_load_out_of_bounds_raises_fixed.
Theorem c22_store_exact_fixed : forall m size N s off v W', wf m -> (1 <= size)%nat -> 8 * Z.of_nat size <= N ->
  0 <= off -> in_s N v ->
  mem_store (wasm_mem m) size (unsigned 32 s) off (unsigned N v) = Some W' ->
  exists m', wasm_store_u m size N s off v = Ok m' /\ store_post m m' W'.
Proof. exact store_exact_u. Qed.
Print Assumptions c22_store_exact_fixed.
Theorem c22_store_out_of_bounds_raises_fixed : forall m size N s off v, wf m -> (1 <= size)%nat ->
  8 * Z.of_nat size <= N -> 0 <= off -> in_s N v ->
  mem_store (wasm_mem m) size (unsigned 32 s) off (unsigned N v) = None ->
  wasm_store_u m size N s off v = Internal AssertionError.
Proof. exact store_oob_u. Qed.
Print Assumptions c22_store_out_of_bounds_raises_fixed.

(* ---- the repaired memory.grow instruction of fixes/C22-memory-grow-unsigned.diff (operand masked to 32 bits in
   ModuleInstance.memory_grow; [mem_grow_instr true]): equals the spec for EVERY i32 operand.  The check probes
   memory.grow(-1) on the real target and runs the correspondence against the live variant. *)
Theorem c22_memory_grow_spec_fixed : forall m pages n, wf m -> paged m pages -> maxp m <= 65536 -> in_s 32 n ->
  exists m', mem_grow_instr true m n = Ok (fst (mem_grow pages (Some (maxp m)) n), m') /\
    paged m' (snd (mem_grow pages (Some (maxp m)) n)) /\
    wasm_mem m' = wasm_mem m ++ repeat 0 (Z.to_nat ((snd (mem_grow pages (Some (maxp m)) n) - pages) * PAGE)) /\
    mem0 m' = mem0 m /\ maxp m' = maxp m /\ wf m'.
Proof. exact grow_spec_masked. Qed.
Print Assumptions c22_memory_grow_spec_fixed.

(* hypotheses are inhabited *)
Example c22_mem_nonvacuous :
  wf tiny /\ paged {| heap := repeat 0 (Z.to_nat 65540); stack := []; mem0 := HEAP_START + 4; maxp := 3 |} 1 /\
  mem_load (wasm_mem tiny) 2 true 32 1 1 = Some 1027 /\ wasm_load tiny 2 true 32 1 1 = Ok 1027.
Proof.
  split; [split; [vm_compute; intuition congruence|repeat constructor; lia]|].
  split; [split; [vm_compute; reflexivity|lia]|]. split; vm_compute; reflexivity.
Qed.
