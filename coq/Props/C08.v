(* Props/C08.v — property C08: instruction encodings agree with the architecture reference.
   Only statements, [exact] of lemmas from Proofs/, and Print Assumptions.
   Tables: coq/Gen/Tab_isa_<arch>.v, regenerated on every run from the real instruction classes of /repo by
   symbolic tracing of Instruction.encode() (tools/props/c08_trace.py).  Model: Model/Encode.v.
   (a) all ISAs: decodability/injectivity of the encoding (c08_decodable, c08_tables_<arch>).
   (b) agreement with an independent reference decoder: RISC-V RV32I/M base classes ONLY (Spec/RV32Decode.v),
       bounded operand domain [rv_domain]; no reference decoder exists for the other ISAs. *)
From PV Require Import Lib.Py Model.Encode Spec.RV32Decode Spec.RV32Encode Proofs.C08_encode Proofs.C08_tables Proofs.C08_rv.
From PV Require Import Proofs.C08_rvspec Proofs.C08_rvfull Spec.RVCDecode Proofs.C08_rvc.
From PV Require Import Gen.Tab_isa_riscv.
From PV Require Import Gen.Tab_isa_riscv_rvc.
From PV Require Import Gen.Tab_isa_arm.
From PV Require Import Gen.Tab_isa_thumb.
From PV Require Import Gen.Tab_isa_x86_64.
From PV Require Import Gen.Tab_isa_msp430.
From PV Require Import Gen.Tab_isa_avr.
From PV Require Import Gen.Tab_isa_m68k.
From PV Require Import Gen.Tab_isa_mips.
From PV Require Import Gen.Tab_isa_or1k.
From PV Require Import Gen.Tab_isa_xtensa.
From PV Require Import Gen.Tab_isa_microblaze.
From Coq Require Import String.
Open Scope Z_scope.

(* generic: a well-formed descriptor encodes every in-range operand tuple without error, the operands are
   recovered from the emitted bytes, and every fixed (opcode) field reads back its constant *)
Theorem c08_decodable : forall d ops, wf_desc d = true -> in_range d ops = true ->
  exists bytes, encode_instr d ops = Ok bytes /\ decode_fields d bytes = Ok ops /\ fixed_ok d bytes = true.
Proof. exact decodable_gen. Qed.
Print Assumptions c08_decodable.

(* hence the encoding of a well-formed class is injective on its operand range *)
Theorem c08_injective : forall d ops1 ops2, wf_desc d = true -> in_range d ops1 = true -> in_range d ops2 = true ->
  encode_instr d ops1 = encode_instr d ops2 -> ops1 = ops2.
Proof.
  intros d o1 o2 Hw H1 H2 E.
  destruct (decodable_gen d o1 Hw H1) as (b1 & E1 & D1 & _).
  destruct (decodable_gen d o2 Hw H2) as (b2 & E2 & D2 & _).
  rewrite E1, E2 in E. inversion E; subst. rewrite D1 in D2. now inversion D2.
Qed.
Print Assumptions c08_injective.

(* single-token classes: the emitted bytes are the token bytes of the sum of the field values *)
Theorem c08_single_token_sum : forall d ops t, wf_desc d = true -> in_range d ops = true -> d_tokens d = [t] ->
  encode_instr d ops = Ok (pack t (wsum d ops 0 (d_writes d))) /\ 0 <= wsum d ops 0 (d_writes d) < 2 ^ t_size t.
Proof. exact encode_single_sum. Qed.
Print Assumptions c08_single_token_sum.

(* riscv: every exported class variant is well-formed, the listed exceptions are not, and overlaps_riscv is exactly
   the set of instruction pairs (i < j) whose fixed bits do not tell them apart *)
Theorem c08_tables_riscv : table_facts table_riscv nonwf_riscv overlaps_riscv.
Proof. exact tables_riscv. Qed.
Print Assumptions c08_tables_riscv.

(* riscv_rvc: every exported class variant is well-formed, the listed exceptions are not, and overlaps_riscv_rvc is exactly
   the set of instruction pairs (i < j) whose fixed bits do not tell them apart *)
Theorem c08_tables_riscv_rvc : table_facts table_riscv_rvc nonwf_riscv_rvc overlaps_riscv_rvc.
Proof. exact tables_riscv_rvc. Qed.
Print Assumptions c08_tables_riscv_rvc.

(* arm: every exported class variant is well-formed, the listed exceptions are not, and overlaps_arm is exactly
   the set of instruction pairs (i < j) whose fixed bits do not tell them apart *)
Theorem c08_tables_arm : table_facts table_arm nonwf_arm overlaps_arm.
Proof. exact tables_arm. Qed.
Print Assumptions c08_tables_arm.

(* thumb: every exported class variant is well-formed, the listed exceptions are not, and overlaps_thumb is exactly
   the set of instruction pairs (i < j) whose fixed bits do not tell them apart *)
Theorem c08_tables_thumb : table_facts table_thumb nonwf_thumb overlaps_thumb.
Proof. exact tables_thumb. Qed.
Print Assumptions c08_tables_thumb.

(* x86_64: every exported class variant is well-formed, the listed exceptions are not, and overlaps_x86_64 is exactly
   the set of instruction pairs (i < j) whose fixed bits do not tell them apart *)
Theorem c08_tables_x86_64 : table_facts table_x86_64 nonwf_x86_64 overlaps_x86_64.
Proof. exact tables_x86_64. Qed.
Print Assumptions c08_tables_x86_64.

(* msp430: every exported class variant is well-formed, the listed exceptions are not, and overlaps_msp430 is exactly
   the set of instruction pairs (i < j) whose fixed bits do not tell them apart *)
Theorem c08_tables_msp430 : table_facts table_msp430 nonwf_msp430 overlaps_msp430.
Proof. exact tables_msp430. Qed.
Print Assumptions c08_tables_msp430.

(* avr: every exported class variant is well-formed, the listed exceptions are not, and overlaps_avr is exactly
   the set of instruction pairs (i < j) whose fixed bits do not tell them apart *)
Theorem c08_tables_avr : table_facts table_avr nonwf_avr overlaps_avr.
Proof. exact tables_avr. Qed.
Print Assumptions c08_tables_avr.

(* m68k: every exported class variant is well-formed, the listed exceptions are not, and overlaps_m68k is exactly
   the set of instruction pairs (i < j) whose fixed bits do not tell them apart *)
Theorem c08_tables_m68k : table_facts table_m68k nonwf_m68k overlaps_m68k.
Proof. exact tables_m68k. Qed.
Print Assumptions c08_tables_m68k.

(* mips: every exported class variant is well-formed, the listed exceptions are not, and overlaps_mips is exactly
   the set of instruction pairs (i < j) whose fixed bits do not tell them apart *)
Theorem c08_tables_mips : table_facts table_mips nonwf_mips overlaps_mips.
Proof. exact tables_mips. Qed.
Print Assumptions c08_tables_mips.

(* or1k: every exported class variant is well-formed, the listed exceptions are not, and overlaps_or1k is exactly
   the set of instruction pairs (i < j) whose fixed bits do not tell them apart *)
Theorem c08_tables_or1k : table_facts table_or1k nonwf_or1k overlaps_or1k.
Proof. exact tables_or1k. Qed.
Print Assumptions c08_tables_or1k.

(* xtensa: every exported class variant is well-formed, the listed exceptions are not, and overlaps_xtensa is exactly
   the set of instruction pairs (i < j) whose fixed bits do not tell them apart *)
Theorem c08_tables_xtensa : table_facts table_xtensa nonwf_xtensa overlaps_xtensa.
Proof. exact tables_xtensa. Qed.
Print Assumptions c08_tables_xtensa.

(* microblaze: every exported class variant is well-formed, the listed exceptions are not, and overlaps_microblaze is exactly
   the set of instruction pairs (i < j) whose fixed bits do not tell them apart *)
Theorem c08_tables_microblaze : table_facts table_microblaze nonwf_microblaze overlaps_microblaze.
Proof. exact tables_microblaze. Qed.
Print Assumptions c08_tables_microblaze.

(* all in-range operands of every table entry are recovered from the bytes (instance for one ISA; the same
   holds for each table by table_decodable) *)
Theorem c08_riscv_decodable : forall d ops, In d table_riscv -> in_range d ops = true ->
  exists bytes, encode_instr d ops = Ok bytes /\ decode_fields d bytes = Ok ops /\ fixed_ok d bytes = true.
Proof. exact (table_decodable _ _ _ tables_riscv). Qed.
Print Assumptions c08_riscv_decodable.

(* (b) RISC-V reference agreement, bounded: for every table entry with an expectation (RV32I/M base mnemonic)
   that is not in the exported disagreement list, and every operand tuple of rv_domain (all registers of each
   register operand, all values of each immediate of <= 13 bits, pattern-register products), the independent
   decoder reads the mnemonic and operands ppci prints *)
Theorem c08_rv_reference_bounded : forall n d e,
  nth_error table_riscv n = Some d -> ~ In n (map fst rvref_bad_riscv) -> rv_expectation d = Some e ->
  forall ops, In ops (rv_domain d) ->
  in_range d ops = true /\
  exists bytes, encode_instr d ops = Ok bytes /\
                RV32Decode.decode bytes = Some (fst e, map (apply_vsel ops) (snd e)).
Proof. exact rv_reference_bounded. Qed.
Print Assumptions c08_rv_reference_bounded.

(* (b) UNBOUNDED.  Spec level (no ppci): the reference decoder inverts the reference field packing of every base
   RV32I/M mnemonic for ALL register numbers 0..31 and ALL immediates of the format (R/I/L/S/B/U/J, incl. the
   scrambled B and J offsets) *)
Theorem c08_rv_spec_roundtrip : forall mn fs ks args,
  rv_layout mn = Some (fs, ks) -> args_ok ks args -> decode_word (enc_fields fs args) = Some (mn, args).
Proof. exact rv_roundtrip. Qed.
Print Assumptions c08_rv_spec_roundtrip.

(* ... and ppci: for every entry of table_riscv with an expectation (RV32I/M base mnemonic or pseudo-instruction)
   outside the exported disagreement list, and ALL in-range operands, the bytes of the model encoder decode
   (independent decoder) to the mnemonic and operands ppci prints.  Proved by reflection on the shape of the
   descriptor (bit sources of the 32 word bits vs. the reference layout) + c08_rv_spec_roundtrip. *)
Theorem c08_rv_reference : forall n d e,
  nth_error table_riscv n = Some d -> ~ In n (map fst rvref_bad_riscv) -> rv_expectation d = Some e ->
  forall ops, in_range d ops = true ->
  exists bytes, encode_instr d ops = Ok bytes /\
                RV32Decode.decode bytes = Some (fst e, map (apply_vsel ops) (snd e)).
Proof. exact rv_reference. Qed.
Print Assumptions c08_rv_reference.

(* every exported disagreement is real (empty list = full agreement) *)
Theorem c08_rv_reference_refuted : forall n ops, In (n, ops) rvref_bad_riscv ->
  in_range (desc_at table_riscv n) ops = true /\ rv_agrees (desc_at table_riscv n) ops = false.
Proof. exact rv_reference_refuted. Qed.
Print Assumptions c08_rv_reference_refuted.

(* (b) compressed classes (RV32C, integer subset), against the independent decoder Spec/RVCDecode.v.  BOUNDED but
   exhaustive: every entry of table_riscv_rvc ++ nonwf_riscv_rvc with an RVC expectation that is not in the exported
   disagreement list, EVERY operand tuple of its architectural domain (each register a field can hold - x8..x15 for
   register-prime fields - x every value of each immediate field; all domains <= 2^12 tuples) for which the
   reference instruction exists (rvc_valid: c.mv rs2<>x0, c.jr/c.jalr rs1<>x0, c.lui rd not in {x0,x2}) *)
Theorem c08_rvc_reference_bounded : forall n d e,
  nth_error all_rvc n = Some d -> ~ In n (map fst rvcref_bad_riscv_rvc) -> rvc_expectation d = Some e ->
  forall ops, In ops (rvc_domain d) -> rvc_valid (fst e) (map (apply_vsel ops) (snd e)) = true ->
  exists bytes, encode_instr d ops = Ok bytes /\ decode16 bytes = Some (fst e, map (apply_vsel ops) (snd e)).
Proof. exact rvc_reference_bounded. Qed.
Print Assumptions c08_rvc_reference_bounded.

(* the exported RVC disagreements (c.addi/c.andi sign bit, unencoded rs of c.slli/c.srli/c.srai/c.andi) and corner
   tuples (c.mv rd,x0 = c.jr; c.jalr x0 = c.ebreak; c.lui x2 = c.addi16sp) are real: the encoder accepts the operands
   and the reference reads the bytes differently *)
Theorem c08_rvc_reference_refuted : forall n ops, In (n, ops) (rvcref_bad_riscv_rvc ++ rvcref_corner_riscv_rvc) ->
  exists e bytes, rvc_expectation (desc_at all_rvc n) = Some e /\ encode_instr (desc_at all_rvc n) ops = Ok bytes /\
                  decode16 bytes <> Some (fst e, map (apply_vsel ops) (snd e)).
Proof. exact rvc_reference_refuted. Qed.
Print Assumptions c08_rvc_reference_refuted.

(* hypotheses are inhabited: add x5, x6, x7 *)
Example c08_nonvacuous :
  exists d, In d table_riscv /\ mnemonic d = "add"%string /\ wf_desc d = true /\ in_range d [5; 6; 7] = true /\
            encode_instr d [5; 6; 7] = Ok [179; 2; 115; 0] /\
            RV32Decode.decode [179; 2; 115; 0] = Some ("add"%string, [5; 6; 7]) /\
            Nat.ltb 30 (List.length rv_covered) = true.
Proof.
  destruct (find (fun d => String.eqb (mnemonic d) "add") table_riscv) as [d|] eqn:Ef; [|vm_compute in Ef; discriminate].
  exists d. split; [exact (proj1 (find_some _ _ Ef))|].
  vm_compute in Ef. inversion Ef; subst d. vm_compute. repeat split; reflexivity.
Qed.
