(* Props/C38_asfound.v — property C38, the code AS FOUND (ppci snapshot 722bf2e; constantfolding.py was unchanged until the C38 repairs): refutations.
   These theorems are about the frozen hand model Model.ConstFoldOrig; every witness is re-executed on
   the real pass by tools/props/c38.py on every run (a reproducing witness is reported as a violation).
   They record why the three repairs fixes/C38-*.diff were needed. *)
From PV Require Import Lib.Py Spec.IRArith Model.ConstFoldOrig Proofs.C38_asfound.
Open Scope Z_scope.

(* '%' folded with Python's floor modulo: -7 % 2 gave 1, run time gives -1 *)
Theorem c38_mod_exact_refuted : exists t a b v w, in_range t a /\ in_range t b /\
  eval_binop Rem t a b = Some v /\ Orig.on_instruction (obin Orig.MOD t a b) = Ok (Orig.Folded w (oty t)) /\ w <> v.
Proof. exact orig_mod_refuted. Qed.
Print Assumptions c38_mod_exact_refuted.

(* (y + 200) + 100 on u8 became y + Const 300 : u8 *)
Theorem c38_chain_add_in_range_refuted : exists t c1 c2 c, in_range t c1 /\ in_range t c2 /\
  Orig.on_instruction (ochain Orig.ADD (oty t) c1 c2) = Ok (Orig.Rechained (Orig.VOther (oty t)) Orig.ADD c (oty t)) /\
  ~ in_range t c.
Proof. exact orig_chain_add_refuted. Qed.
Print Assumptions c38_chain_add_in_range_refuted.

(* (y - 100) - 100 on i8 became y - Const 200 : i8 *)
Theorem c38_chain_sub_in_range_refuted : exists t c1 c2 c, in_range t c1 /\ in_range t c2 /\
  Orig.on_instruction (ochain Orig.SUB (oty t) c1 c2) = Ok (Orig.Rechained (Orig.VOther (oty t)) Orig.SUB c (oty t)) /\
  ~ in_range t c.
Proof. exact orig_chain_sub_refuted. Qed.
Print Assumptions c38_chain_sub_in_range_refuted.

(* the chain rule re-associated floating point additions *)
Theorem c38_chain_float_untouched_refuted : exists ty c1 c2 c, Orig.t_float ty = true /\ Orig.t_int ty = false /\
  Orig.on_instruction (ochain Orig.ADD ty c1 c2) = Ok (Orig.Rechained (Orig.VOther ty) Orig.ADD c ty).
Proof. exact orig_chain_float_refuted. Qed.
Print Assumptions c38_chain_float_untouched_refuted.

(* x % 0 and x << -1 made the pass raise ZeroDivisionError / ValueError *)
Theorem c38_fold_total_refuted :
  (exists t a b e, in_range t a /\ in_range t b /\ Orig.on_instruction (obin Orig.MOD t a b) = Internal e) /\
  (exists t a b e, in_range t a /\ in_range t b /\ Orig.on_instruction (obin Orig.SHL t a b) = Internal e).
Proof. exact orig_raises_refuted. Qed.
Print Assumptions c38_fold_total_refuted.
