(* Props/C37.v -- property C37 (PARTIAL): the C3 front-end computes the values C3 semantics
   prescribe.  Only statements, [exact] of a lemma from Proofs/, and Print Assumptions.

   What has a theorem: EXPRESSIONS over the types int (w = 16, 32 or 64 bits), byte and bool:
   literals, variables/parameters, + - * / % << >> & | ^, unary -, cast<int|byte>(e),
   comparisons, and / or / not (as conditions and as values), with the implicit conversions the
   type checker inserts.  [lower] (Model/C3Lower.v) is a hand model of typechecker.check_expr /
   check_condition / do_coerce, context.get_common_type and codegenerator.gen_expr_code /
   gen_cond_code / gen_bool_expr; [eval] (Spec/C3Spec.v) is the prescribed value, None where C3
   leaves it undefined (division by zero, INT_MIN / -1, shift count out of range);
   IR meaning = Spec/IRSem.v.  Unbounded in values.
   Statements (assignment, if/while/for/switch, calls, locals), pointers, structs, arrays, the
   sized integer types, floats and strings have NO theorem: differential execution only
   (tools/props/c37.py). *)
From PV Require Import Lib.Py Spec.IRSyntax Spec.IRSem Spec.C3Spec Model.C3Lower Proofs.C37_c3
  Spec.C3StmtSpec Model.StmtCode Model.C3Stmt Proofs.C37_stmt.
Open Scope Z_scope.

(* the IR the front-end emits for a well-typed expression evaluates to the prescribed value,
   and the front-end assigns the prescribed type *)
Theorem c37_expr_exact : forall w env e t v k x, wok w ->
  lower w e = Some (t, v, k) -> eval w env e = Some x ->
  typeof e = Some t /\ eval_l env v = ODone x.
Proof. exact expr_exact. Qed.
Print Assumptions c37_expr_exact.

(* a boolean expression used as a condition (gen_cond_code) branches to the true target
   exactly when its prescribed value is true *)
Theorem c37_cond_exact : forall w env e v k x, wok w ->
  lower w e = Some (CBool, v, k) -> eval w env e = Some x ->
  eval_k env (k KYes KNo) = ODone (x =? 1).
Proof. exact cond_exact. Qed.
Print Assumptions c37_cond_exact.

(* short circuit: when the left operand decides, the emitted code neither depends on nor
   executes the right operand (b is arbitrary: its own evaluation may be undefined) *)
Theorem c37_short_circuit_and : forall w env a b t v k, wok w ->
  lower w (EAnd a b) = Some (t, v, k) -> typeof b = Some CBool -> eval w env a = Some 0 ->
  eval_l env v = ODone 0 /\ eval_k env (k KYes KNo) = ODone false.
Proof. exact and_short_circuit. Qed.
Print Assumptions c37_short_circuit_and.

Theorem c37_short_circuit_or : forall w env a b t v k, wok w ->
  lower w (EOr a b) = Some (t, v, k) -> typeof b = Some CBool -> eval w env a = Some 1 ->
  eval_l env v = ODone 1 /\ eval_k env (k KYes KNo) = ODone true.
Proof. exact or_short_circuit. Qed.
Print Assumptions c37_short_circuit_or.

(* implicit byte -> int is inserted as a cast that keeps the value (zero extension) *)
Theorem c37_coercion_exact : forall w env va x, wok w ->
  eval_l env va = ODone x -> in_range w CByte x = true ->
  exists ca, coerce_tree w CByte CInt va = Some ca /\ eval_l env ca = ODone x.
Proof. exact coerce_byte_to_int. Qed.
Print Assumptions c37_coercion_exact.

(* what the code enforces in the other direction: int -> byte is ALSO inserted implicitly
   (do_coerce's signed -> unsigned branch marked "TODO: remove") and truncates modulo 256 *)
Theorem c37_coercion_narrowing_is_implicit : forall w env va x, wok w ->
  eval_l env va = ODone x ->
  coerce_tree w CInt CByte va = Some (LCast U8 va) /\ eval_l env (LCast U8 va) = ODone (x mod 256).
Proof. exact coerce_int_to_byte. Qed.
Print Assumptions c37_coercion_narrowing_is_implicit.

(* bool converts to and from nothing *)
Theorem c37_coercion_bool_rejected : forall w t, t <> CBool ->
  do_coerce w CBool t = None /\ do_coerce w t CBool = None.
Proof. exact coerce_bool_none. Qed.
Print Assumptions c37_coercion_bool_rejected.

(* ---- statements over int/byte/bool locals: assignment (with the implicit conversion),
   compound, if/else, while, for(init; cond; step), switch, return.  [compile] (Model/C3Stmt.v)
   models gen_stmt's CFG construction; the CFG is represented unfolded along its forward edges
   (Model/StmtCode.v), executed by [cruns] with IRSem's arithmetic through eval_l -- NOT with
   IRSem.run_function on numbered blocks and byte memory (that step is validated by structural
   comparison with the decompiled c3_to_ir output and by differential execution).
   [cexec] = big-step C3 semantics (Spec/C3StmtSpec.v, relational). ---- *)
Theorem c37_stmt_exact : forall w rt, wok w -> forall s env out, cexec w rt s env out ->
  forall d k c ls rg v, compile w rt d s k = Some c -> length ls = d -> top_ok d k ->
  match out with
  | ONormal env' => forall rg', agree_below (2 * d) rg' rg -> cruns w ls env' rg' k v
  | OReturn x => v = x
  end -> cruns w ls env rg c v.
Proof. exact stmt_sim. Qed.
Print Assumptions c37_stmt_exact.

Theorem c37_body_exact : forall w rt body env v c rg, wok w ->
  cexec w rt body env (OReturn v) -> compile w rt 0 body KStuck = Some c ->
  cruns w [] env rg c v.
Proof. exact body_exact. Qed.
Print Assumptions c37_body_exact.

(* the chain of CJump(value == Const label) tests gen_switch_stmt emits reaches exactly the code
   of the statement [select] picks: first matching label in source order, else default *)
Theorem c37_switch_dispatch : forall w rt d k cases dflt cc ls env rg v x,
  sw_chain (fun s1 => compile w rt d s1 k) (compile w rt d dflt k) d cases = Some cc ->
  Forall (fun zs => in_range w CInt (fst zs) = true) cases -> wok w ->
  rg (sw_reg d) = x ->
  exists csel, compile w rt d (select x cases dflt) k = Some csel /\
               (cruns w ls env rg csel v -> cruns w ls env rg cc v).
Proof. exact switch_dispatch. Qed.
Print Assumptions c37_switch_dispatch.

(* the statement theorems are not vacuous: from x = 2, y = 5 the body
   y = 0; while (x > 0) { switch (x) { case 2: y = y + 10; default: y = y + 1; } x = x - 1; } return y;
   returns 11, and it compiles *)
Example c37_stmt_nonvacuous :
  cexec 32 CInt ex37_body [2; 5] (OReturn 11) /\
  exists c, compile 32 CInt 0 ex37_body KStuck = Some c.
Proof. split; [exact ex37_run|]. eexists. vm_compute. reflexivity. Qed.

(* hypotheses are inhabited: on a 16-bit target, with a : int = -7, b : byte = 200,
   (a + b) * 300 wraps to -7636; b + b stays a byte (144); a / 2 truncates to -3;
   `a < b and not (b == 200)` is false, and `a > 0 and 1 / 0 == 1` is false without dividing *)
Example c37_nonvacuous :
  let a := EVar CInt 0 in let b := EVar CByte 1 in let env := [-7; 200] in
  let e1 := EBin BMul (EBin BAdd a b) (ELit 300) in
  (exists v k, lower 16 e1 = Some (CInt, v, k) /\ eval 16 env e1 = Some (-7636) /\ eval_l env v = ODone (-7636)) /\
  eval 16 env (EBin BAdd b b) = Some 144 /\
  eval 32 env (EBin BDiv a (ELit 2)) = Some (-3) /\
  eval 32 env (EAnd (ECmp KLt a b) (ENot (ECmp KEq b (ELit 200)))) = Some 0 /\
  eval 32 env (EAnd (ECmp KGt a (ELit 0)) (ECmp KEq (EBin BDiv (ELit 1) (ELit 0)) (ELit 1))) = Some 0 /\
  wok 16.
Proof.
  cbv zeta. split; [eexists; eexists; split; [reflexivity|]; split; vm_compute; reflexivity|].
  repeat split; try (vm_compute; reflexivity). left; reflexivity.
Qed.
