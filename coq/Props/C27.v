(* Props/C27.v — C integer constant expressions are evaluated as C prescribes (DESIGN §4 C27).
   Spec: Spec/CIntSpec.v. Models: Gen/ceval.v (regenerated from ppci/lang/c/eval.py), Model/CEval.v,
   Model/CSema.v (fixed code), Model/CEvalOrig.v (the code before fixes/C27-*.diff). *)
From PV Require Import Lib.Py Spec.CIntSpec Gen.ceval Model.CEval Model.CSema Model.CEvalOrig Proofs.C27_ceval.
From PV Require Import Spec.CEnumSpec Model.CEnum Proofs.C27_enum.
Open Scope Z_scope.

(* -- the unfixed evaluator violates the property: 7 % 3, 1 < 2, 1 && 2, 1 ? 2 : 3, !5 raise internal
      errors; -7 / 2 floors; 4294967295u + 1u is not reduced; (signed char)200 is not converted -- *)
Theorem c27_eval_exact_refuted :
  Forall (fun e => exists ty v, const_eval (dm_of x86_64) e = Some (ty, v) /\ eval_expr0 (elab0 e) <> Ok v)
         [w_mod; w_lt; w_land; w_cond; w_lnot; w_div; w_wrap; w_cast].
Proof.
  apply Forall_forall. intros e He. apply refute0_sound.
  exact (proj1 (forallb_forall _ _) refuted_witnesses e He).
Qed.
Print Assumptions c27_eval_exact_refuted.

Theorem c27_eval_exact_refuted_values :
  (eval_expr0 (elab0 w_mod) = Internal KeyError /\ eval (dm_of x86_64) w_mod = Some 1) /\
  (eval_expr0 (elab0 w_lt) = Internal KeyError /\ eval (dm_of x86_64) w_lt = Some 1) /\
  (eval_expr0 (elab0 w_cond) = Internal NotImplemented /\ eval (dm_of x86_64) w_cond = Some 2) /\
  (eval_expr0 (elab0 w_div) = Ok (-4) /\ eval (dm_of x86_64) w_div = Some (-3)) /\
  (eval_expr0 (elab0 w_wrap) = Ok 4294967296 /\ eval (dm_of x86_64) w_wrap = Some 0) /\
  (eval_expr0 (elab0 w_cast) = Ok 200 /\ eval (dm_of x86_64) w_cast = Some (-56)).
Proof. exact witness_values. Qed.
Print Assumptions c27_eval_exact_refuted_values.

(* `unsigned char g = 300;` : struct.error instead of the converted value 44 *)
Theorem c27_converted_refuted :
  const_eval (dm_of x86_64) (lit 300) = Some (TInt, 300) /\
  global_init0 x86_64 TUChar (elab_init0 TUChar (lit 300)) = Internal StructError /\
  bytes_of true 1 (convert (dm_of x86_64) TUChar 300) = [44].
Proof. exact converted_refuted. Qed.
Print Assumptions c27_converted_refuted.

(* -- the current code (fixes C27-operators/-convert/-sema-promotions and c83990b): exact on EVERY constant
      expression of the modelled syntax, on every data model -- *)
Theorem c27_eval_exact : forall c e ty v,
  wf_ctx c -> const_eval (dm_of c) e = Some (ty, v) ->
  eval_expr c (elab c e) = Ok v /\ typ_of (elab c e) = ty.
Proof. exact eval_exact_full. Qed.
Print Assumptions c27_eval_exact.

(* `T g = e;` : the global's image is the object representation of the converted value *)
Theorem c27_converted : forall c t e ty v,
  wf_ctx c -> llong_size c = 8 -> const_eval (dm_of c) e = Some (ty, v) ->
  global_init c t (elab_init c t e) =
  Ok (bytes_of (little_endian c) (sizeof c t) (convert (dm_of c) t v)).
Proof. exact converted_full. Qed.
Print Assumptions c27_converted.

(* the typing helpers of the current code agree with C on every expression *)
Theorem c27_sema_agrees_all : forall c e, wf_ctx c -> sema_agrees c (dm_of c) e = true.
Proof. intros c e W. now apply sema_agrees_all. Qed.
Print Assumptions c27_sema_agrees_all.

(* historical (before c83990b): promote = always int and get_common_type = max rank differed from C exactly
   on these operand type pairs *)
Theorem c27_fragment_lp64_orig : disagreeing (dm_of x86_64) = [(TULong, TLLong); (TLLong, TULong)].
Proof. exact fragment_lp64. Qed.
Print Assumptions c27_fragment_lp64_orig.
Theorem c27_fragment_ilp32_orig : disagreeing (dm_of arm32) = [(TUInt, TLong); (TLong, TUInt)].
Proof. exact fragment_ilp32. Qed.
Print Assumptions c27_fragment_ilp32_orig.
Theorem c27_fragment_int16_orig :
  forallb (fun p => ity_eqb (fst p) TUShort || ity_eqb (snd p) TUShort) (disagreeing (dm_of msp430)) = true.
Proof. exact fragment_int16_ushort. Qed.
Print Assumptions c27_fragment_int16_orig.

Example c27_nonvacuous :
  wf_ctx x86_64 /\ llong_size x86_64 = 8 /\
  const_eval (dm_of x86_64) (EBin BDiv (EUn UNeg (lit 7)) (ELit TUInt 2)) = Some (TUInt, 2147483644).
Proof. exact nonvacuous. Qed.

(* eval_binop's EnumType branch (both operands of enumerated type) installs, for every key, the same operator
   as the integer branch — in particular truncating c_div / c_rem — so the theorems above carry over to
   enum-typed operands (enumerated types are compatible with int: C11 6.7.2.2p4) *)
Theorem c27_enum_branch_same_operators : Forall enum_entry_agrees binop_enum_table.
Proof. exact enum_table_agrees. Qed.
Print Assumptions c27_enum_branch_same_operators.

(* enumerator values (CContext._calculate_enum_values, Model/CEnum.v; C11 6.7.2.2, Spec/CEnumSpec.v): for EVERY
   enumerator list whose defining expressions have C values, each constant gets exactly its C value (explicit value,
   else previous + 1, first 0) and the list is diagnosed (never an internal error, never a wrapped value) exactly
   when some value is not representable as int *)
Theorem c27_enum_values_exact : forall c l, wf_ctx c ->
  match enum_spec (dm_of c) 0 l with
  | None => True
  | Some None => exists d, enum_values c (map (option_map (elab c)) l) = Diag d
  | Some (Some vs) => enum_values c (map (option_map (elab c)) l) = Ok vs
  end.
Proof. exact (fun c l W => enum_values_exact c l W). Qed.
Print Assumptions c27_enum_values_exact.

Theorem c27_enum_values_no_internal : forall c l x, wf_ctx c ->
  enum_spec (dm_of c) 0 l <> None -> enum_values c (map (option_map (elab c)) l) <> Internal x.
Proof. exact enum_values_no_internal. Qed.
Print Assumptions c27_enum_values_no_internal.

Example c27_enum_nonvacuous :
  enum_spec (dm_of x86_64) 0 enum_demo = Some (Some [-7; -6; -3; -2; 2147483647]) /\
  enum_spec (dm_of x86_64) 0 (enum_demo ++ [None]) = Some None /\
  enum_spec (dm_of msp430) 0 [Some (lit 32767); None] = Some None.
Proof. exact enum_nonvacuous. Qed.
