(* Props/C27.v — C integer constant expressions are evaluated as C prescribes (DESIGN §4 C27).
   Spec: Spec/CIntSpec.v. Models: Gen/ceval.v (regenerated from ppci/lang/c/eval.py), Model/CEval.v,
   Model/CSema.v (fixed code), Model/CEvalOrig.v (the code before fixes/C27-*.diff). *)
From PV Require Import Lib.Py Spec.CIntSpec Gen.ceval Model.CEval Model.CSema Model.CEvalOrig Proofs.C27_ceval.
Open Scope Z_scope.

(* -- the unfixed evaluator violates the property: 7 % 3, 1 < 2, 1 && 2, 1 ? 2 : 3, !5 raise internal
      errors; -7 / 2 floors; 4294967295u + 1u is not reduced; (signed char)200 is not converted -- *)
Theorem c27_eval_exact_refuted :
  Forall (fun e => exists ty v, const_eval (dm_of x86_64) e = Some (ty, v) /\ eval_expr0 (elab0 e) <> Ok v)
         [w_mod; w_lt; w_land; w_cond; w_lnot; w_div; w_wrap; w_cast].
Proof.
  apply Forall_forall. intros e He. apply refute0_sound.
  exact (proj1 (forallb_forall _ _) refuted_witnesses e He).
Qed.
Print Assumptions c27_eval_exact_refuted.

Theorem c27_eval_exact_refuted_values :
  (eval_expr0 (elab0 w_mod) = Internal KeyError /\ eval (dm_of x86_64) w_mod = Some 1) /\
  (eval_expr0 (elab0 w_lt) = Internal KeyError /\ eval (dm_of x86_64) w_lt = Some 1) /\
  (eval_expr0 (elab0 w_cond) = Internal NotImplemented /\ eval (dm_of x86_64) w_cond = Some 2) /\
  (eval_expr0 (elab0 w_div) = Ok (-4) /\ eval (dm_of x86_64) w_div = Some (-3)) /\
  (eval_expr0 (elab0 w_wrap) = Ok 4294967296 /\ eval (dm_of x86_64) w_wrap = Some 0) /\
  (eval_expr0 (elab0 w_cast) = Ok 200 /\ eval (dm_of x86_64) w_cast = Some (-56)).
Proof. exact witness_values. Qed.
Print Assumptions c27_eval_exact_refuted_values.

(* `unsigned char g = 300;` : struct.error instead of the converted value 44 *)
Theorem c27_converted_refuted :
  const_eval (dm_of x86_64) (lit 300) = Some (TInt, 300) /\
  global_init0 x86_64 TUChar (elab_init0 TUChar (lit 300)) = Internal StructError /\
  bytes_of true 1 (convert (dm_of x86_64) TUChar 300) = [44].
Proof. exact converted_refuted. Qed.
Print Assumptions c27_converted_refuted.

(* -- the fixed evaluator: exact on every expression whose ppci typing is the C typing.
      PARTIAL: [sema_agrees] excludes operand pairs on which CSemantics.get_common_type (max rank) or
      CSemantics.promote (always int) differ from C (see the c27_fragment theorems). -- *)
Theorem c27_eval_exact_partial : forall c e ty v,
  wf_ctx c -> sema_agrees (dm_of c) e = true -> const_eval (dm_of c) e = Some (ty, v) ->
  eval_expr c (elab e) = Ok v /\ typ_of (elab e) = ty.
Proof. exact eval_exact_partial. Qed.
Print Assumptions c27_eval_exact_partial.

(* `T g = e;` : the global's image is the object representation of the converted value *)
Theorem c27_converted_partial : forall c t e ty v,
  wf_ctx c -> llong_size c = 8 -> sema_agrees (dm_of c) e = true ->
  const_eval (dm_of c) e = Some (ty, v) ->
  global_init c t (elab_init t e) =
  Ok (bytes_of (little_endian c) (sizeof c t) (convert (dm_of c) t v)).
Proof. exact converted_partial. Qed.
Print Assumptions c27_converted_partial.

(* what the fragment leaves out: the operand type pairs with a non-C common type, per data model *)
Theorem c27_fragment_lp64 : disagreeing (dm_of x86_64) = [(TULong, TLLong); (TLLong, TULong)].
Proof. exact fragment_lp64. Qed.
Print Assumptions c27_fragment_lp64.
Theorem c27_fragment_ilp32 : disagreeing (dm_of arm32) = [(TUInt, TLong); (TLong, TUInt)].
Proof. exact fragment_ilp32. Qed.
Print Assumptions c27_fragment_ilp32.
Theorem c27_fragment_int16 :
  forallb (fun p => ity_eqb (fst p) TUShort || ity_eqb (snd p) TUShort) (disagreeing (dm_of msp430)) = true.
Proof. exact fragment_int16_ushort. Qed.
Print Assumptions c27_fragment_int16.

Example c27_nonvacuous :
  wf_ctx x86_64 /\ llong_size x86_64 = 8 /\
  sema_agrees (dm_of x86_64) (EBin BDiv (EUn UNeg (lit 7)) (ELit TUInt 2)) = true /\
  const_eval (dm_of x86_64) (EBin BDiv (EUn UNeg (lit 7)) (ELit TUInt 2)) = Some (TUInt, 2147483644).
Proof. exact nonvacuous. Qed.
