(* Props/C30.v — property C30: compilation is deterministic (PARTIAL: the modelled core).
   Only statements, [exact] of a lemma from Proofs/, and Print Assumptions.
   Models: Model/OrderedSet.v (ppci/utils/collections.py, checked against the class on every run),
   Model/C30Sites.v (set-consuming sites, parametrised by the enumeration order of the set).
   NOT modelled: CPython's hash/`id` functions and allocator — covered by the multi-seed search. *)
From Coq Require Import ZArith List Sorted Permutation.
From PV Require Import Lib.Py Spec.OrderedSetSpec Model.OrderedSet Model.C30Sites
  Proofs.C30_orderedset Proofs.C30_sites.
Import ListNotations.
Open Scope Z_scope.

(* ---- OrderedSet: the iteration order is a function of the operation history alone ---- *)
Theorem c30_orderedset_order : forall ops t outs, ssteps t_empty (map sop_of ops) t outs ->
  represents (os_iter (fst (run ops))) t /\ map sout_of (snd (run ops)) = outs.
Proof. exact orderedset_order. Qed.
Print Assumptions c30_orderedset_order.

Theorem c30_orderedset_spec_total : forall ops, exists t outs, ssteps t_empty (map sop_of ops) t outs.
Proof. exact orderedset_spec_total. Qed.
Print Assumptions c30_orderedset_spec_total.

Theorem c30_orderedset_order_unique : forall l l' t, represents l t -> represents l' t -> l = l'.
Proof. exact represents_unique. Qed.
Print Assumptions c30_orderedset_order_unique.

Theorem c30_orderedset_nodup : forall ops, NoDup (os_iter (fst (run ops))).
Proof. exact orderedset_nodup. Qed.
Print Assumptions c30_orderedset_nodup.

Theorem c30_orderedset_membership : forall ops t outs x, ssteps t_empty (map sop_of ops) t outs ->
  os_contains (fst (run ops)) x = t_mem t x.
Proof. exact orderedset_membership. Qed.
Print Assumptions c30_orderedset_membership.

(* OrderedSet - builtin set: the argument is consulted through membership only *)
Theorem c30_orderedset_sub_order_independent : forall s o1 o2, (forall x, In x o1 <-> In x o2) ->
  os_sub s o1 = os_sub s o2.
Proof. exact os_sub_order_independent. Qed.
Print Assumptions c30_orderedset_sub_order_independent.

(* OrderedSet | iterable, OrderedSet & iterable, |= : the order of the argument does reach the result
   (never its membership) — an OrderedSet built from a builtin set inherits the set's enumeration order *)
Theorem c30_orderedset_or_order_relevant : exists s o1 o2, Permutation o1 o2 /\ os_or s o1 <> os_or s o2.
Proof. exact os_or_order_relevant. Qed.
Print Assumptions c30_orderedset_or_order_relevant.

Theorem c30_orderedset_and_order_relevant : exists s o1 o2, Permutation o1 o2 /\ os_and s o1 <> os_and s o2.
Proof. exact os_and_order_relevant. Qed.
Print Assumptions c30_orderedset_and_order_relevant.

Theorem c30_orderedset_or_same_set : forall s o1 o2 x, (forall y, In y o1 <-> In y o2) ->
  (In x (os_or s o1) <-> In x (os_or s o2)).
Proof. exact os_or_same_set. Qed.
Print Assumptions c30_orderedset_or_same_set.

(* ---- assign_colors ---- *)
Theorem c30_assign_colors_order_independent : forall cls alias adj adj',
  Permutation adj adj' -> assign_color cls alias adj = assign_color cls alias adj'.
Proof. exact assign_color_order_independent. Qed.
Print Assumptions c30_assign_colors_order_independent.

Theorem c30_assign_colors_first_free : forall cls alias adj, NoDup cls ->
  assign_color cls alias adj = find (fun r => negb (mem r (takenregs alias adj))) cls.
Proof. exact assign_color_first_free. Qed.
Print Assumptions c30_assign_colors_first_free.

(* ---- callee-saved selection (gen_prologue / gen_epilogue) ---- *)
Theorem c30_callee_saved_order_independent : forall cs used used' alias,
  (forall x, In x used <-> In x used') -> callee_saved cs used alias = callee_saved cs used' alias.
Proof. exact callee_saved_order_independent. Qed.
Print Assumptions c30_callee_saved_order_independent.

Theorem c30_callee_saved_in_tuple_order : forall cs used alias,
  (forall r, In r (callee_saved cs used alias) <-> In r cs /\ is_used used alias r = true) /\
  (forall x y r1 r2, callee_saved cs used alias = r1 ++ x :: r2 -> In y r2 ->
     exists l1 l2, cs = l1 ++ x :: l2 /\ In y l2).
Proof. exact callee_saved_in_tuple_order. Qed.
Print Assumptions c30_callee_saved_in_tuple_order.

Theorem c30_arm_push_mask_order_independent : forall e e', Permutation e e' ->
  reg_list_to_mask e = reg_list_to_mask e'.
Proof. exact reg_list_to_mask_order_independent. Qed.
Print Assumptions c30_arm_push_mask_order_independent.

(* ---- mem2reg place_phi_nodes ---- *)
Theorem c30_place_phi_nodes_refuted : exists enum enum' df defining fuel r r',
  (forall s, Permutation (enum s) s) /\ (forall s, Permutation (enum' s) s) /\
  place_phi_nodes enum df fuel defining = Ok r /\ place_phi_nodes enum' df fuel defining = Ok r' /\ r <> r'.
Proof. exact place_phi_nodes_refuted. Qed.
Print Assumptions c30_place_phi_nodes_refuted.

Theorem c30_place_phi_nodes_fixed_order_independent :
  forall (ord : Z -> Z), (forall x y, ord x = ord y -> x = y) ->
  forall enum enum', (forall s, Permutation (enum s) s) -> (forall s, Permutation (enum' s) s) ->
  forall df, (forall b, NoDup (df b)) ->
  forall fuel defining, NoDup defining ->
  place_phi_nodes_fixed enum df ord fuel defining = place_phi_nodes_fixed enum' df ord fuel defining.
Proof. exact place_phi_nodes_fixed_order_independent. Qed.
Print Assumptions c30_place_phi_nodes_fixed_order_independent.

(* ---- OrderedSet.__reversed__ : as implemented it yields the first key only (defect of the class; unused in ppci) ---- *)
Theorem c30_orderedset_reversed_refuted : exists s, NoDup s /\ os_reversed s <> rev (os_iter s).
Proof. exact os_reversed_refuted. Qed.
Print Assumptions c30_orderedset_reversed_refuted.

Theorem c30_orderedset_reversed_first_only : forall s, os_reversed s = match s with [] => [] | x :: _ => [x] end.
Proof. exact os_reversed_first_only. Qed.
Print Assumptions c30_orderedset_reversed_first_only.

Theorem c30_orderedset_reversed_fixed : forall s, os_reversed_fixed s = rev (os_iter s).
Proof. exact os_reversed_fixed_correct. Qed.
Print Assumptions c30_orderedset_reversed_fixed.

(* ---- burg: BurgSystem.check_tree_defined iterates a set of str (PYTHONHASHSEED dependent order) ---- *)
Theorem c30_burg_check_order_independent : forall names names' symbols, Permutation names names' ->
  (check_tree_defined names symbols = Ok tt <-> check_tree_defined names' symbols = Ok tt).
Proof. exact burg_check_order_independent. Qed.
Print Assumptions c30_burg_check_order_independent.

Theorem c30_burg_check_reports_undefined : forall names symbols n,
  check_tree_defined names symbols = Diag n -> In n names /\ mem n symbols = false.
Proof. exact burg_check_reports_undefined. Qed.
Print Assumptions c30_burg_check_reports_undefined.

Theorem c30_burg_check_message_order_relevant : exists names names' symbols,
  Permutation names names' /\ check_tree_defined names symbols <> check_tree_defined names' symbols.
Proof. exact burg_check_message_order_relevant. Qed.
Print Assumptions c30_burg_check_message_order_relevant.

(* ---- relooper (wasm / python back ends): StructureDetector.follows_loop ---- *)
Theorem c30_relooper_follows_loop_order_independent : forall succ succ' ln ln' sdom,
  Permutation ln ln' -> (forall n, Permutation (succ n) (succ' n)) ->
  follows_loop succ ln sdom = follows_loop succ' ln' sdom.
Proof. exact follows_loop_order_independent. Qed.
Print Assumptions c30_relooper_follows_loop_order_independent.

(* hypotheses are inhabited: a history with every kind of operation has a specified result, and the
   repaired place_phi_nodes terminates with the same answer for the two enumerations of the refutation *)
Example c30_nonvacuous :
  fst (run [OIor [3; 1; 2]; OAdd 1; ODiscard 3; OAdd 3; OPop; ORemove 7; OIand [3; 2; 9]; OIsub [9]; OClear; OAdd 5])
    = [5]
  /\ snd (run [OAdd 4; OPop; OPop]) = [ONone; OVal 4; OKeyError]
  /\ place_phi_nodes_fixed (fun s => s) df_ex (fun b => b) 10 [1] = Ok [(2, 0); (3, 1)]
  /\ place_phi_nodes_fixed (@rev Z) df_ex (fun b => b) 10 [1] = Ok [(2, 0); (3, 1)]
  /\ follows_loop (fun n => if n =? 1 then [2; 5] else if n =? 2 then [1; 5] else []) [1; 2] (fun _ => false) = Ok (Some 5)
  /\ check_tree_defined [3; 4] [4; 3; 9] = Ok tt
  /\ assign_color [10; 11; 12] (fun r => if r =? 10 then Some [10; 20] else None) [Some 10; None; Some 12] = Some 11.
Proof. vm_compute. repeat split. Qed.
