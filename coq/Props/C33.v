(* Props/C33.v — property C33: integer range sets behave as mathematical sets.
   Only statements, [exact] of a lemma from Proofs/, and Print Assumptions.
   All theorems are about the hand model Model/IntegerSet.v of ppci/utils/integer_set.py (tie H;
   model/implementation correspondence is re-run by tools/props/c33.py on every check).
   An IntegerSet is its [ranges] list; [denote rs z] : z is a member; [canonical rs] : sorted,
   non-empty, non-overlapping, non-adjacent ranges (Spec/IntSetSpec.v).  Unbounded: every list of
   ranges over Z.  Loops of intersection/difference take fuel; length a + length b < fuel suffices. *)
From PV Require Import Lib.Py Spec.IntSetSpec Model.IntegerSet Proofs.C33_intset.
From Coq Require Import Sorted.
Open Scope Z_scope.

(* ---- constructor: IntegerSet( *values), values = ints and (a, b) tuples, any order, overlapping,
   adjacent, duplicated or empty (a > b; these denote nothing and are dropped by the code) ---- *)
Theorem c33_ctor_canonical : forall vs, canonical (ctor vs).
Proof. exact ctor_canonical. Qed.
Print Assumptions c33_ctor_canonical.

Theorem c33_ctor_denote : forall vs z,
  denote (ctor vs) z <->
  exists v, In v vs /\ match v with IInt x => z = x | IRange a b => a <= z <= b end.
Proof. exact ctor_denote_values. Qed.
Print Assumptions c33_ctor_denote.

(* IntegerSet( *s.ranges) == s : the canonical form is a fixed point of the constructor *)
Theorem c33_ctor_fixpoint : forall rs, canonical rs -> mk rs = rs.
Proof. exact mk_canonical_id. Qed.
Print Assumptions c33_ctor_fixpoint.

(* ---- union ---- *)
Theorem c33_union_canonical : forall a b, canonical (union a b).
Proof. exact union_canonical. Qed.
Print Assumptions c33_union_canonical.

Theorem c33_union_denote : forall a b z, denote (union a b) z <-> denote a z \/ denote b z.
Proof. exact union_denote. Qed.
Print Assumptions c33_union_denote.

(* ---- intersection ---- *)
Theorem c33_inter_canonical : forall fuel a b r, intersection fuel a b = Ok r -> canonical r.
Proof. exact intersection_canonical. Qed.
Print Assumptions c33_inter_canonical.

Theorem c33_inter_denote : forall fuel a b,
  canonical a -> canonical b -> (length a + length b < fuel)%nat ->
  exists r, intersection fuel a b = Ok r /\ forall z, denote r z <-> denote a z /\ denote b z.
Proof. exact intersection_denote. Qed.
Print Assumptions c33_inter_denote.

(* ---- difference ---- *)
Theorem c33_diff_canonical : forall fuel a b r, difference fuel a b = Ok r -> canonical r.
Proof. exact difference_canonical. Qed.
Print Assumptions c33_diff_canonical.

Theorem c33_diff_denote : forall fuel a b,
  canonical a -> canonical b -> (length a + length b < fuel)%nat ->
  exists r, difference fuel a b = Ok r /\ forall z, denote r z <-> denote a z /\ ~ denote b z.
Proof. exact difference_denote. Qed.
Print Assumptions c33_diff_denote.

(* ---- symmetric difference ---- *)
Theorem c33_symdiff_canonical : forall fuel a b r, symmetric_difference fuel a b = Ok r -> canonical r.
Proof. exact symmetric_difference_canonical. Qed.
Print Assumptions c33_symdiff_canonical.

Theorem c33_symdiff_denote : forall fuel a b,
  canonical a -> canonical b -> (length a + length b < fuel)%nat ->
  exists r, symmetric_difference fuel a b = Ok r /\
            forall z, denote r z <-> (denote a z /\ ~ denote b z) \/ (denote b z /\ ~ denote a z).
Proof. exact symmetric_difference_denote. Qed.
Print Assumptions c33_symdiff_denote.

(* ---- membership: no IndexError, and the answer is membership in the denoted set ---- *)
Theorem c33_contains_iff : forall rs v, canonical rs ->
  exists b, contains rs v = Ok b /\ (b = true <-> denote rs v).
Proof. exact contains_iff. Qed.
Print Assumptions c33_contains_iff.

(* the binary search of Lib/bisect.py returns the partition point that [contains] is modelled with *)
Theorem c33_bisect_contract : forall fuel v rs, canonical rs -> (length rs < fuel)%nat ->
  bisect_bs fuel v rs = Ok (bisect_right v rs).
Proof. exact bisect_bs_correct. Qed.
Print Assumptions c33_bisect_contract.

(* ---- cardinality = number of integers denoted = length of the iteration ---- *)
Theorem c33_cardinality : forall rs, canonical rs ->
  has_card (denote rs) (cardinality rs) /\ cardinality rs = Z.of_nat (length (iter rs)).
Proof. exact cardinality_correct. Qed.
Print Assumptions c33_cardinality.

(* ---- iteration yields exactly the members, strictly ascending (so each once) ---- *)
Theorem c33_iter_sorted_exact : forall rs, canonical rs ->
  StronglySorted Z.lt (iter rs) /\ forall z, In z (iter rs) <-> denote rs z.
Proof. exact iter_enumerates. Qed.
Print Assumptions c33_iter_sorted_exact.

(* ---- equality: canonical forms are unique, so == decides equality of the denoted sets ---- *)
Theorem c33_eq_iff_same_set : forall a b, canonical a -> canonical b ->
  (ranges_eqb a b = true <-> forall z, denote a z <-> denote b z).
Proof. exact eq_iff_same_set. Qed.
Print Assumptions c33_eq_iff_same_set.

Theorem c33_empty_iff : forall rs, canonical rs -> (empty rs = true <-> forall z, ~ denote rs z).
Proof. exact empty_iff. Qed.
Print Assumptions c33_empty_iff.

(* non-vacuity: overlapping, adjacent, nested, duplicated and empty inputs; the hypotheses
   (canonical operands, fuel) are met by constructed sets and the conclusions compute *)
Example c33_nonvacuous :
  let a := ctor [IRange 5 7; IInt 8; IRange 1 3; IRange 2 2; IRange 9 4; IRange 20 30; IInt 1] in
  let b := ctor [IRange 3 5; IRange 25 40; IInt (-2)] in
  a = [(1, 3); (5, 8); (20, 30)] /\ b = [(-2, -2); (3, 5); (25, 40)] /\
  union a b = [(-2, -2); (1, 8); (20, 40)] /\
  intersection 10 a b = Ok [(3, 3); (5, 5); (25, 30)] /\
  difference 10 a b = Ok [(1, 2); (6, 8); (20, 24)] /\
  symmetric_difference 10 a b = Ok [(-2, -2); (1, 2); (4, 4); (6, 8); (20, 24); (31, 40)] /\
  contains a 8 = Ok true /\ contains a 4 = Ok false /\ contains a 20 = Ok true /\
  cardinality a = 18 /\ iter b = [-2; 3; 4; 5] ++ rangeZ 25 41 /\
  ranges_eqb a (ctor [IRange 1 3; IRange 20 30; IRange 5 8]) = true /\ ranges_eqb a b = false /\
  bisect_bs 10 21 a = Ok 3%nat.
Proof. vm_compute. repeat split. Qed.
