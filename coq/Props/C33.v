(* Props/C33.v — property C33: integer range sets behave as mathematical sets.
   Only statements, [exact] of a lemma from Proofs/, and Print Assumptions.
   All theorems are about the hand model Model/IntegerSet.v of ppci/utils/integer_set.py (tie H;
   model/implementation correspondence is re-run by tools/props/c33.py on every check).
   An IntegerSet is its [ranges] list; [denote rs z] : z is a member; [canonical rs] : sorted,
   non-empty, non-overlapping, non-adjacent ranges (Spec/IntSetSpec.v).  Unbounded: every list of
   ranges over Z.  Loops of intersection/difference take fuel; length a + length b < fuel suffices. *)
From PV Require Import Lib.Py Spec.IntSetSpec Model.IntegerSet Proofs.C33_intset Proofs.C33_laws.
From Coq Require Import Sorted.
Open Scope Z_scope.

(* ---- constructor: IntegerSet( *values), values = ints and (a, b) tuples, any order, overlapping,
   adjacent, duplicated or empty (a > b; these denote nothing and are dropped by the code) ---- *)
Theorem c33_ctor_canonical : forall vs, canonical (ctor vs).
Proof. exact ctor_canonical. Qed.
Print Assumptions c33_ctor_canonical.

Theorem c33_ctor_denote : forall vs z,
  denote (ctor vs) z <->
  exists v, In v vs /\ match v with IInt x => z = x | IRange a b => a <= z <= b end.
Proof. exact ctor_denote_values. Qed.
Print Assumptions c33_ctor_denote.

(* IntegerSet( *s.ranges) == s : the canonical form is a fixed point of the constructor *)
Theorem c33_ctor_fixpoint : forall rs, canonical rs -> mk rs = rs.
Proof. exact mk_canonical_id. Qed.
Print Assumptions c33_ctor_fixpoint.

(* ---- union ---- *)
Theorem c33_union_canonical : forall a b, canonical (union a b).
Proof. exact union_canonical. Qed.
Print Assumptions c33_union_canonical.

Theorem c33_union_denote : forall a b z, denote (union a b) z <-> denote a z \/ denote b z.
Proof. exact union_denote. Qed.
Print Assumptions c33_union_denote.

(* ---- intersection ---- *)
Theorem c33_inter_canonical : forall fuel a b r, intersection fuel a b = Ok r -> canonical r.
Proof. exact intersection_canonical. Qed.
Print Assumptions c33_inter_canonical.

Theorem c33_inter_denote : forall fuel a b,
  canonical a -> canonical b -> (length a + length b < fuel)%nat ->
  exists r, intersection fuel a b = Ok r /\ forall z, denote r z <-> denote a z /\ denote b z.
Proof. exact intersection_denote. Qed.
Print Assumptions c33_inter_denote.

(* ---- difference ---- *)
Theorem c33_diff_canonical : forall fuel a b r, difference fuel a b = Ok r -> canonical r.
Proof. exact difference_canonical. Qed.
Print Assumptions c33_diff_canonical.

Theorem c33_diff_denote : forall fuel a b,
  canonical a -> canonical b -> (length a + length b < fuel)%nat ->
  exists r, difference fuel a b = Ok r /\ forall z, denote r z <-> denote a z /\ ~ denote b z.
Proof. exact difference_denote. Qed.
Print Assumptions c33_diff_denote.

(* ---- symmetric difference ---- *)
Theorem c33_symdiff_canonical : forall fuel a b r, symmetric_difference fuel a b = Ok r -> canonical r.
Proof. exact symmetric_difference_canonical. Qed.
Print Assumptions c33_symdiff_canonical.

Theorem c33_symdiff_denote : forall fuel a b,
  canonical a -> canonical b -> (length a + length b < fuel)%nat ->
  exists r, symmetric_difference fuel a b = Ok r /\
            forall z, denote r z <-> (denote a z /\ ~ denote b z) \/ (denote b z /\ ~ denote a z).
Proof. exact symmetric_difference_denote. Qed.
Print Assumptions c33_symdiff_denote.

(* ---- membership: no IndexError, and the answer is membership in the denoted set ---- *)
Theorem c33_contains_iff : forall rs v, canonical rs ->
  exists b, contains rs v = Ok b /\ (b = true <-> denote rs v).
Proof. exact contains_iff. Qed.
Print Assumptions c33_contains_iff.

(* the binary search of Lib/bisect.py returns the partition point that [contains] is modelled with *)
Theorem c33_bisect_contract : forall fuel v rs, canonical rs -> (length rs < fuel)%nat ->
  bisect_bs fuel v rs = Ok (bisect_right v rs).
Proof. exact bisect_bs_correct. Qed.
Print Assumptions c33_bisect_contract.

(* ---- cardinality = number of integers denoted = length of the iteration ---- *)
Theorem c33_cardinality : forall rs, canonical rs ->
  has_card (denote rs) (cardinality rs) /\ cardinality rs = Z.of_nat (length (iter rs)).
Proof. exact cardinality_correct. Qed.
Print Assumptions c33_cardinality.

(* ---- iteration yields exactly the members, strictly ascending (so each once) ---- *)
Theorem c33_iter_sorted_exact : forall rs, canonical rs ->
  StronglySorted Z.lt (iter rs) /\ forall z, In z (iter rs) <-> denote rs z.
Proof. exact iter_enumerates. Qed.
Print Assumptions c33_iter_sorted_exact.

(* ---- equality: canonical forms are unique, so == decides equality of the denoted sets ---- *)
Theorem c33_eq_iff_same_set : forall a b, canonical a -> canonical b ->
  (ranges_eqb a b = true <-> forall z, denote a z <-> denote b z).
Proof. exact eq_iff_same_set. Qed.
Print Assumptions c33_eq_iff_same_set.

Theorem c33_empty_iff : forall rs, canonical rs -> (empty rs = true <-> forall z, ~ denote rs z).
Proof. exact empty_iff. Qed.
Print Assumptions c33_empty_iff.

(* ---- algebraic laws at the level of the representation (what __eq__ compares): because canonical
   forms are unique, set-algebra identities hold as equalities of the returned ranges lists.
   No operation returns more ranges than it was given, so the fuel bounds mention the inputs only ---- *)
Theorem c33_canonical_ext : forall a b, canonical a -> canonical b ->
  (forall z, denote a z <-> denote b z) -> a = b.
Proof. exact canonical_ext_denote. Qed.
Print Assumptions c33_canonical_ext.

(* a | b == b | a and (a | b) | c == a | (b | c) for arbitrary ranges lists; a | a == a, a | {} == a *)
Theorem c33_union_laws :
  (forall a b, union a b = union b a) /\
  (forall a b c, union (union a b) c = union a (union b c)) /\
  (forall a, canonical a -> union a a = a /\ union a [] = a /\ union [] a = a).
Proof. exact union_laws. Qed.
Print Assumptions c33_union_laws.

Theorem c33_inter_comm : forall fuel a b, canonical a -> canonical b -> (length a + length b < fuel)%nat ->
  exists r, intersection fuel a b = Ok r /\ intersection fuel b a = Ok r.
Proof. exact inter_comm. Qed.
Print Assumptions c33_inter_comm.

(* a ^ b == (a | b) - (a & b) *)
Theorem c33_symdiff_law : forall fuel a b, canonical a -> canonical b ->
  (2 * (length a + length b) < fuel)%nat ->
  exists i r, intersection fuel a b = Ok i /\ symmetric_difference fuel a b = Ok r /\
              difference fuel (union a b) i = Ok r.
Proof. exact symdiff_law. Qed.
Print Assumptions c33_symdiff_law.

(* De Morgan for the relative complement: a - (b | c) == (a - b) & (a - c) *)
Theorem c33_demorgan_law : forall fuel a b c, canonical a -> canonical b -> canonical c ->
  (2 * length a + length b + length c < fuel)%nat ->
  exists d1 d2 r, difference fuel a b = Ok d1 /\ difference fuel a c = Ok d2 /\
                  difference fuel a (union b c) = Ok r /\ intersection fuel d1 d2 = Ok r.
Proof. exact demorgan_law. Qed.
Print Assumptions c33_demorgan_law.

(* a & b == a - (a - b) *)
Theorem c33_double_diff_law : forall fuel a b, canonical a -> canonical b ->
  (2 * length a + length b < fuel)%nat ->
  exists d r, difference fuel a b = Ok d /\ intersection fuel a b = Ok r /\ difference fuel a d = Ok r.
Proof. exact double_diff_law. Qed.
Print Assumptions c33_double_diff_law.

(* the results never have more ranges than the operands together *)
Theorem c33_result_sizes :
  (forall a b, (length (union a b) <= length a + length b)%nat) /\
  (forall fuel a b r, intersection fuel a b = Ok r -> (length r <= length a + length b)%nat) /\
  (forall fuel a b r, difference fuel a b = Ok r -> (length r <= length a + length b)%nat).
Proof. exact result_sizes. Qed.
Print Assumptions c33_result_sizes.

(* non-vacuity: overlapping, adjacent, nested, duplicated and empty inputs; the hypotheses
   (canonical operands, fuel) are met by constructed sets and the conclusions compute *)
Example c33_nonvacuous :
  let a := ctor [IRange 5 7; IInt 8; IRange 1 3; IRange 2 2; IRange 9 4; IRange 20 30; IInt 1] in
  let b := ctor [IRange 3 5; IRange 25 40; IInt (-2)] in
  a = [(1, 3); (5, 8); (20, 30)] /\ b = [(-2, -2); (3, 5); (25, 40)] /\
  union a b = [(-2, -2); (1, 8); (20, 40)] /\
  intersection 10 a b = Ok [(3, 3); (5, 5); (25, 30)] /\
  difference 10 a b = Ok [(1, 2); (6, 8); (20, 24)] /\
  symmetric_difference 10 a b = Ok [(-2, -2); (1, 2); (4, 4); (6, 8); (20, 24); (31, 40)] /\
  contains a 8 = Ok true /\ contains a 4 = Ok false /\ contains a 20 = Ok true /\
  cardinality a = 18 /\ iter b = [-2; 3; 4; 5] ++ rangeZ 25 41 /\
  ranges_eqb a (ctor [IRange 1 3; IRange 20 30; IRange 5 8]) = true /\ ranges_eqb a b = false /\
  bisect_bs 10 21 a = Ok 3%nat /\
  (* the laws, on these sets: both sides compute to the same ranges *)
  symmetric_difference 13 a b = difference 13 (union a b) [(3, 3); (5, 5); (25, 30)] /\
  difference 13 a (union b [(7, 22)]) = intersection 13 [(1, 2); (6, 8); (20, 24)] [(1, 3); (5, 6); (23, 30)] /\
  difference 13 a [(7, 22)] = Ok [(1, 3); (5, 6); (23, 30)] /\
  intersection 10 a b = difference 10 a [(1, 2); (6, 8); (20, 24)].
Proof. vm_compute. repeat split. Qed.
