(* Props/C21.v — property C21 (PARTIAL): WebAssembly modules round-trip through the binary form.
   Only statements, [exact] of a lemma from Proofs/, and Print Assumptions.
   Model.WasmBin (hand model of ppci/wasm/binary/writer.py + reader.py, tie H) runs over the tables
   of Gen.Tab_wasm_opcodes, regenerated from /repo on every run (tie I): OPCODES / REVERZ /
   OPERANDS, the wfm/rfm dispatch tables, LANG_TYPES, SECTION_IDS.  The text form is NOT modelled
   (validated by round trip in the check).  [rt w r a] = the writer succeeds with some bytes bb and
   the reader returns (a, rest) from bb ++ rest for every rest. *)
From PV Require Import Lib.Py Model.WasmTypes Gen.Tab_wasm_opcodes Gen.Tab_wasm_text Model.WasmBin Model.WasmCanon Model.WasmText Model.WasmTextDefs Model.WasmBinVal Spec.WasmOpcodeSpec Spec.WasmAlignSpec
  Proofs.C21_leb Proofs.C21_instr Proofs.C21_defs Proofs.C21_module Proofs.C21_spec Proofs.C21_canon Proofs.C21_text Proofs.C21_textdefs Proofs.C21_align.
From Coq Require Import String Ascii.
Local Open Scope string_scope.
Local Open Scope list_scope.
Open Scope Z_scope.

(* ---- LEB128 (self-contained; all values, all lengths) ---- *)
Theorem c21_leb_roundtrip_unsigned : forall n fuel v, (S n <= fuel)%nat -> 0 <= v < 128 ^ Z.of_nat (S n) ->
  exists bb, uleb_enc fuel v = Ok bb /\ (List.length bb <= S n)%nat /\
             forall rest, unsigned_leb128_decode (bb ++ rest) = Ok (v, rest).
Proof. exact uleb_rt. Qed.
Print Assumptions c21_leb_roundtrip_unsigned.

Theorem c21_leb_roundtrip_signed : forall n fuel v, (S n <= fuel)%nat ->
  - (64 * 128 ^ Z.of_nat n) <= v < 64 * 128 ^ Z.of_nat n ->
  exists bb, signed_leb128_encode fuel v = Ok bb /\ (List.length bb <= S n)%nat /\
             forall rest, signed_leb128_decode (bb ++ rest) = Ok (v, rest).
Proof. exact sleb_rt. Qed.
Print Assumptions c21_leb_roundtrip_signed.

(* ---- immediates: one statement for every operand kind, through the exported wfm/rfm ---- *)
Theorem c21_immediate_roundtrip : forall eff k a, wf_arg eff k a = true ->
  rt (write_arg eff k a) (read_arg eff k) a.
Proof. exact write_arg_rt. Qed.
Print Assumptions c21_immediate_roundtrip.

(* ---- the exported opcode table is self-consistent (reflection over all its entries) ---- *)
Theorem c21_table_consistent : forallb table_ok (map fst opcodes) = true.
Proof. exact table_consistent. Qed.
Print Assumptions c21_table_consistent.

(* ---- every instruction of the table, every valid immediate list ---- *)
Theorem c21_instr_roundtrip : forall op args, In op (map fst opcodes) -> args_ok op args = true ->
  rt (write_instruction (Instr op args)) read_instruction (Instr op args).
Proof. exact instr_roundtrip_table. Qed.
Print Assumptions c21_instr_roundtrip.

(* ---- expressions: instruction lists with arbitrarily nested block/loop/if ... end ---- *)
Theorem c21_expr_roundtrip : forall l, wf_expr l = true -> rt (write_expression l) read_expression l.
Proof. exact write_expression_rt. Qed.
Print Assumptions c21_expr_roundtrip.

(* ---- definitions: type, import, table, memory, global, export, start, elem, data, datacount ---- *)
Theorem c21_definition_roundtrip : forall d, wf_defn d = true ->
  match d with DFunc _ _ _ | DCustom _ _ => True | _ => rt (write_definition d) (reader_of d) d end.
Proof. exact defn_rt. Qed.
Print Assumptions c21_definition_roundtrip.

(* function bodies (size-prefixed, run-length compressed locals); the type reference travels in
   the function section, here the table [t4f] *)
Theorem c21_func_roundtrip : forall r locals instructions,
  wf_defn (DFunc r locals instructions) = true ->
  forall b, write_definition (DFunc r locals instructions) = Ok b ->
  forall t4f index rest, nth_error t4f index = Some (snd r) ->
  read_func_definition t4f index (b ++ rest) = Ok (DFunc r locals instructions, rest).
Proof. exact defn_func_sound. Qed.
Print Assumptions c21_func_roundtrip.

(* ---- sections ---- *)
Theorem c21_section_roundtrip_plain : forall name id, In (name, id) plain_sections ->
  forall defs s, wf_module defs = true -> write_section defs name id = Ok s ->
  forall f st rest, (0 < f)%nat ->
    exists f', (f <= S f')%nat /\
      read_sections f st (s ++ rest) = read_sections f' (add_defs st (filter (has_name name) defs)) rest.
Proof. exact section_roundtrip. Qed.
Print Assumptions c21_section_roundtrip_plain.

Theorem c21_section_roundtrip_function_code : forall defs s3 s10,
  wf_module defs = true ->
  write_section defs "function" 3 = Ok s3 -> write_section defs "func" 10 = Ok s10 ->
  forall f defs0 rest, (1 < f)%nat ->
    exists f', (f <= S (S f'))%nat /\
      read_sections f (RState [] defs0) (s3 ++ s10 ++ rest) =
      read_sections f' (RState (map tref (filter (has_name "func") defs))
                               (defs0 ++ filter (has_name "func") defs)) rest.
Proof. exact function_code_roundtrip. Qed.
Print Assumptions c21_section_roundtrip_function_code.

Theorem c21_section_roundtrip_custom : forall defs s,
  wf_module defs = true -> write_section defs "custom" 0 = Ok s ->
  forall f st rest, (List.length (filter (has_name "custom") defs) < f)%nat ->
    read_sections f st (s ++ rest) =
    read_sections (f - List.length (filter (has_name "custom") defs))
                  (add_defs st (filter (has_name "custom") defs)) rest.
Proof. exact custom_roundtrip. Qed.
Print Assumptions c21_section_roundtrip_custom.

(* ---- whole modules: whenever the writer succeeds on a well-formed module the reader returns
   its definitions grouped in section order ---- *)
Theorem c21_module_roundtrip : forall defs bs fuel,
  wf_module defs = true -> write_module defs = Ok bs ->
  (List.length defs + 14 < fuel)%nat ->
  read_module fuel bs = Ok (canonical_order defs).
Proof. exact module_roundtrip. Qed.
Print Assumptions c21_module_roundtrip.


(* ---- the other direction: canonical bytes are reproduced byte for byte ----
   Model.WasmCanon is a strict recognizer of the canonical encoding: minimal LEB128 (at most 5/10
   bytes), flag bytes in writer form, select 0x1C only with result types, run-length grouped locals,
   every section at most once / non-empty / in the writer's order / exactly sized, nothing after the
   last section.  [repro w r]: what [r] accepts is exactly what [w] writes. *)
Theorem c21_canonical_leb_unsigned : forall bs v rest, suleb bs = Ok (v, rest) ->
  exists pre, bs = pre ++ rest /\ 0 <= v /\ (1 <= List.length pre)%nat /\
    forall fuel, (List.length pre <= fuel)%nat -> uleb_enc fuel v = Ok pre.
Proof. exact suleb_repro. Qed.
Print Assumptions c21_canonical_leb_unsigned.

Theorem c21_canonical_leb_signed : forall bs v rest, ssleb bs = Ok (v, rest) ->
  exists pre, bs = pre ++ rest /\ (1 <= List.length pre)%nat /\
    forall fuel, (List.length pre <= fuel)%nat -> signed_leb128_encode fuel v = Ok pre.
Proof. exact ssleb_repro. Qed.
Print Assumptions c21_canonical_leb_signed.

Theorem c21_canonical_immediate : forall key k, repro (write_arg key k) (s_arg key k).
Proof. exact s_arg_repro. Qed.
Print Assumptions c21_canonical_immediate.

Theorem c21_canonical_instr : repro write_instruction s_instr.
Proof. exact s_instr_repro. Qed.
Print Assumptions c21_canonical_instr.

Theorem c21_canonical_expr : repro write_expression s_expr.
Proof. exact s_expr_repro. Qed.
Print Assumptions c21_canonical_expr.

Theorem c21_canonical_func : forall t bs d rest, s_func_def t bs = Ok (d, rest) ->
  exists pre, bs = pre ++ rest /\ write_definition d = Ok pre /\ tref d = t /\ has_name "func" d = true.
Proof. exact s_func_def_repro. Qed.
Print Assumptions c21_canonical_func.

Theorem c21_canonical_section : forall m name id rd bs l rest,
  u7 id = true -> repro write_definition rd ->
  write_section m name id = std_write m name id ->
  filter (has_name name) m = l ->
  s_section id (s_defs name rd) bs = Ok (l, rest) ->
  exists pre, bs = pre ++ rest /\ write_section m name id = Ok pre.
Proof. exact std_section_canon. Qed.
Print Assumptions c21_canonical_section.

Theorem c21_canonical_module : forall bs m, s_module bs = Ok m ->
  write_module m = Ok bs /\ canonical_order m = m.
Proof. exact s_module_repro. Qed.
Print Assumptions c21_canonical_module.

(* [canonical fuel bs] is a boolean: the strict recognizer accepts bs, the recognised definitions are
   well-formed, and fuel exceeds their number + 14 *)
Theorem c21_canonical_bytes : forall fuel bs m,
  canonical fuel bs = true -> read_module fuel bs = Ok m -> write_module m = Ok bs.
Proof. exact canonical_bytes. Qed.
Print Assumptions c21_canonical_bytes.

Theorem c21_canonical_reads : forall fuel bs, canonical fuel bs = true ->
  exists m, read_module fuel bs = Ok m /\ s_module bs = Ok m.
Proof. exact canonical_reads. Qed.
Print Assumptions c21_canonical_reads.

(* ---- the table agrees with the independent reference table of the specification ---- *)
Theorem c21_opcodes_match_spec :
  forallb spec_entry_ok spec_opcodes && select_ok && forallb plain_bytes_ok spec_opcodes = true.
Proof. exact opcodes_match_spec. Qed.
Print Assumptions c21_opcodes_match_spec.

(* ---- defects of the unfixed code, stated so that they stay true after the repair ---- *)
(* the datacount section is written unsigned and read SIGNED: 64 comes back as -64 *)
Theorem c21_datacount_signed_reader_refuted : datacount_reader = RInt ->
  exists n bs, 0 <= n < 2 ^ 32 /\ write_definition (DDataCount n) = Ok bs /\
               read_data_count_definition bs = Ok (DDataCount (n - 128), []).
Proof.
  intros H. exists 64, [64]. split; [lia|]. split; [reflexivity|].
  unfold read_data_count_definition. rewrite H. reflexivity.
Qed.
Print Assumptions c21_datacount_signed_reader_refuted.

(* LANG_TYPES["externref"] is the two bytes 0x06 'F': the reader consumes only the first *)
Theorem c21_externref_two_bytes_refuted :
  assoc String.eqb lang_types "externref" = Some [6; 70] ->
  assoc Z.eqb lang_types_reverse 6 = Some "externref" ->
  exists bs rest, write_type "externref" = Ok bs /\ read_type bs = Ok ("externref", rest) /\ rest <> [].
Proof.
  intros H1 H2. exists [6; 70], [70]. unfold write_type, read_type. rewrite H1. cbn [read_byte bind].
  rewrite H2. repeat split; discriminate.
Qed.
Print Assumptions c21_externref_two_bytes_refuted.

(* ---- non-vacuity: a module with every section kind, nested blocks, br_table, memargs, extreme
   constants satisfies the hypotheses, and the round trip computes ---- *)
Definition example_module : list defn := [
  DCustom [110; 97; 109; 101] [1; 2; 3];
  DType ["i32"; "i64"] ["f64"];
  DImport [101; 110; 118] [102] (IFunc ("type", 0));
  DImport [101; 110; 118] [109] (IMemory 1 (Some 65536));
  DTable "funcref" 2 None;
  DMemory 1 (Some 2);
  DGlobal "i64" true [Instr "i64.const" [AInt (-1)]];
  DExport [109; 97; 105; 110] "func" ("func", 1);
  DStart ("func", 1);
  DElem ("table", 0) [Instr "i32.const" [AInt 0]] [("func", 0); ("func", 1)];
  DFunc ("type", 0) ["i32"; "i32"; "f64"; "i32"]
    [Instr "block" [AStr "emptyblock"];
       Instr "loop" [AStr "i32"];
         Instr "local.get" [ARef "local" 0];
         Instr "if" [AStr "f64"];
           Instr "f64.const" [AFloat [0; 0; 0; 0; 0; 0; 248; 127]];
         Instr "else" [];
           Instr "f64.const" [AFloat [24; 45; 68; 84; 251; 33; 9; 64]];
         Instr "end" [];
         Instr "drop" [];
         Instr "i32.const" [AInt 1];
         Instr "br_table" [ARefs [("label", 0); ("label", 1); ("label", 0)]];
       Instr "end" [];
       Instr "drop" [];
     Instr "end" [];
     Instr "i64.const" [AInt (-9223372036854775808)];
     Instr "i64.const" [AInt 9223372036854775807];
     Instr "i32.const" [AInt (-2147483648)];
     Instr "f32.const" [AFloat [0; 0; 192; 127]];
     Instr "i32.load" [AInt 2; AInt 4294967295];
     Instr "i64.store8" [AInt 0; AInt 16];
     Instr "call_indirect" [ARef "type" 0; ARef "table" 0];
     Instr "memory.grow" [AInt 0];
     Instr "select" [AStrs []];
     Instr "select" [AStrs ["i32"]];
     Instr "i32.trunc_sat_f64_u" [];
     Instr "memory.copy" [AInt 0; AInt 0]];
  DData (Some (("memory", 0), [Instr "i32.const" [AInt 8]])) [1; 2; 255];
  DData None [7];
  DData (Some (("memory", 1), [Instr "global.get" [ARef "global" 0]])) [];
  DDataCount 3
].

Example c21_nonvacuous :
  wf_module example_module = true /\
  canonical_order example_module = example_module /\
  (exists bs, write_module example_module = Ok bs /\ List.length bs = 229%nat /\
              read_module 40 bs = Ok example_module) /\
  args_ok "br_table" [ARefs [("label", 3)]] = true /\
  Nat.leb 400 (List.length (filter (fun op => match assoc String.eqb operands op with
                                 | Some ks => forallb (fun k => wf_arg (0, None) k
                                     match k with KBrTable => ARefs [("label", 0)] | KResultTypes => AStrs []
                                     | KType => AStr "i32" | KF32 => AFloat [0; 0; 0; 0]
                                     | KF64 => AFloat [0; 0; 0; 0; 0; 0; 0; 0]
                                     | KLabelIdx => ARef "label" 0 | KLocalIdx => ARef "local" 0
                                     | KGlobalIdx => ARef "global" 0 | KFuncIdx => ARef "func" 0
                                     | KTypeIdx => ARef "type" 0 | KTableIdx => ARef "table" 0
                                     | _ => AInt 0 end) ks
                                 | None => false end) (map fst opcodes))) = true.
Proof.
  split; [vm_compute; reflexivity|]. split; [vm_compute; reflexivity|].
  split; [|split; vm_compute; reflexivity].
  destruct (write_module example_module) as [bs| | |] eqn:E; try (vm_compute in E; discriminate E).
  exists bs. split; [reflexivity|]. split.
  - vm_compute in E. injection E as <-. reflexivity.
  - apply c21_module_roundtrip with (fuel := 40%nat) in E; [|vm_compute; reflexivity|cbn; lia].
    rewrite E. vm_compute. reflexivity.
Qed.

(* non-vacuity of [canonical]: the writer's bytes for the example module are canonical; the same
   module with its first section size written as a padded LEB (0x88 0x00 instead of 0x08) is still
   accepted by the reader, reads to the same module, but is NOT canonical *)
Example c21_canonical_nonvacuous :
  (exists bs, write_module example_module = Ok bs /\ canonical 40 bs = true) /\
  (let padded := [0; 97; 115; 109; 1; 0; 0; 0; 0; 136; 0; 4; 110; 97; 109; 101; 1; 2; 3; 1; 4; 1; 96; 0; 0] in
   read_module 40 padded = Ok [DCustom [110; 97; 109; 101] [1; 2; 3]; DType [] []] /\
   canonical 40 padded = false /\
   canonical 40 [0; 97; 115; 109; 1; 0; 0; 0; 0; 8; 4; 110; 97; 109; 101; 1; 2; 3; 1; 4; 1; 96; 0; 0] = true).
Proof.
  split.
  - destruct (write_module example_module) as [bs| | |] eqn:E; try (vm_compute in E; discriminate E).
    exists bs. split; [reflexivity|]. vm_compute in E. injection E as <-. vm_compute. reflexivity.
  - vm_compute. repeat split.
Qed.

(* ================= text form, instruction level (Model.WasmText; tie H) =================
   [print_instr]: TextWriter.write_instruction / write_block_instruction as lexical pieces;
   [lex]: the lexer's conversion of numeric words; [parse_instr]: WatParser._load_instruction
   restricted to the writer's output.  [fs] = Python's float spelling (repr) and float(), a
   parameter: a float constant is in scope when [float_ok fs raw] (its spelling reads back).
   [wf_text] lists the proved classes: block/loop/if with block type, every mnemonic whose operands
   are indices, i32/i64 (two's-complement range), f32/f64, u32, and u8 (memory / lane index) once the
   parser consumes it ([text_u8_consumes], probed on the implementation); load/store with offset=/
   align= keywords; br_table; memory.size/grow; call_indirect (any table once it is printed
   table-first, [text_ci_table_first]); select with result types.  With the two repairs applied
   [wf_text] has no exception left among the instructions the binary codec supports, except the
   v128 lane loads/stores (three operands), which the text model does not cover. *)
Theorem c21_text_decimal : forall z, undec (dec z) = Some z /\ lex_word (dec z) = TInt z.
Proof. intros z. split; [apply undec_dec|apply lex_dec]. Qed.
Print Assumptions c21_text_decimal.

Theorem c21_text_instr_roundtrip : forall fs i ps rest,
  wf_text fs i = true -> print_instr fs i = Ok ps -> safe_next rest = true ->
  parse_instr fs (lex ps ++ rest) = Ok (i, rest).
Proof. exact text_instr_rt. Qed.
Print Assumptions c21_text_instr_roundtrip.

(* function bodies: flat instruction lists with nested block/loop/if ... else ... end and numeric labels *)
Theorem c21_text_body_roundtrip : forall fs l ps fuel,
  forallb (wf_text fs) l = true -> print_instrs fs l = Ok ps -> (List.length l < fuel)%nat ->
  parse_instrs fs fuel (lex ps) = Ok l.
Proof. exact text_body_rt. Qed.
Print Assumptions c21_text_body_roundtrip.

(* refuted rows (defects of the text form, re-executed on the implementation by the check) *)
Theorem c21_text_u8_operand_refuted : forall fs, text_u8_consumes = false ->
  exists ps, print_instr fs (Instr "memory.fill" [AInt 0]) = Ok ps /\
             parse_instr fs (lex ps) = Ok (Instr "memory.fill" [AInt 0], [TInt 0]).
Proof. exact text_u8_operand_refuted. Qed.
Print Assumptions c21_text_u8_operand_refuted.

Theorem c21_text_call_indirect_table_refuted : forall fs, text_ci_table_first = false ->
  exists ps, print_instr fs (Instr "call_indirect" [ARef "type" 0; ARef "table" 1]) = Ok ps /\
             parse_instrs fs 10 (lex ps) = Diag 12.
Proof. exact text_call_indirect_table_refuted. Qed.
Print Assumptions c21_text_call_indirect_table_refuted.

Theorem c21_text_same_spelling_refuted : forall fs r1 r2, r1 <> r2 -> len r1 = len r2 ->
  (if len r1 =? 4 then repr32 fs r1 = repr32 fs r2 else repr64 fs r1 = repr64 fs r2) ->
  ~ (float_ok fs r1 = true /\ float_ok fs r2 = true).
Proof. exact text_same_spelling_refuted. Qed.
Print Assumptions c21_text_same_spelling_refuted.

(* non-vacuity with a toy float spelling ("f" followed by the hexadecimal bytes) *)
Definition toy_fs : fspell :=
  let rp (raw : bytes) := String "f"%char (hex_of_bytes raw) in
  let ps s := match s with String _ h => Some (bytes_of_hex h) | EmptyString => None end in
  Build_fspell rp ps rp ps.

Definition text_example : list instr := [
  Instr "block" [AStr "emptyblock"];
    Instr "loop" [AStr "i32"];
      Instr "local.get" [ARef "local" 0];
      Instr "if" [AStr "f64"];
        Instr "f64.const" [AFloat [24; 45; 68; 84; 251; 33; 9; 64]];
      Instr "else" [];
        Instr "f32.const" [AFloat [0; 0; 192; 127]];
      Instr "end" [];
      Instr "i32.const" [AInt (-2147483648)];
      Instr "i64.const" [AInt 9223372036854775807];
      Instr "br_table" [ARefs [("label", 0); ("label", 1); ("label", 0)]];
    Instr "end" [];
    Instr "i32.load" [AInt 2; AInt 0];
    Instr "i64.load8_u" [AInt 0; AInt 4294967295];
    Instr "i32.store16" [AInt 0; AInt 16];
    Instr "call_indirect" [ARef "type" 3; ARef "table" 0];
    Instr "select" [AStrs ["i32"]];
    Instr "select" [AStrs []];
    Instr "memory.grow" [AInt 0];
    Instr "table.copy" [ARef "table" 0; ARef "table" 1];
    Instr "br_table" [ARefs (repeat ("label", 1234567) 12)];
  Instr "end" []
].

Example c21_text_nonvacuous :
  forallb (wf_text toy_fs) text_example = true /\
  (exists ps, print_instrs toy_fs text_example = Ok ps /\ List.length ps = 65%nat /\
              parse_instrs toy_fs 40 (lex ps) = Ok text_example).
Proof.
  split; [vm_compute; reflexivity|].
  destruct (print_instrs toy_fs text_example) as [ps| | |] eqn:E; try (vm_compute in E; discriminate E).
  exists ps. split; [reflexivity|]. split.
  - vm_compute in E. injection E as <-. reflexivity.
  - apply (c21_text_body_roundtrip toy_fs text_example ps 40%nat); [vm_compute; reflexivity|exact E|cbn; lia].
Qed.

(* ================= text form, definition level (Model.WasmTextDefs; tie H) =================
   memory, table, global and func definitions as the writer prints them for a module read from binary
   (ids are comments, numeric references, one anonymous (local ...) group); the parser's functions
   restricted to that output; since wave 4 also type, start and elem (table 0) definitions and the
   (module ...) loop.  Not covered (validation only): import, export and data definitions (string
   tokens / data-string escaping are not in the token model), elem on a table other than 0, the
   S-expression lexer's chunking, symbolic identifiers and abbreviations; the parser's final
   regrouping by section (gather_definitions) is the identity on a module read from binary. *)
Theorem c21_text_instr_list_roundtrip : forall fs l ps fuel tail,
  forallb (wf_text fs) l = true -> print_instrs fs l = Ok ps -> (List.length l < fuel)%nat ->
  at_instruction tail = false -> safe_next tail = true ->
  parse_instr_list fs fuel (lex ps ++ tail) = Ok (l, tail).
Proof. exact instr_list_rt. Qed.
Print Assumptions c21_text_instr_list_roundtrip.

Theorem c21_text_def_roundtrip : forall fs d ps rest,
  wf_text_def fs d = true -> print_def fs d = Ok ps ->
  parse_def fs (lex ps ++ rest) = Ok (d, rest).
Proof. exact text_def_rt. Qed.
Print Assumptions c21_text_def_roundtrip.

Example c21_text_def_nonvacuous :
  let f := DFunc ("type", 1) ["i32"; "f64"] text_example in
  let g := DGlobal "i64" true [Instr "i64.const" [AInt (-1)]] in
  forallb (wf_text_def toy_fs) [f; g; DMemory 1 (Some 2); DTable "funcref" 2 None] = true /\
  (exists ps, print_def toy_fs f = Ok ps /\ parse_def toy_fs (lex ps) = Ok (f, [])).
Proof.
  split; [vm_compute; reflexivity|].
  destruct (print_def toy_fs (DFunc ("type", 1) ["i32"; "f64"] text_example)) as [ps| | |] eqn:E;
    try (vm_compute in E; discriminate E).
  exists ps. split; [reflexivity|].
  rewrite <- (app_nil_r (lex ps)). apply c21_text_def_roundtrip; [vm_compute; reflexivity|exact E].
Qed.

(* definition lists and whole modules made of type, table, memory, global, start, elem and func definitions *)
Theorem c21_text_defs_roundtrip : forall fs l ps fuel rest,
  forallb (wf_text_def fs) l = true -> print_defs fs l = Ok ps -> (List.length l < fuel)%nat ->
  parse_defs fs fuel (lex ps ++ TRpar :: rest) = Ok (l, TRpar :: rest).
Proof. exact text_defs_rt. Qed.
Print Assumptions c21_text_defs_roundtrip.

Theorem c21_text_module_roundtrip : forall fs l ps,
  forallb (wf_text_def fs) l = true -> print_module fs l = Ok ps ->
  parse_module_text fs (lex ps) = Ok l.
Proof. exact text_module_rt. Qed.
Print Assumptions c21_text_module_roundtrip.

Example c21_text_module_nonvacuous :
  let m := [DType ["i32"; "i64"] ["f64"]; DType [] []; DTable "funcref" 2 (Some 8); DMemory 1 None;
            DGlobal "i64" true [Instr "i64.const" [AInt (-1)]]; DStart ("func", 0);
            DElem ("table", 0) [Instr "i32.const" [AInt 1]] [("func", 0); ("func", 0)];
            DFunc ("type", 1) ["i32"; "f64"] text_example] in
  forallb (wf_text_def toy_fs) m = true /\
  (exists ps, print_module toy_fs m = Ok ps /\ parse_module_text toy_fs (lex ps) = Ok m).
Proof.
  cbv zeta. split; [vm_compute; reflexivity|].
  match goal with |- exists ps, print_module ?f ?m = _ /\ _ =>
    destruct (print_module f m) as [ps| | |] eqn:E; try (vm_compute in E; discriminate E);
    exists ps; split; [reflexivity|]; apply (c21_text_module_roundtrip f m ps); [vm_compute; reflexivity|exact E]
  end.
Qed.

(* the default (omitted "align=") alignments of the text writer/parser, exported into [text_mem] by calling
   default_alignment, are the natural alignments derived from the access widths of Spec/WasmAlignSpec.v;
   a differing row appears by name in the error of this proof *)
Theorem c21_text_default_align_table : bad_align_rows = [] /\ unknown_mem_rows = [].
Proof. exact default_align_table. Qed.
Print Assumptions c21_text_default_align_table.
