(* Props/C25_bounded.v — property C25, bounded theorems by exhaustive vm_compute (bound in every
   statement).  Kept apart from Props/C25.v so that the independent checker coqchk (thorough tier)
   re-checks the unbounded theorems within the tier budget; this file is checked by coqc in every tier. *)
From PV Require Import Lib.Py.
From PV Require Import Spec.CfgSpec Model.DomRef Model.DomTree Model.LengauerTarjan.
From PV Require Import Proofs.C25_bounded Proofs.C25_lt.
Close Scope Z_scope.
Open Scope nat_scope.

(* ---- bounded: every graph with 1..4 nodes (all 2^(n*n) edge relations), entry 0 *)
Theorem c25_dominates_bounded : forall n g, 1 <= n <= 4 -> In g (all_graphs n) ->
  exists iv, tree_intervals g 0 (idom_list g 0) = Ok iv /\
    query_rows below_or_same (length g) iv = dom_rows g 0 /\
    query_rows below (length g) iv = sdom_rows g 0.
Proof. exact dominates_bounded. Qed.
Print Assumptions c25_dominates_bounded.

Theorem c25_df_cytron_bounded : forall n g, 1 <= n <= 4 -> In g (all_graphs n) ->
  exists l, df_by_node g 0 (idom_list g 0) = Ok l /\
    forall x, x < length g ->
      (reachable_ref g 0 x = true -> nth x l None = Some (nth x (df_list g 0) [])) /\
      (reachable_ref g 0 x = false -> nth x l None = None).
Proof. exact df_bounded. Qed.
Print Assumptions c25_df_cytron_bounded.

Theorem c25_pdom_fixpoint_bounded : forall n g x, 1 <= n <= 4 -> In g (all_graphs n) ->
  x < length g -> succs g x = [] ->
  post_dominators (length g * length g + 2) g x = Ok (pdom_rows g x).
Proof. exact pdom_bounded. Qed.
Print Assumptions c25_pdom_fixpoint_bounded.

Theorem c25_reach_fixpoint_bounded : forall n g, 1 <= n <= 4 -> In g (all_graphs n) ->
  calculate_reach (length g * length g + 2) g = Ok (reach_rows g).
Proof. exact reach_bounded. Qed.
Print Assumptions c25_reach_fixpoint_bounded.




(* ---- Lengauer-Tarjan (model of lt.py): every graph with 1..4 nodes, entry 0, two iteration orders
        of the successor/predecessor sets; outside the code's domain the model raises KeyError *)
Theorem c25_lt_bounded : forall n g, 1 <= n <= 4 -> In g (all_graphs n) ->
  lt_idom g (preds_of g) 0 = (if lt_domain g 0 then Ok (idom_list g 0) else Internal KeyError) /\
  lt_idom (map (@rev nat) g) (map (@rev nat) (preds_of g)) 0 =
    (if lt_domain g 0 then Ok (idom_list g 0) else Internal KeyError).
Proof. exact lt_bounded. Qed.
Print Assumptions c25_lt_bounded.

