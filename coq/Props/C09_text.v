(* Props/C09_text.v — C09, text level: the assembler's lexer and number parsing inside the model.
   Model/AsmLexer.v: lexer (AsmLexer.tok_spec + make_num), print_number (str(int)), render_text (Syntax.render).
   The correspondence of the model lexer with the real AsmLexer is validated per run (printed forms + near-miss pool). *)
From PV Require Import Lib.Py Model.AsmSyntax Model.AsmLexer Model.AsmReloc.
From PV Require Import Proofs.C09_syntax Proofs.C09_tables Proofs.C09_lexer Proofs.C09_reloc Proofs.C09_text_tables.
From PV Require Import Gen.Tab_syntax_riscv.
From PV Require Import Gen.Tab_syntax_riscv_rvc.
From PV Require Import Gen.Tab_syntax_arm.
From PV Require Import Gen.Tab_syntax_thumb.
From PV Require Import Gen.Tab_syntax_x86_64.
From PV Require Import Gen.Tab_syntax_msp430.
From PV Require Import Gen.Tab_syntax_avr.
From PV Require Import Gen.Tab_syntax_m68k.
From PV Require Import Gen.Tab_syntax_mips.
From PV Require Import Gen.Tab_syntax_or1k.
From PV Require Import Gen.Tab_syntax_xtensa.
From PV Require Import Gen.Tab_syntax_microblaze.
From Coq Require Import String.
Open Scope Z_scope.

(* the lexer splits the printed text of a syntax into exactly the tokens of the token-level render: literals and
   register names that are identifiers, single-character glyphs, integers of any size and sign, identifier labels;
   no two word/number elements adjacent, no "%" or "." directly before a number, no "." directly after one *)
Theorem c09_lex_render : forall regs syn ops txt toks,
  forallb (text_atom_ok regs) syn = true -> glue_ok syn = true -> ops_text_ok ops = true ->
  render_text regs syn ops = Some txt -> render regs syn ops = Some toks -> lex txt = Some toks.
Proof. exact lex_render. Qed.
Print Assumptions c09_lex_render.

(* str(z) read back as NUMBER | - NUMBER gives z, for every integer (decimal is the only format any ISA prints) *)
Theorem c09_int_text_roundtrip : forall z, parse_number (print_number z) = Some z.
Proof. exact int_text_roundtrip. Qed.
Print Assumptions c09_int_text_roundtrip.

(* from TEXT: for a class variant in no ambiguous pair, lexing str(ins) and trying every production of the grammar
   yields exactly one reading, the variant itself with the original operands *)
Theorem c09_text_roundtrip : forall kwl kws regs stab extra nonwf amb,
  table_facts kws regs stab extra nonwf amb -> forallb (text_entry_ok regs) stab = true ->
  forall i ops, (i < List.length stab)%nat -> in_pairs i amb = false ->
  ops_ok kws regs (s_rule (entry_at stab i)) ops = true ->
  exists txt, render_text regs (s_syn (entry_at stab i)) ops = Some txt /\
              parse_model kwl kws regs (stab ++ extra) txt = Some [(i, ops)].
Proof. exact text_roundtrip. Qed.
Print Assumptions c09_text_roundtrip.

(* per ISA (one conjunct each, in the order riscv, riscv+rvc, arm, thumb, x86_64, msp430, avr, m68k, mips, or1k, xtensa,
   microblaze): from the printed TEXT of a non-ambiguous class variant to exactly (that variant, its operands) *)
Theorem c09_text_roundtrip_all :
  (forall i ops,
    (i < List.length stab_riscv)%nat -> in_pairs i ambiguous_riscv = false ->
    ops_ok kws_riscv regs_riscv (s_rule (entry_at stab_riscv i)) ops = true ->
    exists txt, render_text regs_riscv (s_syn (entry_at stab_riscv i)) ops = Some txt /\
                parse_model kwlabel_lower_riscv kws_riscv regs_riscv (stab_riscv ++ extra_riscv) txt = Some [(i, ops)]) /\
  (forall i ops,
    (i < List.length stab_riscv_rvc)%nat -> in_pairs i ambiguous_riscv_rvc = false ->
    ops_ok kws_riscv_rvc regs_riscv_rvc (s_rule (entry_at stab_riscv_rvc i)) ops = true ->
    exists txt, render_text regs_riscv_rvc (s_syn (entry_at stab_riscv_rvc i)) ops = Some txt /\
                parse_model kwlabel_lower_riscv_rvc kws_riscv_rvc regs_riscv_rvc (stab_riscv_rvc ++ extra_riscv_rvc) txt = Some [(i, ops)]) /\
  (forall i ops,
    (i < List.length stab_arm)%nat -> in_pairs i ambiguous_arm = false ->
    ops_ok kws_arm regs_arm (s_rule (entry_at stab_arm i)) ops = true ->
    exists txt, render_text regs_arm (s_syn (entry_at stab_arm i)) ops = Some txt /\
                parse_model kwlabel_lower_arm kws_arm regs_arm (stab_arm ++ extra_arm) txt = Some [(i, ops)]) /\
  (forall i ops,
    (i < List.length stab_thumb)%nat -> in_pairs i ambiguous_thumb = false ->
    ops_ok kws_thumb regs_thumb (s_rule (entry_at stab_thumb i)) ops = true ->
    exists txt, render_text regs_thumb (s_syn (entry_at stab_thumb i)) ops = Some txt /\
                parse_model kwlabel_lower_thumb kws_thumb regs_thumb (stab_thumb ++ extra_thumb) txt = Some [(i, ops)]) /\
  (forall i ops,
    (i < List.length stab_x86_64)%nat -> in_pairs i ambiguous_x86_64 = false ->
    ops_ok kws_x86_64 regs_x86_64 (s_rule (entry_at stab_x86_64 i)) ops = true ->
    exists txt, render_text regs_x86_64 (s_syn (entry_at stab_x86_64 i)) ops = Some txt /\
                parse_model kwlabel_lower_x86_64 kws_x86_64 regs_x86_64 (stab_x86_64 ++ extra_x86_64) txt = Some [(i, ops)]) /\
  (forall i ops,
    (i < List.length stab_msp430)%nat -> in_pairs i ambiguous_msp430 = false ->
    ops_ok kws_msp430 regs_msp430 (s_rule (entry_at stab_msp430 i)) ops = true ->
    exists txt, render_text regs_msp430 (s_syn (entry_at stab_msp430 i)) ops = Some txt /\
                parse_model kwlabel_lower_msp430 kws_msp430 regs_msp430 (stab_msp430 ++ extra_msp430) txt = Some [(i, ops)]) /\
  (forall i ops,
    (i < List.length stab_avr)%nat -> in_pairs i ambiguous_avr = false ->
    ops_ok kws_avr regs_avr (s_rule (entry_at stab_avr i)) ops = true ->
    exists txt, render_text regs_avr (s_syn (entry_at stab_avr i)) ops = Some txt /\
                parse_model kwlabel_lower_avr kws_avr regs_avr (stab_avr ++ extra_avr) txt = Some [(i, ops)]) /\
  (forall i ops,
    (i < List.length stab_m68k)%nat -> in_pairs i ambiguous_m68k = false ->
    ops_ok kws_m68k regs_m68k (s_rule (entry_at stab_m68k i)) ops = true ->
    exists txt, render_text regs_m68k (s_syn (entry_at stab_m68k i)) ops = Some txt /\
                parse_model kwlabel_lower_m68k kws_m68k regs_m68k (stab_m68k ++ extra_m68k) txt = Some [(i, ops)]) /\
  (forall i ops,
    (i < List.length stab_mips)%nat -> in_pairs i ambiguous_mips = false ->
    ops_ok kws_mips regs_mips (s_rule (entry_at stab_mips i)) ops = true ->
    exists txt, render_text regs_mips (s_syn (entry_at stab_mips i)) ops = Some txt /\
                parse_model kwlabel_lower_mips kws_mips regs_mips (stab_mips ++ extra_mips) txt = Some [(i, ops)]) /\
  (forall i ops,
    (i < List.length stab_or1k)%nat -> in_pairs i ambiguous_or1k = false ->
    ops_ok kws_or1k regs_or1k (s_rule (entry_at stab_or1k i)) ops = true ->
    exists txt, render_text regs_or1k (s_syn (entry_at stab_or1k i)) ops = Some txt /\
                parse_model kwlabel_lower_or1k kws_or1k regs_or1k (stab_or1k ++ extra_or1k) txt = Some [(i, ops)]) /\
  (forall i ops,
    (i < List.length stab_xtensa)%nat -> in_pairs i ambiguous_xtensa = false ->
    ops_ok kws_xtensa regs_xtensa (s_rule (entry_at stab_xtensa i)) ops = true ->
    exists txt, render_text regs_xtensa (s_syn (entry_at stab_xtensa i)) ops = Some txt /\
                parse_model kwlabel_lower_xtensa kws_xtensa regs_xtensa (stab_xtensa ++ extra_xtensa) txt = Some [(i, ops)]) /\
  (forall i ops,
    (i < List.length stab_microblaze)%nat -> in_pairs i ambiguous_microblaze = false ->
    ops_ok kws_microblaze regs_microblaze (s_rule (entry_at stab_microblaze i)) ops = true ->
    exists txt, render_text regs_microblaze (s_syn (entry_at stab_microblaze i)) ops = Some txt /\
                parse_model kwlabel_lower_microblaze kws_microblaze regs_microblaze (stab_microblaze ++ extra_microblaze) txt = Some [(i, ops)]).
Proof. repeat split; [exact text_roundtrip_riscv | exact text_roundtrip_riscv_rvc | exact text_roundtrip_arm | exact text_roundtrip_thumb | exact text_roundtrip_x86_64 | exact text_roundtrip_msp430 | exact text_roundtrip_avr | exact text_roundtrip_m68k | exact text_roundtrip_mips | exact text_roundtrip_or1k | exact text_roundtrip_xtensa | exact text_roundtrip_microblaze]. Qed.
Print Assumptions c09_text_roundtrip_all.

(* relocations (model level): the relocation list of the recognised (class variant, operands) is the one of the
   original, for variants in no ambiguous pair; rtab = relocs_<arch> (type, offset, addend, label operand) *)
Theorem c09_reloc_roundtrip : forall kwl kws regs stab extra nonwf amb (rtab : list (nat * list reloc_row)),
  table_facts kws regs stab extra nonwf amb ->
  forall i j ops ops' toks,
  (i < List.length stab)%nat -> (j < List.length (stab ++ extra))%nat ->
  in_pairs i amb = false ->
  ops_ok kws regs (s_rule (entry_at stab i)) ops = true ->
  render regs (s_syn (entry_at stab i)) ops = Some toks ->
  matches kwl kws regs (s_rule (entry_at (stab ++ extra) j)) toks = Some ops' ->
  relocs_of rtab j ops' = relocs_of rtab i ops.
Proof. exact reloc_roundtrip. Qed.
Print Assumptions c09_reloc_roundtrip.

(* per ISA: every exported relocation row belongs to a table entry, is non-empty and refers to a label operand of it *)
Theorem c09_reloc_tables_all :
  reloc_table_ok stab_riscv relocs_riscv = true /\
  reloc_table_ok stab_riscv_rvc relocs_riscv_rvc = true /\
  reloc_table_ok stab_arm relocs_arm = true /\
  reloc_table_ok stab_thumb relocs_thumb = true /\
  reloc_table_ok stab_x86_64 relocs_x86_64 = true /\
  reloc_table_ok stab_msp430 relocs_msp430 = true /\
  reloc_table_ok stab_avr relocs_avr = true /\
  reloc_table_ok stab_m68k relocs_m68k = true /\
  reloc_table_ok stab_mips relocs_mips = true /\
  reloc_table_ok stab_or1k relocs_or1k = true /\
  reloc_table_ok stab_xtensa relocs_xtensa = true /\
  reloc_table_ok stab_microblaze relocs_microblaze = true.
Proof. exact (conj reloc_facts_riscv (conj reloc_facts_riscv_rvc (conj reloc_facts_arm (conj reloc_facts_thumb (conj reloc_facts_x86_64 (conj reloc_facts_msp430 (conj reloc_facts_avr (conj reloc_facts_m68k (conj reloc_facts_mips (conj reloc_facts_or1k (conj reloc_facts_xtensa reloc_facts_microblaze))))))))))). Qed.
Print Assumptions c09_reloc_tables_all.

Example c09_text_nonvacuous :
  lex "add x1, x2, -5"%string = Some [TWord "add"; TWord "x1"; TGlyph ","; TWord "x2"; TGlyph ","; TGlyph "-"; TNum 5] /\
  print_number (-4294967296) = "-4294967296"%string /\ parse_number "007"%string = Some 7 /\
  lex "1.5"%string = None /\ lex "0x1F $1f 0b101 %101"%string = Some [TNum 31; TNum 31; TNum 5; TNum 5].
Proof. vm_compute. repeat split; reflexivity. Qed.
