(* Props/C31.v — property C31: regular-expression automata accept exactly the expression's
   language. Only statements, [exact] of a lemma from Proofs/, and Print Assumptions. *)
From PV Require Import Lib.Py Spec.RegLangSpec Model.Regex.
Open Scope Z_scope.

(* the parser as found: "ab|cd" is parsed as a(b|c)d *)
Theorem c31_parser_orig_shape :
  orig_parse 100 [97; 98; 124; 99; 100] =
  Ok (Cat (Cat (Sym [(97, 97)]) (Sym [(98, 99)])) (Sym [(100, 100)])).
Proof. vm_compute. reflexivity. Qed.
Print Assumptions c31_parser_orig_shape.
