(* Props/C31.v — property C31: regular-expression automata accept exactly the expression's
   language. Only statements, [exact] of a lemma from Proofs/, and Print Assumptions.
   Model.Regex mirrors ppci/lang/tools/regex/{regex,compiler,scanner,parser}.py (tie H);
   L / L_alt are the denotations of Spec/RegLangSpec.v.
   [re_valid r] (Proofs/C31_dfa.v): every range (lo, hi) of every SymbolSet of r has lo <= hi —
   the class invariant of IntegerSet (its constructor filters the others out). *)
From PV Require Import Lib.Py Spec.RegLangSpec Model.Regex.
From PV Require Import Proofs.C31_sets Proofs.C31_regex Proofs.C31_dfa Proofs.C31_parser.
From PV Require Import Proofs.C31_parser_rt Proofs.C31_total Proofs.C31_scan Proofs.C31_term Proofs.C31_fix.
Open Scope Z_scope.

(* nullable() decides membership of the empty word *)
Theorem c31_nullable : forall r, nullable r = true <-> L r [].
Proof. exact nullable_spec. Qed.
Print Assumptions c31_nullable.

(* the smart constructors (with all their simplifications) preserve the language *)
Theorem c31_concatenate : forall a b w, L (concatenate a b) w <-> L (Cat a b) w.
Proof. exact concatenate_L. Qed.
Print Assumptions c31_concatenate.

Theorem c31_logical_or : forall a b w, L (logical_or a b) w <-> L a w \/ L b w.
Proof. exact logical_or_L. Qed.
Print Assumptions c31_logical_or.

Theorem c31_logical_and : forall a b w, L (logical_and a b) w <-> L a w /\ L b w.
Proof. exact logical_and_L. Qed.
Print Assumptions c31_logical_and.

(* derivative(symbol) denotes the left quotient *)
Theorem c31_derivative : forall r c w, L (deriv r c) w <-> L r (c :: w).
Proof. exact deriv_spec. Qed.
Print Assumptions c31_derivative.

(* two symbols of one derivative class have the same derivative (as regex objects) *)
Theorem c31_classes_sound : forall r K a b,
  In K (classes r) -> in_ranges a K -> in_ranges b K -> deriv r a = deriv r b.
Proof. exact classes_sound. Qed.
Print Assumptions c31_classes_sound.

(* the classes cover SIGMA = 0..255 and are pairwise disjoint *)
Theorem c31_classes_partition : forall r,
  (forall c, in_sigma c -> exists K, In K (classes r) /\ in_ranges c K) /\
  ForallOrdPairs (fun K1 K2 => forall c, ~ (in_ranges c K1 /\ in_ranges c K2)) (classes r).
Proof. intros r. split; [exact (classes_cover r)|exact (classes_disjoint r)]. Qed.
Print Assumptions c31_classes_partition.

(* compile() then the table-driven run (pick_transition from state 0, accept_states lookup):
   whenever the run returns, it returns membership in L(r). Every fuel that lets compile finish
   qualifies; c31_nonvacuous shows instances.
   PARTIAL: what is missing is totality of the run for words over SIGMA (pick_transition never
   raises: the sorted transition rows are disjoint and cover 0..255) — c31_classes_partition gives
   the ingredients; the composition is validated by the correspondence only. compile() itself
   does not always terminate (known finding: the regex "a*a*" ), so no fuel bound is claimed. *)
Theorem c31_dfa_correct_partial : forall fuel r d, re_valid r -> compile fuel r = Ok d ->
  forall s b, run d s = Ok b -> (b = true <-> L r s).
Proof. exact dfa_correct. Qed.
Print Assumptions c31_dfa_correct_partial.

(* the parser as found does NOT implement the reference grammar: for the well-formed concrete
   syntax tree of "ab|cd" it returns a regex that rejects "ab" *)
Theorem c31_parser_matches_grammar_refuted :
  exists (a : alt) (w : list Z) (r : re),
    wf_alt a /\ orig_parse 100 (unparse_alt a) = Ok r /\ L_alt a w /\ ~ L r w.
Proof. exact parser_orig_refuted. Qed.
Print Assumptions c31_parser_matches_grammar_refuted.

(* the abstract syntax the grammar prescribes for a concrete syntax tree (smart constructors in
   grammar order, [build_alt]) denotes the tree's language; that the repaired parser returns
   exactly build_alt is validated by the correspondence (validated-only, see MANIFEST) *)
Theorem c31_grammar_build_meaning : forall a w, L (build_alt a) w <-> L_alt a w.
Proof. intros a. destruct build_meaning as (_ & _ & _ & H). apply H. Qed.
Print Assumptions c31_grammar_build_meaning.

(* ---- totality and the full DFA theorem.
   [re_canon r] (Proofs/C31_total.v): every SymbolSet of r has ranges lo <= hi that are pairwise
   disjoint — implied by IntegerSet's class invariant (sorted ranges with gaps), for which
   [re_canonb] is a decidable check. The hypothesis [compile fuel r = Ok d] is decidable by
   evaluation; it fails for the known findings (NULL state unreachable: Internal KeyError;
   unbounded state growth: OutOfFuel for every fuel). *)
Theorem c31_canon_decidable : forall r, re_canonb r = true -> re_canon r.
Proof. exact re_canonb_canon. Qed.
Print Assumptions c31_canon_decidable.

(* the table-driven run never raises on a word over SIGMA = 0..255: every row is sorted, its
   ranges are disjoint and cover 0..255 (bisect finds the range), every target is a state *)
Theorem c31_run_total : forall fuel r d, re_canon r -> compile fuel r = Ok d ->
  forall s, Forall in_sigma s -> exists b, run d s = Ok b.
Proof. exact run_total. Qed.
Print Assumptions c31_run_total.

Theorem c31_dfa_correct : forall fuel r d, re_canon r -> compile fuel r = Ok d ->
  forall s, Forall in_sigma s ->
  (run d s = Ok true <-> L r s) /\ (run d s = Ok false <-> ~ L r s).
Proof. exact dfa_correct_total. Qed.
Print Assumptions c31_dfa_correct.

(* ---- the repaired parser implements the reference grammar: for every well-formed concrete
   syntax tree, parsing its text returns exactly the grammar-prescribed abstract syntax, whose
   language is the tree's language (any fuel above a tree-dependent threshold) *)
Theorem c31_parser_matches_grammar : forall a, wf_alt a ->
  exists n, forall fuel, (n <= fuel)%nat -> parse fuel (unparse_alt a) = Ok (build_alt a).
Proof. exact parser_matches_grammar. Qed.
Print Assumptions c31_parser_matches_grammar.

Theorem c31_parser_language : forall a, wf_alt a ->
  exists n, forall fuel, (n <= fuel)%nat ->
  exists r, parse fuel (unparse_alt a) = Ok r /\ forall w, L r w <-> L_alt a w.
Proof. exact parser_language. Qed.
Print Assumptions c31_parser_language.

(* ---- scanner.scan is maximal munch for a non-nullable token regex: whenever it returns a token
   list (any fuel), the tokens concatenate to the input and each token is the longest non-empty
   prefix of the remaining input that the regex matches ([munch], Spec/RegLangSpec.v). The
   nullable case is excluded: there the real scan() yields '' forever (known finding). When no
   non-empty prefix matches, scan raises ValueError (Diag) and the theorem claims nothing. *)
Theorem c31_scan_maximal_munch : forall fuel fuel2 r d chars toks,
  re_canon r -> nullable r = false -> compile fuel r = Ok d -> Forall in_sigma chars ->
  scan fuel2 d chars = Ok toks -> munch (L r) chars toks.
Proof. exact scan_maximal_munch. Qed.
Print Assumptions c31_scan_maximal_munch.

(* scan, all outcomes: tokens = THE maximal-munch split (and they concatenate to the input);
   ValueError only when no maximal-munch split exists; never an internal error on input over
   SIGMA. Not proved: a fuel bound (scan re-reads the text after each token; termination for a
   non-nullable regex is validated by the correspondence only). *)
Theorem c31_scan_correct : forall fuel fuel2 r d chars,
  re_canon r -> nullable r = false -> compile fuel r = Ok d -> Forall in_sigma chars ->
  match scan fuel2 d chars with
  | Ok toks => munch (L r) chars toks /\ concat toks = chars
  | Diag _ => forall toks, ~ munch (L r) chars toks
  | Internal _ => False
  | OutOfFuel => True
  end.
Proof. exact scan_correct. Qed.
Print Assumptions c31_scan_correct.

(* a successful compile is stable under more fuel (compile itself need not terminate: known
   finding "a*a*"; no general fuel bound exists) *)
Theorem c31_compile_fuel_monotone : forall fuel k r d,
  compile fuel r = Ok d -> compile (fuel + k) r = Ok d.
Proof. exact compile_fuel_mono. Qed.
Print Assumptions c31_compile_fuel_monotone.

(* ---- termination of compile(), certified: compile() does not terminate in general (known finding
   "a*a*": the derivatives are not finite modulo the implemented simplifications). A decidable
   sufficient condition: a finite list S containing r and closed under the derivatives compile()
   takes (one representative per non-empty derivative class; [closedb], Proofs/C31_term.v).
   Then length S + 1 iterations suffice, and the only possible failure is the known KeyError for an
   unreachable NULL state. The state list of any successful compile is such an S. *)
Theorem c31_compile_terminates_certified : forall S r fuel,
  closedb S = true -> memb r S = true -> (length S < fuel)%nat ->
  (exists d, compile fuel r = Ok d) \/ compile fuel r = Internal KeyError.
Proof. exact compile_terminates_cases. Qed.
Print Assumptions c31_compile_terminates_certified.

(* ---- the repaired compile() and scan() (Model.Regex.compile_fx / scan_fx; the check probes which
   variant the source contains and cross-checks that one).
   compile_fx appends the error state when it was not reached, so the tables are complete for
   EVERY regex whose construction terminates, including ".*". *)
Theorem c31_dfa_correct_fx : forall fuel r d, re_canon r -> compile_fx fuel r = Ok d ->
  forall s, Forall in_sigma s ->
  (run d s = Ok true <-> L r s) /\ (run d s = Ok false <-> ~ L r s).
Proof. exact dfa_fx_correct. Qed.
Print Assumptions c31_dfa_correct_fx.

(* scan_fx (an empty longest match is no match) terminates for EVERY compiled regex, nullable or
   not, within (length input + 2)^2 loop iterations, with tokens or the scanner's ValueError.
   (length input + 1 iterations do NOT suffice: after each token the scan restarts behind it and
   re-reads the look-ahead, see c31_nonvacuous4.) *)
Theorem c31_scan_total : forall fuel r d chars,
  re_canon r -> compile_fx fuel r = Ok d -> Forall in_sigma chars ->
  (exists toks, scan_fx ((length chars + 2) * (length chars + 2)) d chars = Ok toks) \/
  (exists code, scan_fx ((length chars + 2) * (length chars + 2)) d chars = Diag code).
Proof. exact scan_fx_total. Qed.
Print Assumptions c31_scan_total.

(* and it is maximal munch for every regex: tokens = the split into longest NON-EMPTY matching
   prefixes; ValueError exactly when no such split exists; never an internal error *)
Theorem c31_scan_correct_fx : forall fuel fuel2 r d chars,
  re_canon r -> compile_fx fuel r = Ok d -> Forall in_sigma chars ->
  match scan_fx fuel2 d chars with
  | Ok toks => munch (L r) chars toks /\ concat toks = chars
  | Diag _ => forall toks, ~ munch (L r) chars toks
  | Internal _ => False
  | OutOfFuel => True
  end.
Proof. exact scan_fx_correct. Qed.
Print Assumptions c31_scan_correct_fx.

Example c31_nonvacuous4 :
  (exists d, compile_fx 10 (Star SIGMA) = Ok d /\ compile 10 (Star SIGMA) = Internal KeyError /\
             run d [120; 121] = Ok true /\ scan_fx 16 d [120; 121] = Ok [[120; 121]]) /\
  (exists d, compile_fx 10 (Star (Sym [(97, 97)])) = Ok d /\
             scan_fx 9 d [98] = Diag 1 /\ scan_fx 16 d [97; 97] = Ok [[97; 97]] /\ scan 50 d [98] = OutOfFuel) /\
  (exists d, compile_fx 20 (Or (Cat (Star (Sym [(97, 97)])) (Sym [(98, 98)])) (Sym [(97, 97)])) = Ok d /\
             scan_fx 4 d [97; 97; 97] = OutOfFuel /\ scan_fx 25 d [97; 97; 97] = Ok [[97]; [97]; [97]]).
Proof.
  split; [|split]; eexists; (split; [vm_compute; reflexivity|]); vm_compute; repeat split.
Qed.

Example c31_nonvacuous3 :
  closedb cert_example = true /\ memb (Cat (Sym [(97, 97)]) (Star (Sym [(97, 97)]))) cert_example = true /\
  (exists d, compile 4 (Cat (Sym [(97, 97)]) (Star (Sym [(97, 97)]))) = Ok d).
Proof. split; [vm_compute; reflexivity|]. split; [vm_compute; reflexivity|]. eexists. vm_compute. reflexivity. Qed.

Example c31_nonvacuous2 :
  let r := Or (Sym [(97, 97)]) (Cat (Sym [(97, 97)]) (Sym [(98, 98)])) in   (* a|ab *)
  re_canonb r = true /\ nullable r = false /\
  exists d, compile 50 r = Ok d /\ scan 100 d [97; 98; 97] = Ok [[97; 98]; [97]] /\
            scan 100 d [97; 97; 98] = Ok [[97]; [97; 98]] /\ run d [97; 98] = Ok true.
Proof.
  cbv zeta. split; [reflexivity|]. split; [reflexivity|].
  eexists. split; [vm_compute; reflexivity|]. vm_compute. repeat split.
Qed.

Example c31_nonvacuous :
  parse 100 [97; 98; 124; 99; 100] = Ok witness_fixed /\ re_valid witness_fixed /\
  (exists d, compile 50 witness_fixed = Ok d /\ run d [97; 98] = Ok true /\ run d [99; 100] = Ok true /\
             run d [97; 98; 100] = Ok false /\ run d [] = Ok false) /\
  nullable (Star (Sym [(97, 97)])) = true /\
  deriv (Cat (Sym [(97, 97)]) (Sym [(98, 98)])) 97 = Sym [(98, 98)] /\
  classes (Sym [(97, 97)]) = [[(97, 97)]; [(0, 96); (98, 255)]].
Proof.
  split; [vm_compute; reflexivity|]. split; [cbv; repeat split; auto; repeat constructor; discriminate|].
  split; [eexists; split; [vm_compute; reflexivity|]; vm_compute; repeat split|].
  vm_compute. repeat split.
Qed.
