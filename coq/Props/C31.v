(* Props/C31.v — property C31: regular-expression automata accept exactly the expression's
   language. Only statements, [exact] of a lemma from Proofs/, and Print Assumptions.
   Model.Regex mirrors ppci/lang/tools/regex/{regex,compiler,scanner,parser}.py (tie H);
   L / L_alt are the denotations of Spec/RegLangSpec.v.
   [re_valid r] (Proofs/C31_dfa.v): every range (lo, hi) of every SymbolSet of r has lo <= hi —
   the class invariant of IntegerSet (its constructor filters the others out). *)
From PV Require Import Lib.Py Spec.RegLangSpec Model.Regex.
From PV Require Import Proofs.C31_sets Proofs.C31_regex Proofs.C31_dfa Proofs.C31_parser.
Open Scope Z_scope.

(* nullable() decides membership of the empty word *)
Theorem c31_nullable : forall r, nullable r = true <-> L r [].
Proof. exact nullable_spec. Qed.
Print Assumptions c31_nullable.

(* the smart constructors (with all their simplifications) preserve the language *)
Theorem c31_concatenate : forall a b w, L (concatenate a b) w <-> L (Cat a b) w.
Proof. exact concatenate_L. Qed.
Print Assumptions c31_concatenate.

Theorem c31_logical_or : forall a b w, L (logical_or a b) w <-> L a w \/ L b w.
Proof. exact logical_or_L. Qed.
Print Assumptions c31_logical_or.

Theorem c31_logical_and : forall a b w, L (logical_and a b) w <-> L a w /\ L b w.
Proof. exact logical_and_L. Qed.
Print Assumptions c31_logical_and.

(* derivative(symbol) denotes the left quotient *)
Theorem c31_derivative : forall r c w, L (deriv r c) w <-> L r (c :: w).
Proof. exact deriv_spec. Qed.
Print Assumptions c31_derivative.

(* two symbols of one derivative class have the same derivative (as regex objects) *)
Theorem c31_classes_sound : forall r K a b,
  In K (classes r) -> in_ranges a K -> in_ranges b K -> deriv r a = deriv r b.
Proof. exact classes_sound. Qed.
Print Assumptions c31_classes_sound.

(* the classes cover SIGMA = 0..255 and are pairwise disjoint *)
Theorem c31_classes_partition : forall r,
  (forall c, in_sigma c -> exists K, In K (classes r) /\ in_ranges c K) /\
  ForallOrdPairs (fun K1 K2 => forall c, ~ (in_ranges c K1 /\ in_ranges c K2)) (classes r).
Proof. intros r. split; [exact (classes_cover r)|exact (classes_disjoint r)]. Qed.
Print Assumptions c31_classes_partition.

(* compile() then the table-driven run (pick_transition from state 0, accept_states lookup):
   whenever the run returns, it returns membership in L(r). Every fuel that lets compile finish
   qualifies; c31_nonvacuous shows instances.
   PARTIAL: what is missing is totality of the run for words over SIGMA (pick_transition never
   raises: the sorted transition rows are disjoint and cover 0..255) — c31_classes_partition gives
   the ingredients; the composition is validated by the correspondence only. compile() itself
   does not always terminate (known finding: the regex "a*a*" ), so no fuel bound is claimed. *)
Theorem c31_dfa_correct_partial : forall fuel r d, re_valid r -> compile fuel r = Ok d ->
  forall s b, run d s = Ok b -> (b = true <-> L r s).
Proof. exact dfa_correct. Qed.
Print Assumptions c31_dfa_correct_partial.

(* the parser as found does NOT implement the reference grammar: for the well-formed concrete
   syntax tree of "ab|cd" it returns a regex that rejects "ab" *)
Theorem c31_parser_matches_grammar_refuted :
  exists (a : alt) (w : list Z) (r : re),
    wf_alt a /\ orig_parse 100 (unparse_alt a) = Ok r /\ L_alt a w /\ ~ L r w.
Proof. exact parser_orig_refuted. Qed.
Print Assumptions c31_parser_matches_grammar_refuted.

(* the abstract syntax the grammar prescribes for a concrete syntax tree (smart constructors in
   grammar order, [build_alt]) denotes the tree's language; that the repaired parser returns
   exactly build_alt is validated by the correspondence (validated-only, see MANIFEST) *)
Theorem c31_grammar_build_meaning : forall a w, L (build_alt a) w <-> L_alt a w.
Proof. intros a. destruct build_meaning as (_ & _ & _ & H). apply H. Qed.
Print Assumptions c31_grammar_build_meaning.

Example c31_nonvacuous :
  parse 100 [97; 98; 124; 99; 100] = Ok witness_fixed /\ re_valid witness_fixed /\
  (exists d, compile 50 witness_fixed = Ok d /\ run d [97; 98] = Ok true /\ run d [99; 100] = Ok true /\
             run d [97; 98; 100] = Ok false /\ run d [] = Ok false) /\
  nullable (Star (Sym [(97, 97)])) = true /\
  deriv (Cat (Sym [(97, 97)]) (Sym [(98, 98)])) 97 = Sym [(98, 98)] /\
  classes (Sym [(97, 97)]) = [[(97, 97)]; [(0, 96); (98, 255)]].
Proof.
  split; [vm_compute; reflexivity|]. split; [cbv; repeat split; auto; repeat constructor; discriminate|].
  split; [eexists; split; [vm_compute; reflexivity|]; vm_compute; repeat split|].
  vm_compute. repeat split.
Qed.
