(* Props/C23.v — IR -> WebAssembly: verified structuring validator, operator table, data segments. *)
From Coq Require Import ZArith List Bool String.
Import ListNotations.
From PV Require Import Spec.StructSpec Model.ShapeCheck Proofs.C23_shape.
From PV Require Import Spec.IRSyntax Spec.IRSem Spec.WasmNumSpec Model.Ir2WasmOps.
From PV Require Import Gen.Tab_ir2wasm Proofs.C23_ops Proofs.C23_table Proofs.C23_data.

(* a shape accepted by the validator executes exactly the CFG walk, for every branch oracle:
   complete trace when the function returns, a CFG path prefix of >= fuel blocks otherwise *)
Theorem c23_shape_sound : forall (g : StructSpec.cfg) (s : shape),
  check_shape g s = true -> forall (o : oracle) (fuel : nat), agrees g o s fuel.
Proof. intros g s H o fuel. exact (shape_sound g o s fuel H). Qed.
Print Assumptions c23_shape_sound.

(* every row of the compiler's operator table outside the listed inexact ones: the wasm opcode
   computes the IR operation on the representations of in-range operands *)
Theorem c23_op_table_sound : forall c : IRSem.cfg, ptr_bytes c = 4%Z ->
  forall o t w, In (o, t, w) optable -> inexact o t = false -> exact_row c (o, t, w).
Proof. intros c Hp. exact (op_table_sound c Hp). Qed.
Print Assumptions c23_op_table_sound.

(* the inexact rows of the narrow integer types are correct up to re-wrapping to the IR type *)
Theorem c23_op_table_wrapped_partial : forall c : IRSem.cfg, ptr_bytes c = 4%Z ->
  forall o t w, In (o, t, w) optable -> inexact o t = true -> signed_on_unsigned o t = false ->
  wrap_row c (o, t, w).
Proof. intros c Hp. exact (op_table_wrapped c). Qed.
Print Assumptions c23_op_table_wrapped_partial.

(* the full-strength statement fails: i8 + is not exact (127 + 1), ptr >> is wrong even after
   re-wrapping (2^31 >> 1) *)
Theorem c23_op_table_refuted : forall c : IRSem.cfg, ptr_bytes c = 4%Z ->
  (exists o t w, In (o, t, w) optable /\ ~ exact_row c (o, t, w)) /\
  (exists o t w, In (o, t, w) optable /\ ~ wrap_row c (o, t, w)).
Proof. intros c Hp. exact (op_table_refuted c Hp). Qed.
Print Assumptions c23_op_table_refuted.

Theorem c23_cmp_table_sound : forall c : IRSem.cfg, ptr_bytes c = 4%Z ->
  forall cc t w, In (cc, t, w) cmptable -> cmp_ok cc t = true -> cmp_row c cc t w.
Proof. intros c Hp. exact (cmp_table_sound c Hp). Qed.
Print Assumptions c23_cmp_table_sound.

(* the table has exactly the rows the model selects *)
Theorem c23_op_table_complete :
  forallb row_ok optable = true /\
  forallb (fun o => forallb (fun t => match select_binop o t with
                                      | Some _ => has_row o t | None => negb (has_row o t) end)
                            all_itys) all_binops = true.
Proof. split; [exact optable_ok | exact optable_complete]. Qed.
Print Assumptions c23_op_table_complete.

(* memory image = zero-padded initial contents of every global at its label, areas disjoint *)
Theorem c23_data_segments : forall vs labs segs e,
  Forall wf_gvar vs -> place STACKSIZE vs = (labs, segs, e) ->
  forall i v, nth_error vs i = Some v ->
  exists a, nth_error labs i = Some (gv_name v, a) /\ (STACKSIZE <= a)%Z /\
    (a + gv_amount v <= e)%Z /\
    (forall j, (0 <= j < gv_amount v)%Z -> mem_image segs (a + j) = init_byte v j) /\
    (forall i' v' a', (i < i')%nat -> nth_error vs i' = Some v' ->
        nth_error labs i' = Some (gv_name v', a') -> (a + gv_amount v <= a')%Z).
Proof. exact data_segments. Qed.
Print Assumptions c23_data_segments.

(* non-vacuity: a while loop with a break, as find_structure shapes it; a wrong shape is refused *)
Example c23_nonvacuous :
  check_shape ([TJmp 1; TBr 2 3; TJmp 1; TRet])%nat
              (SSeq [SBasic 0; SSeq [SLoop (SIf 1 (SSeq [SBasic 2; SContinue 0]) (SBreak 0)); SBasic 3]])%nat = true
  /\ check_shape ([TJmp 1; TBr 2 3; TJmp 1; TRet])%nat
              (SSeq [SBasic 0; SSeq [SLoop (SIf 1 (SSeq [SBasic 2; SBreak 0]) (SBreak 0)); SBasic 3]])%nat = false
  /\ In (IRSyntax.Div, I32, Bin W32 DivS) optable
  /\ place STACKSIZE [mk_gvar "a" 3 (Some [7%Z]); mk_gvar "b" 2 None]
     = ([("a"%string, 1000%Z); ("b"%string, 1003%Z)], [(1000%Z, [7%Z])], 1005%Z).
Proof. vm_compute. repeat split; auto 60. Qed.

(* ---- do_shape: the emitted block/loop/if skeleton with its br depth indices (label-stack
   semantics, Spec/WasmCtlSpec.v) executes exactly like the shape tree; c is the structured form
   of the token stream that the check compares with the emitted instructions *)
From PV Require Import Spec.WasmCtlSpec Model.ShapeCompile Proofs.C23_doshape.

Theorem c23_do_shape_exec : forall (g : StructSpec.cfg) (o : oracle) s c fuel h,
  compile [] s = Some c ->
  do_shape [] s = flat c /\ res_rel [] (exec g o fuel s h) (wexec g o fuel c h).
Proof.
  intros g o s c fuel h C. split; [exact (flat_compile s [] c C) | exact (do_shape_exec g o s c fuel h C)].
Qed.
Print Assumptions c23_do_shape_exec.

(* together with the validator: the control flow of the emitted wasm follows the CFG walk *)
Theorem c23_do_shape_sound : forall (g : StructSpec.cfg) s c,
  check_shape g s = true -> compile [] s = Some c ->
  forall (o : oracle) (fuel : nat), wagrees g o c fuel.
Proof. intros g s c K C o fuel. exact (do_shape_follows_cfg g o s c fuel K C). Qed.
Print Assumptions c23_do_shape_sound.

Example c23_do_shape_nonvacuous :
  compile [] (SSeq [SBasic 0; SSeq [SLoop (SIf 1 (SSeq [SBasic 2; SContinue 0]) (SBreak 0)); SBasic 3]])%nat
  = Some [WCode 0; WBlock [WLoop [WCode 1; WIf [WCode 2; WBr 1] (Some [WBr 2])]]; WCode 3]%nat.
Proof. vm_compute. reflexivity. Qed.

(* ---- re-wrapping of narrow arithmetic (emit_wrap, fixes/C23-rewrap-narrow.diff) and casts *)
From PV Require Import Model.Ir2WasmPost Proofs.C23_post Proofs.C23_table2.

(* a narrow + - * << row that is followed by the re-wrapping of its type is exact *)
Theorem c23_op_table_rewrapped : forall c : IRSem.cfg, ptr_bytes c = 4%Z ->
  forall o t w p, In (o, t, w) optable -> In (o, t, p) posttable ->
  inexact o t = true -> signed_on_unsigned o t = false -> post_eqb p (wrap_post t) = true ->
  exact_post_row c (o, t, w, p).
Proof. intros c Hp. exact (op_table_rewrapped c). Qed.
Print Assumptions c23_op_table_rewrapped.

(* on a tree where every narrow row is re-wrapped (rewrap_complete, evaluated by the check on
   every run) the whole operator table is exact, the signed ptr rows excepted *)
Theorem c23_op_table_exact_when_rewrapped : forall c : IRSem.cfg, ptr_bytes c = 4%Z ->
  rewrap_complete = true ->
  forall o t w p, In (o, t, w) optable -> In (o, t, p) posttable ->
  signed_on_unsigned o t = false -> exact_post_row c (o, t, w, p).
Proof. intros c Hp. exact (op_table_exact_when_rewrapped c Hp). Qed.
Print Assumptions c23_op_table_exact_when_rewrapped.

(* integer casts: conversion opcode + re-wrapping = IR cast, for every row classified good;
   cast_bad_rows (evaluated by the check) lists the others *)
Theorem c23_cast_table_sound : forall c : IRSem.cfg, ptr_bytes c = 4%Z ->
  forall f t cv p, In (f, t, cv, p) casttable -> cast_good (f, t, cv, p) = true ->
  cast_row c f t cv p.
Proof. intros c Hp. exact (cast_table_sound c). Qed.
Print Assumptions c23_cast_table_sound.

(* narrowing casts without re-wrapping are wrong; i32 -> u64 by zero extension is wrong *)
Theorem c23_cast_refuted : forall c : IRSem.cfg,
  ~ cast_row c I32 U8 CvNone PNone /\ (forall p, ~ cast_row c I32 U64 CvExtU p).
Proof. intros c. split; [exact (cast_i32_u8_bare_wrong c) | exact (cast_i32_u64_wrong c)]. Qed.
Print Assumptions c23_cast_refuted.

(* all integer casts, without exception, on a tree where the check finds cast_bad_rows = []
   (true once fixes/C23-subword-sign-cast.diff and C23-cast-i32-u64-sign-extend.diff are in;
   c23_cast_refuted stays the statement about the code as found) *)
Theorem c23_cast_exact : forall c : IRSem.cfg, ptr_bytes c = 4%Z ->
  cast_bad_rows = [] ->
  forall f t cv p, In (f, t, cv, p) casttable -> cast_row c f t cv p.
Proof. intros c Hp. exact (cast_exact c). Qed.
Print Assumptions c23_cast_exact.

(* ---- loads and stores: for every (type -> opcode) row of the compiler (exported by compiling
   one-instruction functions; static offset 0): the wasm load (WasmMemSpec.mem_load) returns the
   representation of the value IRSem's load_val reads from the same bytes, and the wasm store
   (mem_store) writes exactly the bytes IRSem's store_val writes *)
From PV Require Import Spec.WasmMemSpec Model.Ir2WasmMem Proofs.C23_mem Proofs.C23_table3.
Theorem c23_loadstore_table_sound : forall c : IRSem.cfg, ptr_bytes c = 4%Z ->
  (forall r, In r loadtable -> load_row c r) /\ (forall r, In r storetable -> store_row c r).
Proof. intros c Hp. exact (loadstore_table_sound c Hp). Qed.
Print Assumptions c23_loadstore_table_sound.

Example c23_loadstore_nonvacuous :
  In (I8, W32, 1%nat, true) loadtable /\ In (U32, W64, 4%nat) storetable /\
  mem_load [1; 255; 3]%Z 1 true 32 1 0 = Some 4294967295%Z /\
  mem_store [1; 2; 3; 4; 5]%Z 2 1 0 (rep W32 (-2)) = Some [1; 254; 255; 4; 5]%Z.
Proof. vm_compute. repeat split; auto 30. Qed.

(* ---- unary operators: every NEG row of the compiler (i8 i16 i32 i64 ptr; INV and unsigned NEG
   are rejected) leaves the canonical representation of IRSem's negation, MIN included; without the
   re-wrapping the i8 row is wrong (-(-128) = 128) *)
From PV Require Import Model.Ir2WasmUnop Proofs.C23_unop Proofs.C23_table4.
Theorem c23_unop_table_exact : forall c : IRSem.cfg, ptr_bytes c = 4%Z ->
  forall r, In r untable -> unop_row c r.
Proof. exact unop_table_exact. Qed.
Print Assumptions c23_unop_table_exact.

Theorem c23_unop_unwrapped_refuted : forall c : IRSem.cfg, ~ unop_row c (I8, W32, PNone).
Proof. exact neg_i8_unwrapped_wrong. Qed.
Print Assumptions c23_unop_unwrapped_refuted.
