(* Props/C04.v — property C04 (x86-64 native code reproduces C program behaviour): PARTIAL.
   Only statements, [exact] of a lemma from Proofs/, and Print Assumptions.
   What is stated here are the logical cores of the native path that are modelled:
     Model/PhiCopy.v   hand model of irdag.py copy_phis_of_successors / do_phi
     Model/Peephole.v  hand model of peephole.py PeepHoleStream, Spec/StreamSem.v abstract stream semantics
     Gen/Tab_effects.v instruction classes with an `effect` (regenerated from /repo on every run)
   End-to-end native behaviour is NOT stated: it is only searched (differential runs against gcc). *)
From Coq Require Import ZArith List Bool String.
From PV Require Import Model.PhiCopy Model.Peephole Spec.StreamSem Gen.Tab_effects
  Proofs.C04_phicopy Proofs.C04_peephole Proofs.C04_tables.
Import ListNotations.
Open Scope Z_scope.

(* ---- phi copies: parallel-assignment semantics, all lists of phis, all register states.
   [functional]: phis with the same phi register have the same input (distinct phis have distinct registers;
   a successor listed twice repeats its phis). Temporaries are next, next+1, ... and everything else is below. *)
Theorem c04_phi_copy_parallel : forall vm phis next e,
  functional phis ->
  (forall p, In p phis -> p_reg p < next) ->
  (forall p r, In p phis -> In r (reads (vm (p_from p))) -> r < next) ->
  exists ms, copy_phis vm phis next = Some ms /\
    let e' := exec ms e in
    (forall p, In p phis -> e' (p_reg p) = eval (vm (p_from p)) e) /\
    (forall r, r < next -> (forall p, In p phis -> p_reg p <> r) -> e' r = e r).
Proof. exact phi_copy_parallel. Qed.
Print Assumptions c04_phi_copy_parallel.

(* ---- the whole edge when phi registers are isolated (fixes/C04-phi-lost-copy.diff): copies for the phis of ALL
   successors, then the terminator operand c, then the head moves of the taken successor *)
Theorem c04_phi_edge_isolated_correct : forall vm all taken next c e,
  incl taken all -> functional all ->
  (forall p, In p all -> p_reg p < next /\ p_val p < next) ->
  (forall p r, In p all -> In r (reads (vm (p_from p))) -> r < next) ->
  (forall r, In r (reads c) -> r < next) ->
  isolated all c ->
  (forall p q, In p taken -> In q taken -> p_val p = p_val q -> p_reg p = p_reg q) ->
  exists cv e2, edge_impl vm all taken next c e = Some (cv, e2) /\
    cv = eval c e /\
    (forall p, In p taken -> e2 (p_val p) = eval (vm (p_from p)) e) /\
    (forall r, r < next -> (forall q, In q all -> r <> p_reg q) ->
               (forall p, In p taken -> r <> p_val p) -> e2 r = e r).
Proof. exact phi_edge_isolated. Qed.
Print Assumptions c04_phi_edge_isolated_correct.

(* ---- the code as found (uses of a phi read the phi register itself): refuted, two witnesses *)
Theorem c04_phi_edge_unisolated_condition_refuted :
  exists vm all taken next c e,
    unisolated all /\ functional all /\ NoDup (map p_reg all) /\ incl taken all /\
    (forall p, In p all -> p_reg p < next) /\
    (forall p r, In p all -> In r (reads (vm (p_from p))) -> r < next) /\
    (forall r, In r (reads c) -> r < next) /\
    exists cv e2, edge_impl vm all taken next c e = Some (cv, e2) /\ cv <> eval c e.
Proof. exact phi_edge_unisolated_condition_refuted. Qed.
Print Assumptions c04_phi_edge_unisolated_condition_refuted.

Theorem c04_phi_edge_unisolated_lost_copy_refuted :
  exists vm all taken next c e r,
    unisolated all /\ functional all /\ NoDup (map p_reg all) /\ incl taken all /\
    (forall p, In p all -> p_reg p < next) /\
    (forall p r, In p all -> In r (reads (vm (p_from p))) -> r < next) /\
    (forall r, In r (reads c) -> r < next) /\
    r < next /\ (forall p, In p taken -> r <> p_val p) /\
    exists cv e2, edge_impl vm all taken next c e = Some (cv, e2) /\ e2 r <> e r.
Proof. exact phi_edge_unisolated_lost_copy_refuted. Qed.
Print Assumptions c04_phi_edge_unisolated_lost_copy_refuted.

(* ---- PeepHoleStream: the window machine is "drop an item iff the next item has an equal effect and it is no Label" *)
Theorem c04_peephole_stream_is_filter : forall (I E : Type) (effect : I -> option E) (eqE : E -> E -> bool)
  (is_label : I -> bool) (l : list I),
  peephole effect eqE is_label l = peep effect eqE is_label l.
Proof. exact @peephole_eq_peep. Qed.
Print Assumptions c04_peephole_stream_is_filter.

(* ---- soundness: every prefix of a run of the original stream is matched by a (not longer) prefix of a run of the
   filtered stream with the same machine state and the corresponding status (same stop reason / corresponding
   position), and conversely. S and sem are arbitrary: S may carry the whole trace. *)
Theorem c04_peephole_sound : forall (L K S : Type) (L_eqb : L -> L -> bool),
  (forall a b, reflect (a = b) (L_eqb a b)) ->
  forall (sem : K -> S -> S * ctl) (p : list (instr L K)),
  NoDup (labels p) ->
  let q := peephole i_effect L_eqb i_is_label p in
  (forall n s, exists m, (m <= n)%nat /\
     run L_eqb sem q m (Running 0) s = mapres L_eqb p (run L_eqb sem p n (Running 0) s)) /\
  (forall m s, exists n, (m <= n)%nat /\
     mapres L_eqb p (run L_eqb sem p n (Running 0) s) = run L_eqb sem q m (Running 0) s).
Proof. exact @peephole_sound. Qed.
Print Assumptions c04_peephole_sound.

Theorem c04_peephole_same_result : forall (L K S : Type) (L_eqb : L -> L -> bool),
  (forall a b, reflect (a = b) (L_eqb a b)) ->
  forall (sem : K -> S -> S * ctl) (p : list (instr L K)),
  NoDup (labels p) ->
  let q := peephole i_effect L_eqb i_is_label p in
  forall s st s', stopped st ->
    ((exists n, run L_eqb sem p n (Running 0) s = (st, s')) <->
     (exists m, run L_eqb sem q m (Running 0) s = (st, s'))).
Proof. exact @peephole_same_result. Qed.
Print Assumptions c04_peephole_same_result.

(* the hypothesis NoDup (labels p) cannot be dropped *)
Theorem c04_peephole_needs_unique_labels :
  exists (p : list (instr nat unit)) (sem : unit -> nat -> nat * ctl) s st s',
    stopped st /\
    (exists m, run Nat.eqb sem (peephole i_effect Nat.eqb i_is_label p) m (Running 0) s = (st, s')) /\
    ~ (exists n, run Nat.eqb sem p n (Running 0) s = (st, s')).
Proof.
  destruct peephole_dup_labels_refuted as (p & s & st & s' & H). exists p. eexists. exists s, st, s'. exact H.
Qed.
Print Assumptions c04_peephole_needs_unique_labels.

(* ---- which instructions have an `effect` at all (table regenerated from /repo) *)
Theorem c04_effect_classes_are_pure_jumps_or_labels : forall r, In r effect_classes ->
  e_effect_is_pc_target r = true /\ (e_is_label r = true \/ e_is_jump r = true).
Proof. exact effect_classes_ok. Qed.
Print Assumptions c04_effect_classes_are_pure_jumps_or_labels.

(* ---- non-vacuity: a swap through the model really swaps; the hypotheses of the edge theorem are inhabited by a
   self-loop with isolated phi registers; the filter really removes  jmp L  before  L: ; the table is not empty *)
Example c04_nonvacuous :
  (match copy_phis (fun k => SReg k) [mkphi 1 1 2; mkphi 2 2 1] 3 with
   | Some ms => let e' := exec ms (fun r => 10 * r) in (e' 1, e' 2)
   | None => (0, 0) end) = (20, 10) /\
  (match edge_impl (fun _ => SFun [2] (fun l => hd 0 l + 1)) [mkphi 1 2 10] [mkphi 1 2 10] 3 (SReg 2) (fun r => 5 * r) with
   | Some (cv, e2) => (cv, e2 2) | None => (0, 0) end) = (10, 11) /\
  peephole (@i_effect nat unit) Nat.eqb (@i_is_label nat unit)
    [IJmp 1; IJmp 1; ILabel 1; IOther tt; IJmp 2; ILabel 1]%nat = [ILabel 1; IOther tt; IJmp 2; ILabel 1]%nat /\
  existsb (fun r => e_is_label r && String.eqb (e_class r) "Label") effect_classes = true.
Proof. vm_compute. repeat split; reflexivity. Qed.
