(* Props/C34.v — property C34: the build runner executes each requested target and each of its
   transitive dependencies exactly once, each after all of its dependencies, and reports a
   dependency loop iff the part of the graph reachable from the request contains a cycle.
   Only statements, [exact] of a lemma from Proofs/, and Print Assumptions.

   [run_fuel] is the model of ppci/build/tasks.py after fixes/C34-dfs-order.diff; [Orig.run] is
   the model of the code before that fix (tie H: tools/props/c34.py compares the
   implementation's execution history with the model on every run).
   Unbounded: all graphs (any dependency-iteration order = any order of the dependency lists),
   all request lists (any order, repetitions allowed), any default target.
   Fuel: recursion depth; any fuel > number of targets works ([run] uses length g + 1). *)
From PV Require Import Lib.Py Spec.BuildSpec Model.Tasks Proofs.C34_tasks.
From PV Require Import Model.TasksExec Proofs.C34_exec.
Open Scope Z_scope.

(* (2a) no target is executed twice *)
Theorem c34_once : forall fuel g dflt req h,
  run_fuel fuel g dflt req = Ok h -> once h.
Proof. exact ok_once. Qed.
Print Assumptions c34_once.

(* (2b) exactly the requested targets and their transitive dependencies are executed *)
Theorem c34_exactly_reachable : forall fuel g dflt req h,
  run_fuel fuel g dflt req = Ok h -> exactly_reachable g (effective dflt req) h.
Proof. exact ok_exact. Qed.
Print Assumptions c34_exactly_reachable.

(* (2c) every target is executed after all of its dependencies *)
Theorem c34_topological : forall fuel g dflt req h,
  run_fuel fuel g dflt req = Ok h -> topological g h.
Proof. exact ok_topological. Qed.
Print Assumptions c34_topological.

(* (1) an error is reported iff the reachable part has a cycle or an undefined target *)
Theorem c34_loop_iff_cycle : forall fuel g dflt req, (length g < fuel)%nat ->
  ((exists c, run_fuel fuel g dflt req = Diag c) <-> bad g (effective dflt req)).
Proof. exact loop_iff_cycle. Qed.
Print Assumptions c34_loop_iff_cycle.

(* the reported error names a defect that is really there *)
Theorem c34_error_kind : forall fuel g dflt req c,
  run_fuel fuel g dflt req = Diag c ->
  (c = E_LOOP /\ has_cycle g (effective dflt req)) \/
  (c = E_NOTFOUND /\ has_missing g (effective dflt req)).
Proof. exact err_bad. Qed.
Print Assumptions c34_error_kind.

(* with enough fuel the run ends with a history or one of the two documented errors *)
Theorem c34_total : forall fuel g dflt req, (length g < fuel)%nat ->
  (exists h, run_fuel fuel g dflt req = Ok h) \/
  run_fuel fuel g dflt req = Diag E_LOOP \/ run_fuel fuel g dflt req = Diag E_NOTFOUND.
Proof. exact run_outcome. Qed.
Print Assumptions c34_total.

(* ---- the code before the fix violates (1) and (2c) ---- *)
(* a diamond a -> {b, c} -> d has no cycle and no undefined target, yet a loop is reported *)
Theorem c34_loop_iff_cycle_refuted : exists g req pi,
  Orig.run g None req pi = Diag E_LOOP /\ ~ bad g req.
Proof. exists diamond, [0], [0; 1; 2; 3]. exact orig_loop_without_cycle. Qed.
Print Assumptions c34_loop_iff_cycle_refuted.

(* sorting with the partial order "is a dependency of": for a -> {b, c}, b -> d and the set
   iteration order [b; c; d; a] CPython's sort leaves the list unchanged: b runs before d *)
Theorem c34_topological_refuted : exists g req pi h,
  Orig.run g None req pi = Ok h /\ ~ bad g req /\ ~ topological g h.
Proof. exists tree, [0], [2; 3; 1; 0], [2; 3; 1; 0]. exact orig_not_topological. Qed.
Print Assumptions c34_topological_refuted.

(* ---- a task that raises stops the run (Model/TasksExec.v: the "Run tasks" loop of
   TaskRunner.run; a task = does its run() raise; event (n, i) = task i of target n entered).
   Unbounded: all graphs, task maps, requests, defaults, fuels. ---- *)
(* the target that failed is a requested target or a transitive dependency of one and really has a
   raising task; no target that (transitively) depends on it has started any task *)
Theorem c34_failure_blocks_dependants : forall fuel g tk dflt req ev f,
  run_exec_fuel fuel g tk dflt req = Ok (ev, Some f) ->
  In true (tasks_of tk f) /\ reach g (effective dflt req) f /\
  forall a i, path g a f -> ~ In (a, i) ev.
Proof. exact failure_blocks. Qed.
Print Assumptions c34_failure_blocks_dependants.

(* whether or not the run failed: every transitive dependency of a target that has started a task
   has no raising task and has run all of its tasks *)
Theorem c34_started_deps_completed : forall fuel g tk dflt req ev fo,
  run_exec_fuel fuel g tk dflt req = Ok (ev, fo) ->
  forall a i b, In (a, i) ev -> path g a b ->
    ~ In true (tasks_of tk b) /\
    forall j, 0 <= j < Z.of_nat (length (tasks_of tk b)) -> In (b, j) ev.
Proof. exact started_deps_done. Qed.
Print Assumptions c34_started_deps_completed.

(* no failure reported: every task of every requested target and transitive dependency has run,
   none of them raises, and no task of any other target has run *)
Theorem c34_no_failure_all_tasks_run : forall fuel g tk dflt req ev,
  run_exec_fuel fuel g tk dflt req = Ok (ev, None) ->
  (forall n, reach g (effective dflt req) n ->
     ~ In true (tasks_of tk n) /\
     forall j, 0 <= j < Z.of_nat (length (tasks_of tk n)) -> In (n, j) ev) /\
  (forall n j, In (n, j) ev -> reach g (effective dflt req) n).
Proof. exact no_failure_all_run. Qed.
Print Assumptions c34_no_failure_all_tasks_run.

Example c34_exec_nonvacuous :
  run_exec diamond [(3, [false; false]); (1, [false; true; false]); (0, [false])] None [0]
    = Ok ([(3, 0); (3, 1); (1, 0); (1, 1)], Some 1) /\
  run_exec diamond [(3, [false; false]); (0, [false])] None [0]
    = Ok ([(3, 0); (3, 1); (0, 0)], None) /\
  run_exec diamond [(2, [true])] (Some 2) [] = Ok ([(2, 0)], Some 2).
Proof. vm_compute. repeat split. Qed.

(* non-vacuity: the fuel hypothesis is met by [run]; Ok, loop and not-found outcomes all occur *)
Example c34_nonvacuous :
  run = (fun g => run_fuel (S (length g)) g) /\
  run diamond None [0] = Ok [3; 1; 2; 0] /\
  run tree None [] = Ok [] /\ run tree (Some 2) [] = Ok [1; 2] /\
  run [(0, [1]); (1, [2]); (2, [0])] None [0] = Diag E_LOOP /\
  run [(0, [1]); (1, [2])] None [0] = Diag E_NOTFOUND /\
  run [(0, [1]); (1, [1])] None [1; 0] = Diag E_LOOP /\
  run [(0, [1; 2]); (1, []); (2, [1])] None [2; 0; 2] = Ok [1; 2; 0].
Proof. vm_compute. repeat split. Qed.
