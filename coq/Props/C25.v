(* Props/C25.v — property C25: dominator and post-dominator analyses match their definitions.
   Only statements, [exact] of a lemma from Proofs/, and Print Assumptions.
   Spec = Spec/CfgSpec.v (paths).  Reference + certificate checker = Model/DomRef.v (proved correct
   for EVERY graph).  Hand models of ppci/graph/cfg.py and fixed_point_dominator.py =
   Model/DomTree.v (interval numbering proved for every tree; the other models: bounded). *)
From PV Require Import Lib.Py.
From PV Require Import Spec.CfgSpec Model.DomRef Model.DomTree Model.LengauerTarjan.
From PV Require Import Proofs.C25_ref Proofs.C25_cert Proofs.C25_intervals.
From PV Require Import Proofs.C25_complete Proofs.C25_compose Proofs.C25_pdom Proofs.C25_reach Proofs.C25_tree.
From PV Require Import Proofs.C25_term Proofs.C25_df.
Close Scope Z_scope.
Open Scope nat_scope.

(* ---- the executable reference equals the path-based definitions, for all graphs *)
Theorem c25_ref_correct : forall g e d w, dom_ref g e d w = true <-> dominates g e d w.
Proof. exact dom_ref_correct. Qed.
Print Assumptions c25_ref_correct.

Theorem c25_reach_set_correct : forall g ok e v,
  In v (reach_set g ok e) <-> exists l, path g e l v /\ forallb ok l = true.
Proof. exact reach_set_spec. Qed.
Print Assumptions c25_reach_set_correct.

Theorem c25_reach_ref_correct : forall g u v, reachable_ref g u v = true <-> reachable g u v.
Proof. exact reachable_ref_correct. Qed.
Print Assumptions c25_reach_ref_correct.

Theorem c25_can_reach_ref_correct : forall g u v, reach_plus_ref g u v = true <-> reachable_plus g u v.
Proof. exact reach_plus_ref_correct. Qed.
Print Assumptions c25_can_reach_ref_correct.

Theorem c25_reach_rows_correct : forall g u v, u < length g -> v < length g ->
  (In v (nth u (reach_rows g) []) <-> reachable_plus g u v).
Proof. exact reach_rows_correct. Qed.
Print Assumptions c25_reach_rows_correct.

Theorem c25_pdom_ref_correct : forall g x d w, pdom_ref g x d w = true <-> postdominates g x d w.
Proof. exact pdom_ref_correct. Qed.
Print Assumptions c25_pdom_ref_correct.

Theorem c25_idom_ref_sound : forall g e w d, idom_ref g e w = Some d -> is_idom g e d w.
Proof. exact idom_ref_sound. Qed.
Print Assumptions c25_idom_ref_sound.

Theorem c25_idom_list_sound : forall g e w d, nth w (idom_list g e) None = Some d -> is_idom g e d w.
Proof. exact idom_list_sound. Qed.
Print Assumptions c25_idom_list_sound.

Theorem c25_idom_ref_complete : forall g e w d,
  reachable g e w -> w <> e -> is_idom g e d w -> idom_ref g e w = Some d.
Proof. exact idom_ref_complete. Qed.
Print Assumptions c25_idom_ref_complete.

Theorem c25_idom_unique : forall g e w d1 d2,
  reachable g e w -> is_idom g e d1 w -> is_idom g e d2 w -> d1 = d2.
Proof. exact is_idom_unique. Qed.
Print Assumptions c25_idom_unique.

Theorem c25_df_ref_correct : forall g e x y,
  x < length g -> (In y (nth x (df_list g e) []) <-> in_df g e x y).
Proof. exact df_list_correct. Qed.
Print Assumptions c25_df_ref_correct.

(* ---- verified certificate checker for an immediate-dominator map (run on the real
        Lengauer-Tarjan output for every generated graph) *)
Theorem c25_cert_parent_sound_partial : forall g e t, check_parent g e t = true ->
  forall w a, reachable g e w -> anc t a w -> dominates g e a w.
Proof. exact cert_parent_sound. Qed.
Print Assumptions c25_cert_parent_sound_partial.

Theorem c25_cert_sound : forall g e t, check_idom g e t = true ->
  forall w, reachable g e w -> w <> e -> exists d, pget t w = Some d /\ is_idom g e d w.
Proof. exact cert_sound. Qed.
Print Assumptions c25_cert_sound.

Theorem c25_cert_tree_dominance : forall g e t, check_idom g e t = true ->
  forall w a, reachable g e w -> (anc t a w <-> dominates g e a w).
Proof. exact cert_tree_dominance. Qed.
Print Assumptions c25_cert_tree_dominance.

(* ---- _number_dominator_tree: interval tests decide the ancestor relation, for every tree *)
Theorem c25_intervals : forall tr fuel,
  NoDup (labels tr) -> 2 * size tr < fuel ->
  exists iv, number_tree fuel tr = Ok iv /\
    forall a b, In a (labels tr) -> In b (labels tr) ->
      exists ia ib, alookup a iv = Some ia /\ alookup b iv = Some ib /\
        (below_or_same ia ib = true <-> tanc tr b a) /\
        (below ia ib = true <-> tanc tr b a /\ a <> b).
Proof. exact intervals_correct. Qed.
Print Assumptions c25_intervals.

(* ---- existence of immediate dominators; the checker never rejects the true map (every graph) *)
Theorem c25_idom_exists : forall g e w, reachable g e w -> w <> e -> exists d, is_idom g e d w.
Proof. exact idom_exists. Qed.
Print Assumptions c25_idom_exists.

Theorem c25_idom_list_total : forall g e w, reachable g e w -> w <> e ->
  exists d, nth w (idom_list g e) None = Some d /\ is_idom g e d w.
Proof. exact idom_list_total. Qed.
Print Assumptions c25_idom_list_total.

Theorem c25_cert_complete : forall g e, check_idom g e (idom_list g e) = true.
Proof. exact check_idom_complete. Qed.
Print Assumptions c25_cert_complete.

Theorem c25_cert_exact : forall g e t, check_idom g e t = true ->
  forall w, w < length g -> pget t w = nth w (idom_list g e) None.
Proof. exact check_idom_iff_exact. Qed.
Print Assumptions c25_cert_exact.

(* ---- dominates / strictly_dominates: accepted idom map + any tree representing it + interval
        numbering decide dominance by the path definition (every graph, every such tree) *)
Theorem c25_dominates_by_intervals : forall g e t tr fuel,
  check_idom g e t = true -> represents g e t tr -> 2 * size tr < fuel ->
  exists iv, number_tree fuel tr = Ok iv /\
    forall one other, In one (labels tr) -> In other (labels tr) ->
      exists io i1, alookup other iv = Some io /\ alookup one iv = Some i1 /\
        (below_or_same io i1 = true <-> dominates g e one other) /\
        (below io i1 = true <-> sdominates g e one other).
Proof. exact dominates_by_intervals. Qed.
Print Assumptions c25_dominates_by_intervals.


(* ---- the tree built from the true idom map represents it (every graph) *)
Theorem c25_build_tree_represents : forall g e, e < length g ->
  represents g e (idom_list g e) (build_tree (length g) (length g) (idom_list g e) e).
Proof. exact build_tree_represents. Qed.
Print Assumptions c25_build_tree_represents.

(* ---- dominates / strictly_dominates end to end (model of _calculate_dominator_tree,
        _number_dominator_tree and the interval tests), every graph, every accepted idom map *)
Theorem c25_dominates_unbounded : forall g e t, e < length g -> check_idom g e t = true ->
  exists iv, tree_intervals g e t = Ok iv /\
    forall one other, reachable g e one -> reachable g e other ->
      exists io i1, alookup other iv = Some io /\ alookup one iv = Some i1 /\
        (below_or_same io i1 = true <-> dominates g e one other) /\
        (below io i1 = true <-> sdominates g e one other).
Proof. exact dominates_unbounded. Qed.
Print Assumptions c25_dominates_unbounded.

(* ---- fixed-point analyses, every graph (partial correctness: whenever the model terminates
        within its fuel; termination within n*n+2 sweeps is covered by the bounded theorems) *)
Theorem c25_pdom_fixpoint_correct : forall g x, x < length g -> succs g x = [] ->
  forall fuel res, post_dominators fuel g x = Ok res ->
  forall w d, w < length g ->
    (In d (nth w res []) <-> d < length g /\ postdominates g x d w).
Proof. exact post_dominators_correct. Qed.
Print Assumptions c25_pdom_fixpoint_correct.

Theorem c25_reach_fixpoint_correct : forall g fuel res, calculate_reach fuel g = Ok res ->
  forall u d, u < length g -> (In d (nth u res []) <-> reachable_plus g u d).
Proof. exact calculate_reach_correct. Qed.
Print Assumptions c25_reach_fixpoint_correct.


(* ---- Cytron's dominance-frontier recursion by the path definitions (every graph):
        DF(x) = {y in succ x | idom y <> x}  U  {y in DF(z) | idom z = x, idom y <> x} *)
Theorem c25_df_decompose : forall g e x y, reachable g e x ->
  (in_df g e x y <->
   (edge g x y /\ idom_is (idom_list g e) y x = false) \/
   (exists z, pget (idom_list g e) z = Some x /\ in_df g e z y /\ idom_is (idom_list g e) y x = false)).
Proof. exact df_decompose. Qed.
Print Assumptions c25_df_decompose.

(* ---- calculate_dominance_frontier (model: dominator tree from the idom map, explicit-stack
        bottom_up order, local + up rule) = dominance frontier by definition, for every graph and
        every idom map accepted by the checker; main statement, c25_df_cytron_bounded is kept *)
Theorem c25_df_cytron : forall g e t, e < length g -> check_idom g e t = true -> length t = length g ->
  exists df, cytron_df (2 * length g + 2) g e t = Ok df /\
    (forall x, reachable g e x ->
       exists s, alookup x df = Some s /\ forall y, In y s <-> in_df g e x y) /\
    (forall x, ~ reachable g e x -> alookup x df = None).
Proof. exact cytron_accepted. Qed.
Print Assumptions c25_df_cytron.

(* ---- the two set fixpoints terminate within their fuel: total correctness (every graph) *)
Theorem c25_pdom_fixpoint_terminates : forall g x, x < length g -> succs g x = [] ->
  exists res, post_dominators (length g * length g + 2) g x = Ok res.
Proof. exact post_dominators_terminates. Qed.
Print Assumptions c25_pdom_fixpoint_terminates.

Theorem c25_reach_fixpoint_terminates : forall g,
  exists res, calculate_reach (length g * length g + 2) g = Ok res.
Proof. exact calculate_reach_terminates. Qed.
Print Assumptions c25_reach_fixpoint_terminates.

Theorem c25_pdom_fixpoint_total : forall g x, x < length g -> succs g x = [] ->
  exists res, post_dominators (length g * length g + 2) g x = Ok res /\
    forall w d, w < length g ->
      (In d (nth w res []) <-> d < length g /\ postdominates g x d w).
Proof. exact post_dominators_total. Qed.
Print Assumptions c25_pdom_fixpoint_total.

Theorem c25_reach_fixpoint_total : forall g,
  exists res, calculate_reach (length g * length g + 2) g = Ok res /\
    forall u d, u < length g -> (In d (nth u res []) <-> reachable_plus g u d).
Proof. exact calculate_reach_total. Qed.
Print Assumptions c25_reach_fixpoint_total.

(* the bounded (vm_compute) theorems c25_dominates_bounded, c25_df_cytron_bounded, c25_pdom_fixpoint_bounded,
   c25_reach_fixpoint_bounded and c25_lt_bounded are in Props/C25_bounded.v (checked in every tier);
   c25_lt_bounded5 is in Props/C25_thorough.v *)

(* hypotheses are inhabited: a diamond with a loop; its idom map passes the checker and the
   numbered tree has distinct labels *)
Example c25_nonvacuous :
  let g := [[1;2];[3];[3];[1;4];[]] in
  check_idom g 0 (idom_list g 0) = true /\
  idom_list g 0 = [None; Some 0; Some 0; Some 0; Some 3] /\
  reachable_ref g 0 4 = true /\
  (exists iv, number_tree 11 (build_tree 5 5 (idom_list g 0) 0) = Ok iv) /\
  NoDup (labels (build_tree 5 5 (idom_list g 0) 0)) /\
  In [[1];[]] (all_graphs 2).
Proof.
  vm_compute. repeat split; eauto.
  - repeat constructor; simpl; intuition discriminate.
  - intuition.
Qed.
