(* Props/C11.v — property C11: linked references resolve exactly to their symbols.
   Statements only; proofs in Proofs/C11_*.v.  Model: Model/Reloc.v (hand model of Relocation.apply of each
   class, BitView / Token writes, get_symbol_id_value, Linker._do_relocation; wrap_negative/align from Gen.bitfun,
   regenerated per run); Spec: Spec/RelocSpec.v (ISA decoders); Gen/Tab_relocs.v: every relocation class of /repo. *)
From PV Require Import Lib.Py Spec.RelocSpec Gen.bitfun Model.Reloc Gen.Tab_relocs Proofs.C11_bits Proofs.C11_final Proofs.C11_tie Proofs.C11_relocs3 Proofs.C11_relocs4 Model.RelocFix Proofs.C11_blfix.
Open Scope Z_scope.

Theorem c11_bitview_writes_field : forall data length a b v,
  Forall (fun d => 0 <= d < 256) data -> 0 <= a -> a < b -> b <= 8 * len data -> len data <= length ->
  0 <= v < 2 ^ (b - a) ->
  exists d', bv_set data length a b v = Ok d' /\ bytes_ok (len data) d' /\
    bits (le_word d') a (b - a) = v /\
    forall a' n', 0 <= a' -> 0 <= n' -> a' + n' <= a \/ b <= a' ->
                  bits (le_word d') a' n' = bits (le_word data) a' n'.
Proof. exact bitview_writes_field. Qed.
Print Assumptions c11_bitview_writes_field.

Theorem c11_exact_rv_jal : forall k A S P data, is_jtype k -> bytes_ok 4 data -> S mod 2 = 0 -> P mod 2 = 0 ->
  fits_signed 21 (S - P) ->
  exists d', apply k A S data P = Ok d' /\ bytes_ok 4 d' /\ rv_jal_target (le_word d') P = S /\
             bits (le_word d') 0 12 = bits (le_word data) 0 12.
Proof. exact exact_rv_jal. Qed.
Print Assumptions c11_exact_rv_jal.

Theorem c11_rejects_rv_jal_outside : forall k A S P data, is_jtype k -> S mod 2 = 0 -> P mod 2 = 0 ->
  S - P < - 2 ^ 20 \/ 2 ^ 21 <= S - P -> apply k A S data P = Diag 1.
Proof. exact rejects_rv_jal_outside. Qed.
Print Assumptions c11_rejects_rv_jal_outside.

Theorem c11_rejects_rv_jal_refuted :
  exists S P data d', ~ fits_signed 21 (S - P) /\ apply RvBImm20 0 S data P = Ok d' /\
                      rv_jal_target (le_word d') P <> S.
Proof. exact rejects_rv_jal_refuted. Qed.
Print Assumptions c11_rejects_rv_jal_refuted.

Theorem c11_exact_rv_branch : forall A S P data, bytes_ok 4 data -> S mod 2 = 0 -> P mod 2 = 0 ->
  fits_signed 13 (S - P) ->
  exists d', apply RvBImm12 A S data P = Ok d' /\ bytes_ok 4 d' /\ rv_branch_target (le_word d') P = S /\
             bits (le_word d') 0 7 = bits (le_word data) 0 7 /\ bits (le_word d') 12 13 = bits (le_word data) 12 13.
Proof. exact exact_rv_branch. Qed.
Print Assumptions c11_exact_rv_branch.

Theorem c11_rejects_rv_branch_outside : forall A S P data, S mod 2 = 0 -> P mod 2 = 0 ->
  S - P < - 2 ^ 12 \/ 2 ^ 13 <= S - P -> apply RvBImm12 A S data P = Diag 1.
Proof. exact rejects_rv_branch_outside. Qed.
Print Assumptions c11_rejects_rv_branch_outside.

Theorem c11_rejects_rv_branch_refuted :
  exists S P data d', ~ fits_signed 13 (S - P) /\ apply RvBImm12 0 S data P = Ok d' /\
                      rv_branch_target (le_word d') P = S - 8192.
Proof. exact rejects_rv_branch_refuted. Qed.
Print Assumptions c11_rejects_rv_branch_refuted.

Theorem c11_exact_rv_lui_addi : forall A S Phi Plo dhi dlo, bytes_ok 4 dhi -> bytes_ok 4 dlo -> S mod 2 = 0 ->
  exists h l, apply RvAbs32Imm20 A S dhi Phi = Ok h /\ apply RvAbs32Imm12 A S dlo Plo = Ok l /\
    bytes_ok 4 h /\ bytes_ok 4 l /\
    rv_lui_addi (le_word h) (le_word l) = S mod 2 ^ 32 /\
    bits (le_word h) 0 12 = bits (le_word dhi) 0 12 /\ bits (le_word l) 0 20 = bits (le_word dlo) 0 20.
Proof. exact exact_rv_lui_addi. Qed.
Print Assumptions c11_exact_rv_lui_addi.

Theorem c11_exact_rv_auipc_addi : forall A S P dhi dlo, bytes_ok 4 dhi -> bytes_ok 4 dlo -> S mod 2 = 0 ->
  P mod 2 = 0 ->
  exists h l, apply RvRelImm20 A S dhi P = Ok h /\ apply RvRelImm12 A S dlo (P + 4) = Ok l /\
    bytes_ok 4 h /\ bytes_ok 4 l /\
    rv_auipc_addi (le_word h) (le_word l) P = S mod 2 ^ 32 /\
    bits (le_word h) 0 12 = bits (le_word dhi) 0 12 /\ bits (le_word l) 0 20 = bits (le_word dlo) 0 20.
Proof. exact exact_rv_auipc_addi. Qed.
Print Assumptions c11_exact_rv_auipc_addi.

Theorem c11_exact_rvc_cj : forall A S P data, bytes_ok 2 data -> S mod 2 = 0 -> P mod 2 = 0 ->
  fits_signed 12 (S - P) ->
  exists d', apply RvcBcImm11 A S data P = Ok d' /\ bytes_ok 2 d' /\ rvc_j_target (le_word d') P = S /\
             bits (le_word d') 0 2 = bits (le_word data) 0 2 /\ bits (le_word d') 13 3 = bits (le_word data) 13 3.
Proof. exact exact_rvc_cj. Qed.
Print Assumptions c11_exact_rvc_cj.

Theorem c11_rejects_rvc_cj_refuted :
  exists S P data d', ~ fits_signed 12 (S - P) /\ apply RvcBcImm11 0 S data P = Ok d' /\
                      rvc_j_target (le_word d') P = S - 4096.
Proof. exact rejects_rvc_cj_refuted. Qed.
Print Assumptions c11_rejects_rvc_cj_refuted.

Theorem c11_exact_rvc_cb : forall A S P data, bytes_ok 2 data -> S mod 2 = 0 -> P mod 2 = 0 ->
  fits_signed 9 (S - P) ->
  exists d', apply RvcBcImm8 A S data P = Ok d' /\ bytes_ok 2 d' /\ rvc_b_target (le_word d') P = S /\
             bits (le_word d') 0 2 = bits (le_word data) 0 2 /\ bits (le_word d') 7 3 = bits (le_word data) 7 3 /\
             bits (le_word d') 13 3 = bits (le_word data) 13 3.
Proof. exact exact_rvc_cb. Qed.
Print Assumptions c11_exact_rvc_cb.

Theorem c11_exact_arm_b : forall A S P data, bytes_ok 4 data -> S mod 4 = 0 -> P mod 4 = 0 ->
  fits_signed 26 (S - (P + 8)) ->
  exists d', apply ArmImm24 A S data P = Ok d' /\ bytes_ok 4 d' /\ arm_b_target (le_word d') P = S /\
             bits (le_word d') 24 8 = bits (le_word data) 24 8.
Proof. exact exact_arm_b. Qed.
Print Assumptions c11_exact_arm_b.

Theorem c11_rejects_arm_b_refuted :
  exists S P data d', ~ fits_signed 26 (S - (P + 8)) /\ apply ArmImm24 0 S data P = Ok d' /\
                      arm_b_target (le_word d') P = S - 67108864.
Proof. exact rejects_arm_b_refuted. Qed.
Print Assumptions c11_rejects_arm_b_refuted.

Theorem c11_exact_x86_rel32 : forall A S P data, bytes_ok 4 data -> fits_signed 32 (S + A - P) ->
  exists d', apply X86Rel32 A S data P = Ok d' /\ bytes_ok 4 d' /\ x86_rel32 (le_word d') = S + A - P.
Proof. exact exact_x86_rel32. Qed.
Print Assumptions c11_exact_x86_rel32.

Theorem c11_exact_x86_rel32_target : forall S P data, bytes_ok 4 data -> fits_signed 32 (S - 4 - P) ->
  exists d', apply X86Rel32 (-4) S data P = Ok d' /\ bytes_ok 4 d' /\ x86_rel32_target (le_word d') P = S.
Proof. exact exact_x86_rel32_target. Qed.
Print Assumptions c11_exact_x86_rel32_target.

Theorem c11_rejects_x86_rel32_refuted :
  exists A S P data d', ~ fits_signed 32 (S + A - P) /\ apply X86Rel32 A S data P = Ok d' /\
                        x86_rel32 (le_word d') <> S + A - P.
Proof. exact rejects_x86_rel32_refuted. Qed.
Print Assumptions c11_rejects_x86_rel32_refuted.

Theorem c11_exact_abs_word : forall k size A S P data,
  (k = X86Abs32 /\ size = 4) \/ (k = DataAbs32 /\ size = 4 /\ P mod 4 = 0) \/
  (k = DataAbs16 /\ size = 2 /\ P mod 2 = 0) \/ (k = DataAbs64 /\ size = 8 /\ P mod 4 = 0) ->
  bytes_ok size data -> 0 <= S < 2 ^ (8 * size) ->
  exists d', apply k A S data P = Ok d' /\ bytes_ok size d' /\ le_word d' = S.
Proof. exact exact_abs_word. Qed.
Print Assumptions c11_exact_abs_word.

Theorem c11_addend_ignored : forall k A S data P, k <> X86Rel32 -> apply k A S data P = apply k 0 S data P.
Proof. exact addend_ignored. Qed.
Print Assumptions c11_addend_ignored.

Theorem c11_addend_refuted :
  exists A S P data d', A <> 0 /\ apply RvBImm20 A S data P = Ok d' /\ rv_jal_target (le_word d') P = S /\
                        rv_jal_target (le_word d') P <> S + A.
Proof. exact addend_refuted. Qed.
Print Assumptions c11_addend_refuted.

Theorem c11_thumb_bl_refuted :
  exists S P data d', fits_signed 25 (S - (P + 4)) /\ apply ThBlImm11 0 S data P = Ok d' /\
                      thumb_bl_target (le_word d') P <> S.
Proof. exact thumb_bl_refuted. Qed.
Print Assumptions c11_thumb_bl_refuted.

Theorem c11_symbol_value : forall secs syms id v, get_symbol_id_value secs syms id = Ok v ->
  exists y, find_symbol syms id = Ok y /\ y_undef y = false /\
    match y_sec y with
    | None => v = y_val y
    | Some sn => exists s, find_section secs sn = Ok s /\ v = s_addr s + y_val y
    end.
Proof. exact symbol_value. Qed.
Print Assumptions c11_symbol_value.

Theorem c11_do_relocation_site : forall secs syms r secs', 0 <= r_off r -> do_relocation secs syms r = Ok secs' ->
  exists S sec data',
    get_symbol_id_value secs syms (r_sym r) = Ok S /\ find_section secs (r_sec r) = Ok sec /\
    let b := r_off r in let e := r_off r + rk_size (r_kind r) in
    apply (r_kind r) (r_add r) S (sliceZ (s_data sec) b e) (s_addr sec + r_off r) = Ok data' /\
    secs' = update_section secs (r_sec r) (splice (s_data sec) b e data') /\
    sliceZ (splice (s_data sec) b e data') b e = data' /\
    firstn (Z.to_nat b) (splice (s_data sec) b e data') = firstn (Z.to_nat b) (s_data sec) /\
    skipn (Z.to_nat e) (splice (s_data sec) b e data') = skipn (Z.to_nat e) (s_data sec).
Proof. exact do_relocation_site. Qed.
Print Assumptions c11_do_relocation_site.

(* ---- Thumb and x86 classes (site 2-aligned; thumb ranges are the ones the classes assert) *)
Theorem c11_exact_thumb_bcc : forall A S P data, bytes_ok 2 data -> S mod 2 = 0 -> P mod 2 = 0 ->
  - 256 <= S - (P + 4) < 254 ->
  exists d', apply ThRel8 A S data P = Ok d' /\ bytes_ok 2 d' /\ thumb_bcc_target (le_word d') P = S /\
             bits (le_word d') 8 8 = bits (le_word data) 8 8.
Proof. exact Proofs.C11_relocs3.exact_thumb_bcc. Qed.
Print Assumptions c11_exact_thumb_bcc.

Theorem c11_exact_thumb_ldr_lit : forall A S P data, bytes_ok 2 data -> S mod 4 = 0 -> P mod 2 = 0 ->
  0 <= S - (P + 4) / 4 * 4 < 1024 ->
  exists d', apply ThLit8 A S data P = Ok d' /\ bytes_ok 2 d' /\ thumb_ldr_lit_addr (le_word d') P = S /\
             bits (le_word d') 8 8 = bits (le_word data) 8 8.
Proof. exact Proofs.C11_relocs3.exact_thumb_ldr_lit. Qed.
Print Assumptions c11_exact_thumb_ldr_lit.

Theorem c11_exact_thumb_b : forall A S P data, bytes_ok 2 data -> P mod 2 = 0 -> (S - (P + 4)) mod 2 = 0 ->
  - 2048 <= S - (P + 4) < 2046 ->
  exists d', apply ThWrapNew11 A S data P = Ok d' /\ bytes_ok 2 d' /\ thumb_b_target (le_word d') P = S /\
             bits (le_word d') 11 5 = bits (le_word data) 11 5.
Proof. exact Proofs.C11_relocs3.exact_thumb_b. Qed.
Print Assumptions c11_exact_thumb_b.

(* BL is exact within +-4 MiB when the template has J1 = J2 = 1 (the assembler's); beyond: c11_thumb_bl_refuted *)
Theorem c11_exact_thumb_bl : forall A S P data, bytes_ok 4 data -> S mod 2 = 0 -> P mod 2 = 0 ->
  bits (le_word data) 29 1 = 1 -> bits (le_word data) 27 1 = 1 ->
  - 2 ^ 22 <= S - (P + 4) < 2 ^ 22 ->
  exists d', apply ThBlImm11 A S data P = Ok d' /\ bytes_ok 4 d' /\ thumb_bl_target (le_word d') P = S /\
    bits (le_word d') 11 5 = bits (le_word data) 11 5 /\ bits (le_word d') 27 5 = bits (le_word data) 27 5.
Proof. exact Proofs.C11_relocs3.exact_thumb_bl. Qed.
Print Assumptions c11_exact_thumb_bl.

(* ARM LDR (literal): the class ORs into the field; the template must have imm12[11:8] and U zero (assembler's) *)
Theorem c11_exact_arm_ldr_lit : forall A S P data, bytes_ok 4 data -> S mod 4 = 0 -> P mod 4 = 0 ->
  bits (le_word data) 8 4 = 0 -> bits (le_word data) 23 1 = 0 ->
  - 4096 < S - (P + 8) < 4096 ->
  exists d', apply ArmLdrImm12 A S data P = Ok d' /\ bytes_ok 4 d' /\ arm_ldr_lit_addr (le_word d') P = S /\
    bits (le_word d') 12 11 = bits (le_word data) 12 11 /\ bits (le_word d') 24 8 = bits (le_word data) 24 8.
Proof. exact Proofs.C11_relocs4.exact_arm_ldr_lit. Qed.
Print Assumptions c11_exact_arm_ldr_lit.

Theorem c11_exact_x86_jmp8 : forall A S P data, bytes_ok 1 data -> fits_signed 8 (S - (P + 1)) ->
  exists d', apply X86Jmp8 A S data P = Ok d' /\ bytes_ok 1 d' /\ x86_rel8_target (le_word d') P = S.
Proof. exact Proofs.C11_relocs3.exact_x86_jmp8. Qed.
Print Assumptions c11_exact_x86_jmp8.

Theorem c11_exact_x86_abs64 : forall A S P data, bytes_ok 8 data -> 0 <= S < 2 ^ 64 ->
  exists d', apply X86Abs64 A S data P = Ok d' /\ bytes_ok 8 d' /\ le_word d' = S.
Proof. exact Proofs.C11_relocs3.exact_x86_abs64. Qed.
Print Assumptions c11_exact_x86_abs64.

(* tie T: the hand model equals, for all arguments, the definitions regenerated (c11_flatten + py2coq) from the
   calc/apply methods of the current source (24 classes; arm ldr_imm12/adr_imm12 and thumb b_imm11_imm6 stay tie H) *)
(* model_apply k = apply k, except for a class whose repair the current source already has (Gen/reloc_switch.v,
   probed per run): then it is the repaired hand model (Model/RelocFix.v) *)
Theorem c11_tie_bodies : forall k A S d P,
  Proofs.C11_tie.model_apply k A S d P = Proofs.C11_tie.gen_apply k A S d P.
Proof. exact Proofs.C11_tie.tie_bodies. Qed.
Print Assumptions c11_tie_bodies.

(* the repaired Thumb BL relocation (fixes/C11-thumb-bl-j1j2.diff: J1/J2 written) is exact on the whole +-16 MiB
   range of encoding T1, for every template *)
Theorem c11_thumb_bl_full_range : forall S P data, bytes_ok 4 data -> S mod 2 = 0 -> P mod 2 = 0 ->
  - 2 ^ 24 <= S - (P + 4) < 2 ^ 24 - 2 ->
  exists d', Model.RelocFix.apply_bl_fixed S data P = Ok d' /\ bytes_ok 4 d' /\ thumb_bl_target (le_word d') P = S /\
    bits (le_word d') 11 5 = bits (le_word data) 11 5 /\ bits (le_word d') 28 1 = bits (le_word data) 28 1 /\
    bits (le_word d') 30 2 = bits (le_word data) 30 2.
Proof. exact Proofs.C11_blfix.thumb_bl_full_range. Qed.
Print Assumptions c11_thumb_bl_full_range.

Theorem c11_table_sizes : forallb table_row_ok reloc_table = true.
Proof. exact table_sizes. Qed.
Print Assumptions c11_table_sizes.

(* the hypotheses of the exactness theorems are inhabited: jal at 0x100 to a symbol 2 KiB ahead *)
Example c11_nonvacuous :
  match apply RvBImm20 0 2304 [111; 0; 0; 0] 256 with
  | Ok d => (rv_jal_target (le_word d) 256 =? 2304) && (bits (le_word d) 0 12 =? 111)
  | _ => false
  end = true.
Proof. vm_compute. reflexivity. Qed.
