(* Props/C01.v — the C front-end preserves the meaning of defined-behaviour integer expressions
   (DESIGN §4 C01; PARTIAL, level "other").  Spec: Spec/CExprSpec.v on top of Spec/CIntSpec.v.
   Model: Model/CGenExpr.v (CSemantics typing [elab], CCodeGenerator lowering [lower]/[lcond] to IR trees run
   with Spec/IRSem arithmetic [xrun]/[crun]).  [agrees sv dm te e]: on every node of e the typing helpers of
   variant sv (promote / get_common_type) give the C11 type and every `x op= e` has the type of x as common
   type.  [faithful k g]: the IR type of every C integer type has its width and signedness.
   Relation to C27: c27_eval_exact_partial states the same typing result for CONSTANT expressions and the
   constant evaluator; here the operands are arbitrary (parameters, assignments) and the object is the IR. *)
From PV Require Import Lib.Py Spec.CIntSpec Spec.CExprSpec Gen.ceval Model.CEval Model.CGenExpr
                       Model.CGenExprRun Spec.IRSyntax Spec.IRSem Proofs.C01_base Proofs.C01_arith Proofs.C01_expr
                       Proofs.C01_refuted Proofs.C01_ptr Model.CGenPtr Spec.CStmtSpec Model.CGenStmt Proofs.C01_stmt Gen.c01_targets.
Open Scope Z_scope.

(* -- typing: the type CSemantics assigns is the C11 type (6.3.1.1, 6.3.1.8, 6.5.x) -- *)
Theorem c01_expr_typing : forall (g : cgen) (te : tenv) (sv : semv) (e : cx),
  agrees sv (dm_of (cg_ctx g)) te e = true ->
  ttyp (elab sv te e) = xtype_of (dm_of (cg_ctx g)) te e.
Proof. exact expr_typing. Qed.
Print Assumptions c01_expr_typing.

(* -- value: every defined-behaviour expression evaluates in IR to the C value and final store -- *)
Theorem c01_expr_value : forall (k : cfg) (g : cgen), wf_ctx (cg_ctx g) -> faithful k g ->
  forall (te : tenv) (sv : semv) (e : cx) (st : store) (v : Z) (st' : store),
  store_ok (dm_of (cg_ctx g)) te st -> agrees sv (dm_of (cg_ctx g)) te e = true ->
  ceval (dm_of (cg_ctx g)) te st e = Some (v, st') ->
  xrun k (lower g (elab sv te e)) st = ODone (v, st').
Proof. exact expr_value. Qed.
Print Assumptions c01_expr_value.

(* `rt f(T0 a0, ...) { return e; }` returns the C value converted to rt *)
Theorem c01_function_value : forall (k : cfg) (g : cgen), wf_ctx (cg_ctx g) -> faithful k g ->
  forall (te : tenv) (sv : semv) (rt : ity) (e : cx) (st : store) (v : Z) (st' : store),
  store_ok (dm_of (cg_ctx g)) te st -> agrees sv (dm_of (cg_ctx g)) te e = true ->
  ceval (dm_of (cg_ctx g)) te st e = Some (v, st') ->
  xrun k (c_tree sv g te rt e) st = ODone (convert (dm_of (cg_ctx g)) rt v, st').
Proof. exact fn_value. Qed.
Print Assumptions c01_function_value.

(* THE CURRENT CODE (sem_c11 = CSemantics since commit c83990b, fixes/C01-common-type.diff; the check probes the real
   promote / get_common_type on every run): no typing hypothesis is left, except for op= *)
Theorem c01_expr_value_c11 : forall (k : cfg) (g : cgen), wf_ctx (cg_ctx g) -> faithful k g ->
  forall (te : tenv) (e : cx) (st : store) (v : Z) (st' : store),
  store_ok (dm_of (cg_ctx g)) te st -> cassign_all (dm_of (cg_ctx g)) te false e = true ->
  ceval (dm_of (cg_ctx g)) te st e = Some (v, st') ->
  ttyp (elab (sem_c11 (cg_ctx g)) te e) = xtype_of (dm_of (cg_ctx g)) te e /\
  xrun k (lower g (elab (sem_c11 (cg_ctx g)) te e)) st = ODone (v, st').
Proof.
  intros k g W F te e st v st' SO CA EV. pose proof (agrees_c11 (cg_ctx g) W te e CA) as A. split.
  - exact (expr_typing g te _ e A).
  - exact (expr_value k g W F te _ e st v st' SO A EV).
Qed.
Print Assumptions c01_expr_value_c11.

(* the code with fixes/C01-compound-assign.diff (sem_c11a: `x op= e` computed in the type of `x op e`): NO hypothesis on
   the expression is left — every defined-behaviour expression of the fragment has the C type, value and effects *)
Theorem c01_expr_value_unconditional : forall (k : cfg) (g : cgen), wf_ctx (cg_ctx g) -> faithful k g ->
  forall (te : tenv) (e : cx) (st : store) (v : Z) (st' : store),
  store_ok (dm_of (cg_ctx g)) te st -> ceval (dm_of (cg_ctx g)) te st e = Some (v, st') ->
  ttyp (elab (sem_c11a (cg_ctx g)) te e) = xtype_of (dm_of (cg_ctx g)) te e /\
  xrun k (lower g (elab (sem_c11a (cg_ctx g)) te e)) st = ODone (v, st').
Proof.
  intros k g W F te e st v st' SO EV. pose proof (agrees_c11a (cg_ctx g) W te e) as A. split.
  - exact (expr_typing g te _ e A).
  - exact (expr_value k g W F te _ e st v st' SO A EV).
Qed.
Print Assumptions c01_expr_value_unconditional.

(* -- one theorem per operator: IRSem arithmetic in the IR type of t on operands of type t is the C operator -- *)
Theorem c01_binop_add : forall (k : cfg) (g : cgen), wf_ctx (cg_ctx g) -> faithful k g -> forall t a b r,
  in_range (dm_of (cg_ctx g)) t a = true -> in_range (dm_of (cg_ctx g)) t b = true ->
  arith (dm_of (cg_ctx g)) t BAdd a b = Some r -> eval_binop k (irty g t) Add a b = ODone r.
Proof. intros k g W F t a b r Ra Rb H. exact (binop_arith_exact k g W F t BAdd Add a b r eq_refl eq_refl Ra Rb H). Qed.
Print Assumptions c01_binop_add.
Theorem c01_binop_sub : forall (k : cfg) (g : cgen), wf_ctx (cg_ctx g) -> faithful k g -> forall t a b r,
  in_range (dm_of (cg_ctx g)) t a = true -> in_range (dm_of (cg_ctx g)) t b = true ->
  arith (dm_of (cg_ctx g)) t BSub a b = Some r -> eval_binop k (irty g t) Sub a b = ODone r.
Proof. intros k g W F t a b r Ra Rb H. exact (binop_arith_exact k g W F t BSub Sub a b r eq_refl eq_refl Ra Rb H). Qed.
Print Assumptions c01_binop_sub.
Theorem c01_binop_mul : forall (k : cfg) (g : cgen), wf_ctx (cg_ctx g) -> faithful k g -> forall t a b r,
  in_range (dm_of (cg_ctx g)) t a = true -> in_range (dm_of (cg_ctx g)) t b = true ->
  arith (dm_of (cg_ctx g)) t BMul a b = Some r -> eval_binop k (irty g t) Mul a b = ODone r.
Proof. intros k g W F t a b r Ra Rb H. exact (binop_arith_exact k g W F t BMul Mul a b r eq_refl eq_refl Ra Rb H). Qed.
Print Assumptions c01_binop_mul.
Theorem c01_binop_div : forall (k : cfg) (g : cgen), wf_ctx (cg_ctx g) -> faithful k g -> forall t a b r,
  in_range (dm_of (cg_ctx g)) t a = true -> in_range (dm_of (cg_ctx g)) t b = true ->
  arith (dm_of (cg_ctx g)) t BDiv a b = Some r -> eval_binop k (irty g t) Div a b = ODone r.
Proof. intros k g W F t a b r Ra Rb H. exact (binop_arith_exact k g W F t BDiv Div a b r eq_refl eq_refl Ra Rb H). Qed.
Print Assumptions c01_binop_div.
Theorem c01_binop_mod : forall (k : cfg) (g : cgen), wf_ctx (cg_ctx g) -> faithful k g -> forall t a b r,
  in_range (dm_of (cg_ctx g)) t a = true -> in_range (dm_of (cg_ctx g)) t b = true ->
  arith (dm_of (cg_ctx g)) t BMod a b = Some r -> eval_binop k (irty g t) Rem a b = ODone r.
Proof. intros k g W F t a b r Ra Rb H. exact (binop_arith_exact k g W F t BMod Rem a b r eq_refl eq_refl Ra Rb H). Qed.
Print Assumptions c01_binop_mod.
Theorem c01_binop_and : forall (k : cfg) (g : cgen), wf_ctx (cg_ctx g) -> faithful k g -> forall t a b r,
  in_range (dm_of (cg_ctx g)) t a = true -> in_range (dm_of (cg_ctx g)) t b = true ->
  arith (dm_of (cg_ctx g)) t BAnd a b = Some r -> eval_binop k (irty g t) And a b = ODone r.
Proof. intros k g W F t a b r Ra Rb H. exact (binop_arith_exact k g W F t BAnd And a b r eq_refl eq_refl Ra Rb H). Qed.
Print Assumptions c01_binop_and.
Theorem c01_binop_or : forall (k : cfg) (g : cgen), wf_ctx (cg_ctx g) -> faithful k g -> forall t a b r,
  in_range (dm_of (cg_ctx g)) t a = true -> in_range (dm_of (cg_ctx g)) t b = true ->
  arith (dm_of (cg_ctx g)) t BOr a b = Some r -> eval_binop k (irty g t) Or a b = ODone r.
Proof. intros k g W F t a b r Ra Rb H. exact (binop_arith_exact k g W F t BOr Or a b r eq_refl eq_refl Ra Rb H). Qed.
Print Assumptions c01_binop_or.
Theorem c01_binop_xor : forall (k : cfg) (g : cgen), wf_ctx (cg_ctx g) -> faithful k g -> forall t a b r,
  in_range (dm_of (cg_ctx g)) t a = true -> in_range (dm_of (cg_ctx g)) t b = true ->
  arith (dm_of (cg_ctx g)) t BXor a b = Some r -> eval_binop k (irty g t) Xor a b = ODone r.
Proof. intros k g W F t a b r Ra Rb H. exact (binop_arith_exact k g W F t BXor Xor a b r eq_refl eq_refl Ra Rb H). Qed.
Print Assumptions c01_binop_xor.
Theorem c01_binop_shl : forall (k : cfg) (g : cgen), wf_ctx (cg_ctx g) -> faithful k g -> forall t a n r,
  shift (dm_of (cg_ctx g)) t BShl a n = Some r -> eval_binop k (irty g t) Shl a n = ODone r.
Proof. intros k g W F t a n r H. exact (binop_shift_exact k g W F t BShl Shl a n r eq_refl eq_refl H). Qed.
Print Assumptions c01_binop_shl.
Theorem c01_binop_shr : forall (k : cfg) (g : cgen), wf_ctx (cg_ctx g) -> faithful k g -> forall t a n r,
  shift (dm_of (cg_ctx g)) t BShr a n = Some r -> eval_binop k (irty g t) Shr a n = ODone r.
Proof. intros k g W F t a n r H. exact (binop_shift_exact k g W F t BShr Shr a n r eq_refl eq_refl H). Qed.
Print Assumptions c01_binop_shr.
Theorem c01_unop_neg : forall (k : cfg) (g : cgen), wf_ctx (cg_ctx g) -> faithful k g -> forall t a r,
  fit (dm_of (cg_ctx g)) t (- a) = Some r -> eval_unop k (irty g t) Neg a = ODone r.
Proof. exact neg_exact. Qed.
Print Assumptions c01_unop_neg.
Theorem c01_unop_compl : forall (k : cfg) (g : cgen), wf_ctx (cg_ctx g) -> faithful k g -> forall t a,
  eval_unop k (irty g t) Inv a = ODone (convert (dm_of (cg_ctx g)) t (Z.lnot a)).
Proof. exact inv_exact. Qed.
Print Assumptions c01_unop_compl.

(* every int -> int conversion (truncation, zero extension, sign extension) is the C conversion 6.3.1.3 *)
Theorem c01_cast_exact : forall (k : cfg) (g : cgen), wf_ctx (cg_ctx g) -> faithful k g -> forall t v,
  as_int (eval_cast k (irty g t) (Vint v)) = ODone (convert (dm_of (cg_ctx g)) t v).
Proof. exact cast_exact. Qed.
Print Assumptions c01_cast_exact.

(* the IR condition on operands of the common type is the C comparison: signed or unsigned according to
   the (converted) operand type, because IR values are normalised to the range of their type *)
Theorem c01_compare_exact : forall (g : cgen) t op cc a b r,
  ir_cond op = Some cc -> arith (dm_of (cg_ctx g)) t op a b = Some r -> r = CIntSpec.b2z (eval_cond cc a b).
Proof. exact compare_exact. Qed.
Print Assumptions c01_compare_exact.

(* the skipped operand of && || ?: has no influence (it may be anything, even ill-formed) *)
Theorem c01_short_circuit : forall (k : cfg) (g : cgen), wf_ctx (cg_ctx g) -> faithful k g ->
  (forall a b st s1, crun k (lcond g a) st = ODone (false, s1) ->
     xrun k (lower g (TBin a (OBin BLAnd) b TInt)) st = ODone (0, s1)) /\
  (forall a b st s1, crun k (lcond g a) st = ODone (true, s1) ->
     xrun k (lower g (TBin a (OBin BLOr) b TInt)) st = ODone (1, s1)) /\
  (forall x a b t st s1 bv, crun k (lcond g x) st = ODone (bv, s1) ->
     xrun k (lower g (TTern x a b t)) st = xrun k (lower g (if bv then a else b)) s1).
Proof.
  intros k g W F. split; [|split].
  - exact (short_circuit_and k g W F).
  - exact (short_circuit_or k g W F).
  - exact (short_circuit_cond k g).
Qed.
Print Assumptions c01_short_circuit.

(* the spec extends C27's: on closed expressions it is CIntSpec.eval *)
Theorem c01_spec_extends_cintspec : forall dm te st e,
  xeval dm te st (embed e) = match eval dm e with Some v => Some (v, st) | None => None end.
Proof. exact xeval_embed. Qed.
Print Assumptions c01_spec_extends_cintspec.

(* the targets as exported on this run: x86_64 and arm have a faithful IR type map *)
Theorem c01_targets_faithful : forall k, faithful k tg_x86_64 /\ faithful k tg_arm.
Proof. exact targets_faithful. Qed.
Print Assumptions c01_targets_faithful.

(* -- violations, with witnesses replayed on c_to_ir by tools/props/c01.py on every run.  HISTORICAL (typing before
      commit c83990b, sem_orig): c01_common_type_ilp32/lp64_refuted, c01_promote_int16_refuted, c01_orig_fragment.
      STILL PRESENT (known findings): c01_uint_irtype_int16_refuted, c01_compound_assign_refuted (its second half
      is about sem_c11, the current typing) -- *)
(* ILP32: unsigned a; long b; (a + b) / 2 *)
Theorem c01_common_type_ilp32_refuted :
  exists te rt e args, type_refuted sem_orig orig_ilp32 te e = true /\
                       value_refuted sem_orig orig_ilp32 te rt e args = true.
Proof. exists [TUInt; TLong], TULong, w_ilp32, [4294967295; -1]. split; apply ilp32_refuted. Qed.
Print Assumptions c01_common_type_ilp32_refuted.
(* LP64: unsigned long a; long long b; b < a *)
Theorem c01_common_type_lp64_refuted :
  exists te rt e args, value_refuted sem_orig orig_lp64 te rt e args = true.
Proof. exists [TULong; TLLong], TInt, w_lp64, [1; -1]. apply lp64_refuted. Qed.
Print Assumptions c01_common_type_lp64_refuted.
(* 16-bit int: unsigned short a; (a - 1) < 0 *)
Theorem c01_promote_int16_refuted :
  exists te rt e args, value_refuted sem_orig orig_int16 te rt e args = true.
Proof. exists [TUShort], TInt, w_int16, [0]. apply int16_promote_refuted. Qed.
Print Assumptions c01_promote_int16_refuted.
(* 16-bit int: unsigned int is lowered to the signed IR type i16; (long)a for a = 40000 gives -25536 *)
Theorem c01_uint_irtype_int16_refuted :
  faithful_b default_cfg orig_int16 = false /\
  exists te rt e args, value_refuted sem_orig orig_int16 te rt e args = true.
Proof. split; [apply int16_irtype_refuted|]. exists [TUInt], TLong, (XVar 0), [40000]. apply int16_irtype_refuted. Qed.
Print Assumptions c01_uint_irtype_int16_refuted.
(* every data model, both typing variants: int a; unsigned b; a /= b is computed as a signed division *)
Theorem c01_compound_assign_refuted :
  (exists te rt e args, value_refuted sem_orig orig_lp64 te rt e args = true) /\
  (exists te rt e args, value_refuted (sem_c11 (cg_ctx orig_lp64)) orig_lp64 te rt e args = true).
Proof.
  split; exists [TInt; TUInt], TInt, (XAssignOp BDiv 0 (XVar 1)), [-7; 2]; apply compound_assign_refuted.
Qed.
Print Assumptions c01_compound_assign_refuted.
(* exactly these operand types are outside [agrees] for the code as found (pairs of promoted types with a
   non-C common type, types with a non-C promotion) *)
Theorem c01_orig_fragment :
  (disagree_pairs sem_orig (dm_of (cg_ctx orig_lp64)), promote_bad sem_orig (dm_of (cg_ctx orig_lp64)))
    = ([(TULong, TLLong); (TLLong, TULong)], []) /\
  (disagree_pairs sem_orig (dm_of (cg_ctx orig_ilp32)), promote_bad sem_orig (dm_of (cg_ctx orig_ilp32)))
    = ([(TUInt, TLong); (TLong, TUInt)], []) /\
  (disagree_pairs sem_orig (dm_of (cg_ctx orig_int16)), promote_bad sem_orig (dm_of (cg_ctx orig_int16)))
    = ([], [TUShort]).
Proof. exact orig_fragment. Qed.
Print Assumptions c01_orig_fragment.

(* -- pointer +/- integer (gen_binop): scaling by sizeof and conversion of the index to the pointer width.
      With the index scaled in the pointer type (fixes/C01-pointer-index-scaling.diff; what p[n] and p += n
      always did) the IR computes the C address modulo the pointer width for EVERY element size, index type,
      index value and both operators; in bounds it is exactly a +/- n * esize. -- *)
Theorem c01_ptr_arith_exact : forall (k : cfg) (sub : bool) (it : ty) (a n esize : Z), 0 <= ptr_bytes k ->
  ptr_arith k true sub it a n esize = ODone (c_ptr k sub a n esize) /\
  (0 <= (if sub then a - n * esize else a + n * esize) < pw k ->
   ptr_arith k true sub it a n esize = ODone (if sub then a - n * esize else a + n * esize)).
Proof.
  intros k sub it a n esize H. split; [now apply ptr_arith_fixed|now apply ptr_arith_fixed_inbounds].
Qed.
Print Assumptions c01_ptr_arith_exact.
(* the code before that fix multiplies in the IR type of the index: exact only when n * esize fits that type *)
Theorem c01_ptr_arith_orig_partial : forall (k : cfg) (sub : bool) (it : ty) (b : Z) (sg : bool) (a n esize : Z),
  0 <= ptr_bytes k -> int_shape k it = Some (b, sg) ->
  wrap_bits b sg esize = esize -> wrap_bits b sg (n * esize) = n * esize ->
  ptr_arith k false sub it a n esize = ODone (c_ptr k sub a n esize).
Proof. exact ptr_arith_orig. Qed.
Print Assumptions c01_ptr_arith_orig_partial.
(* long long *p; char n = 31; p + n: 31 * 8 wraps to -8 in i8, the address is p - 8 instead of p + 248 *)
Theorem c01_ptr_scaling_refuted :
  exists k it a n esize, ptr_arith k false false it a n esize <> ODone (c_ptr k false a n esize) /\
                         ptr_arith k true false it a n esize = ODone (c_ptr k false a n esize).
Proof.
  exists default_cfg, I8, 1000, 31, 8. destruct ptr_scaling_refuted as (A & B & C). rewrite A, B, C.
  split; [discriminate|reflexivity].
Qed.
Print Assumptions c01_ptr_scaling_refuted.

(* -- statements: the skeleton CCodeGenerator.gen_stmt builds for compound / expression statements / declarations
      with initialiser / if / if-else / while / do-while / for / break / continue / return / switch (case, default, fall
      through, break; gen_switch's body-then-test-chain layout) over integer locals
      (Model/CGenStmt.v: lower_stmt, run by srun with Spec/IRSem arithmetic) ends like the C big-step semantics
      Spec/CStmtSpec.v: same outcome (normal, break, continue, return v), same final store, same fuel, whenever the
      C execution is defined and terminates.  Unbounded over statements, stores, fuel, data models and typing
      variants.  (The linearisation of the skeleton into blocks, emit_fn_stmt, is compared with the real c_to_ir
      output structurally and by execution on every run; it is not part of this theorem.) -- *)
Theorem c01_stmt_exact : forall (k : cfg) (g : cgen), wf_ctx (cg_ctx g) -> faithful k g ->
  forall (te : tenv) (rt : ity) (sv : semv) (fuel : nat) (s : cstmt) (st : store) (o : sout) (st' : store),
  store_ok (dm_of (cg_ctx g)) te st -> agrees_stmt sv (dm_of (cg_ctx g)) te s = true ->
  exec (dm_of (cg_ctx g)) te rt fuel st s = Some (o, st') ->
  srun k fuel (lower_stmt g (elab_stmt sv te rt s)) st = ODone (o, st') /\ store_ok (dm_of (cg_ctx g)) te st'.
Proof. intros k g W F te rt sv fuel. exact (stmt_sim k g W F te rt sv fuel). Qed.
Print Assumptions c01_stmt_exact.

(* `rt f(params) { body }` : the value returned *)
Theorem c01_function_stmt_exact : forall (k : cfg) (g : cgen), wf_ctx (cg_ctx g) -> faithful k g ->
  forall (te : tenv) (rt : ity) (sv : semv) (np fuel : nat) (args : list Z) (body : cstmt) (v : Z),
  store_ok (dm_of (cg_ctx g)) te (args ++ repeat 0 (List.length te - np)) ->
  agrees_stmt sv (dm_of (cg_ctx g)) te body = true ->
  run_fn (dm_of (cg_ctx g)) te np rt fuel args body = Some v ->
  ('(o, _) <~ srun k fuel (lower_stmt g (elab_stmt sv te rt body)) (args ++ repeat 0 (List.length te - np)) ;;
   match o with SRet r => ODone r | _ => OStuck end) = ODone v.
Proof. exact fn_stmt_exact. Qed.
Print Assumptions c01_function_stmt_exact.

(* int f(int a0) { int a1 = 0; for (int a2 = 0; a2 < a0; a2 += 1) { if (a2 == 2) continue; a1 += a2; } return a1; } *)
Example c01_stmt_nonvacuous :
  let body := SSeq (SDecl 1 (XLit TInt 0))
             (SSeq (SFor (SDecl 2 (XLit TInt 0)) (XBin BLt (XVar 2) (XVar 0)) (XAssignOp BAdd 2 (XLit TInt 1))
                         (SSeq (SIf1 (XBin BEq (XVar 2) (XLit TInt 2)) SContinue) (SExpr (XAssignOp BAdd 1 (XVar 2)))))
                   (SReturn (XVar 1))) in
  agrees_stmt (sem_c11 (cg_ctx tg_x86_64)) (dm_of (cg_ctx tg_x86_64)) [TInt; TInt; TInt] body = true /\
  run_fn (dm_of (cg_ctx tg_x86_64)) [TInt; TInt; TInt] 1 TInt 50 [5] body = Some 8.
Proof. split; reflexivity. Qed.

(* switch: the dispatch chain the code generator emits (test value == Const(case_i) in order, else default, else the
   end) selects exactly the statements C selects, for every list of labelled items (instance of c01_stmt_exact,
   stated separately): int f(int a0) { int a1 = 0; switch (a0 & 3) { case 1: a1 += 10; case 2: a1 += 20; break;
   default: a1 = 7; } return a1; } with a0 = 1 (fall through), 2, 3 (default) *)
Example c01_switch_nonvacuous :
  let body := SSeq (SDecl 1 (XLit TInt 0))
             (SSeq (SSwitch (XBin BAnd (XVar 0) (XLit TInt 3))
                            [(LCase 1, SExpr (XAssignOp BAdd 1 (XLit TInt 10)));
                             (LCase 2, SExpr (XAssignOp BAdd 1 (XLit TInt 20))); (LNone, SBreak);
                             (LDefault, SExpr (XAssign 1 (XLit TInt 7)))])
                   (SReturn (XVar 1))) in
  agrees_stmt (sem_c11a (cg_ctx tg_x86_64)) (dm_of (cg_ctx tg_x86_64)) [TInt; TInt] body = true /\
  map (fun a => run_fn (dm_of (cg_ctx tg_x86_64)) [TInt; TInt] 1 TInt 50 [a] body) [1; 2; 3; 4] =
  [Some 30; Some 20; Some 7; Some 7].
Proof. split; reflexivity. Qed.

(* 16-bit int targets: with fixes/C01-uint16-unsigned.diff (uint_types[2] = ir.u16) the IR type map of msp430 is faithful
   and every theorem above applies to it; the exported map decides (I16 today) *)
Theorem c01_msp430_faithful_when_unsigned : forall k, cg_u16 tg_msp430 = U16 -> faithful k tg_msp430.
Proof.
  intros k H t. unfold irty, uint_types, int_types. rewrite H.
  destruct t; reflexivity.
Qed.
Print Assumptions c01_msp430_faithful_when_unsigned.

Example c01_nonvacuous :
  wf_ctx (cg_ctx tg_x86_64) /\
  agrees sem_orig (dm_of (cg_ctx tg_x86_64)) [TUChar; TLong] (XBin BDiv (XUn UNeg (XVar 0)) (XAssignOp BAdd 1 (XLit TUInt 2))) = true /\
  store_ok (dm_of (cg_ctx tg_x86_64)) [TUChar; TLong] [200; -5] /\
  ceval (dm_of (cg_ctx tg_x86_64)) [TUChar; TLong] [200; -5] (XBin BDiv (XUn UNeg (XVar 0)) (XAssignOp BAdd 1 (XLit TUInt 2)))
    = Some (66, [200; -3]).
Proof. exact nonvacuous. Qed.
