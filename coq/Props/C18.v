(* Props/C18.v — property C18: Intel HEX files round-trip and are standard-conforming.
   Only statements, [exact] of a lemma from Proofs/, and Print Assumptions.
   Model.Hexfile is the hand model (tie H) of ppci/format/hexfile.py with fixes C18-1 (check) and C18-2
   (start address record) applied; check_orig / save_orig are the functions before the fixes. The model is
   cross-checked against the implementation on every run of ./check C18. Spec.IhexSpec is the I32HEX
   format definition with its reference reader ([read_line]: hex text, length byte, checksum) and the
   denotation [denote_file] (blocks of bytes at absolute addresses, start address).
   c18_load_save is unbounded (every well-formed HexFile); c18_load_save_bounded is the earlier
   computational instance (1926 HexFiles), kept as an independent cross-check of the model. *)
From PV Require Import Lib.Py Spec.IhexSpec Model.Hexfile Proofs.C18_hexfile Proofs.C18_refuted
  Proofs.C18_bounded Proofs.C18_loadsave Proofs.C18_complete Proofs.C18_text Proofs.C18_reader.
From Coq Require Import Permutation String.
Open Scope Z_scope.

(* valid_line l = 0 <= address < 65536, typ a byte, data bytes, fewer than 256 of them *)
Theorem c18_line_roundtrip : forall l, valid_line l ->
  exists s, to_line l = Ok s /\ from_line s = Ok l.
Proof. exact line_roundtrip. Qed.
Print Assumptions c18_line_roundtrip.

(* every emitted line is accepted by the reference reader: length byte and two's-complement
   checksum are correct, and it carries the same offset, type and data *)
Theorem c18_line_checksum_length : forall l, valid_line l ->
  exists s, to_line l = Ok s /\ read_line s = Some (mk_irec (address l) (typ l) (data l)).
Proof. exact line_checksum_length. Qed.
Print Assumptions c18_line_checksum_length.

(* whenever check accepts a list of non-empty regions, the result holds exactly the same bytes at the
   same addresses and is canonical: non-empty, ascending, with a gap between neighbours (all adjacent
   regions merged, nothing overlapping) *)
Theorem c18_check_merges : forall rs rs', nonempty rs -> check rs = Ok rs' ->
  (forall a x, holds rs' a x <-> holds rs a x) /\ canonical rs'.
Proof. exact check_merges. Qed.
Print Assumptions c18_check_merges.

(* the fuel given to the merging loop always suffices *)
Theorem c18_check_terminates : forall rs, check rs <> OutOfFuel.
Proof. exact check_terminates. Qed.
Print Assumptions c18_check_terminates.

(* hexfile_ok hf = every region non-empty, made of bytes, inside [0, 2^32); 0 <= start_address < 2^32.
   The saved file is conforming I32HEX (the reference reader accepts it) and denotes the bytes of
   hf.regions at their addresses — also for regions crossing 64 KiB boundaries — plus the start address
   (absent when it is 0, which is what load assumes) *)
Theorem c18_save_denotes : forall hf, hexfile_ok hf ->
  exists lines blocks, save hf = Ok lines /\
    denote_file lines = Some (blocks, if start_address hf =? 0 then None else Some (start_address hf)) /\
    forall a, lookup blocks a = lookup (regions hf) a.
Proof. exact save_denotes. Qed.
Print Assumptions c18_save_denotes.

(* computational instance of c18_load_save: load (save hf) = hf, regions and start address, for the 1926 canonical HexFiles of
   [family] (1..5 regions, 21 anchor addresses around 0 / 64 KiB multiples / 16 MiB / 2^32, 11 sizes up to
   95 bytes and one 65600-byte region, start addresses 0, 1, 0x1234, 2^32-1) *)
Theorem c18_load_save_bounded : forall hf, In hf family -> exists lines, save hf = Ok lines /\
  exists hf', load lines = Ok hf' /\ hexfile_eqb hf' hf = true.
Proof. exact load_save_bounded. Qed.
Print Assumptions c18_load_save_bounded.

(* text shape: every saved line is ':' followed only by characters 0-9 a-f and has at most 71 characters
   (the format allows 1 + 2 * 260 = 521; print() then appends "\n") *)
Theorem c18_lines_ascii_and_length : forall hf lines, hexfile_ok hf -> save hf = Ok lines ->
  Forall line_ok lines.
Proof. exact save_lines_shape. Qed.
Print Assumptions c18_lines_ascii_and_length.

(* wf_hexfile hf = hexfile_ok hf (regions non-empty, bytes, inside [0, 2^32); 0 <= start_address < 2^32)
   and canonical (regions hf) (ascending, a gap between neighbours). UNBOUNDED round trip: loading the
   saved text gives back exactly hf — the same region list and the same start address — for any number and
   size of regions, incl. regions spanning several 64 KiB pages. *)
Theorem c18_load_save : forall hf, wf_hexfile hf ->
  exists lines, save hf = Ok lines /\ load lines = Ok hf.
Proof. exact load_save. Qed.
Print Assumptions c18_load_save.

(* reading direction, for ANY text (not only what save writes; upper- or lower-case hex): if the reference
   I32HEX reader gives the file a denotation (blocks, start) and the data records are non-empty and do not
   overlap, then load succeeds, its regions are canonical and hold exactly the denoted bytes, and its start
   address is the denoted one (0 when the file has no type-05 record) *)
Theorem c18_load_denotes : forall lines blocks st, denote_file lines = Some (blocks, st) ->
  disjoint_set blocks ->
  exists hf, load lines = Ok hf /\ canonical (regions hf) /\
             (forall z x, holds (regions hf) z x <-> holds blocks z x) /\
             start_address hf = start_of st.
Proof. exact load_denotes. Qed.
Print Assumptions c18_load_denotes.

(* completeness of check: disjoint_set rs = all regions non-empty, no region listed twice, any two
   different regions do not overlap (r_end r1 <= fst r2 or r_end r2 <= fst r1), in any order *)
Theorem c18_check_succeeds : forall rs, disjoint_set rs -> exists rs', check rs = Ok rs'.
Proof. exact check_succeeds. Qed.
Print Assumptions c18_check_succeeds.

(* add_region in any insertion order: accepted, and the final regions are canonical and hold exactly
   the inserted bytes; two insertion orders of the same set give the same memory image *)
Theorem c18_add_region_any_order : forall seq, disjoint_set seq ->
  exists hf, add_all seq empty_hexfile = Ok hf /\ canonical (regions hf) /\
             (forall a x, holds (regions hf) a x <-> holds seq a x) /\ start_address hf = 0.
Proof. exact add_all_succeeds. Qed.
Print Assumptions c18_add_region_any_order.

Theorem c18_add_region_order_irrelevant : forall seq seq', Permutation seq seq' -> disjoint_set seq ->
  exists hf hf', add_all seq empty_hexfile = Ok hf /\ add_all seq' empty_hexfile = Ok hf' /\
                 forall a x, holds (regions hf) a x <-> holds (regions hf') a x.
Proof. exact add_all_perm. Qed.
Print Assumptions c18_add_region_order_irrelevant.

(* an overlap is refused with HexFileException (Diag 1): for check on any list containing two overlapping
   non-empty regions, and for add_region of a region overlapping one already present *)
Theorem c18_check_rejects_overlap : forall rs r1 r2 rest, nonempty rs ->
  Permutation (r1 :: r2 :: rest) rs -> ~ no_overlap r1 r2 -> check rs = Diag 1.
Proof. exact check_rejects. Qed.
Print Assumptions c18_check_rejects_overlap.

Theorem c18_add_region_rejects_overlap : forall hf a d r, canonical (regions hf) -> 0 < len d ->
  In r (regions hf) -> ~ no_overlap r (a, d) -> add_region hf a d = Diag 1.
Proof. exact add_region_rejects_overlap. Qed.
Print Assumptions c18_add_region_rejects_overlap.

(* ---- the functions as they were before the fixes violate the property *)
Theorem c18_check_merges_refuted : exists rs rs' a x,
  check_orig rs = Ok rs' /\ holds rs a x /\ ~ holds rs' a x.
Proof. exact check_orig_not_merging. Qed.
Print Assumptions c18_check_merges_refuted.

Theorem c18_add_region_refuted : exists hf1 hf2 hf3,
  add_region_orig empty_hexfile 0 (snd (r16 0)) = Ok hf1 /\
  add_region_orig hf1 32 (snd (r16 32)) = Ok hf2 /\
  add_region_orig hf2 16 (snd (r16 16)) = Ok hf3 /\
  lookup [r16 0; r16 32; r16 16] 40 = Some 40 /\ lookup (regions hf3) 40 = None.
Proof. exact check_orig_loses_data. Qed.
Print Assumptions c18_add_region_refuted.

Theorem c18_load_save_refuted : exists hf lines hf',
  save_orig hf = Ok lines /\ load lines = Ok hf' /\
  start_address hf = 4660 /\ start_address hf' = 0 /\
  (forall img, denote_file lines = Some img -> snd img = None).
Proof. exact save_orig_drops_start. Qed.
Print Assumptions c18_load_save_refuted.

(* hypotheses are inhabited: a 100-byte region crossing 64 KiB, merged from three insertions *)
Example c18_nonvacuous :
  let d := map (fun i => (3 * i + 1) mod 256) (rangeZ 0 100) in
  match (hf <- add_region empty_hexfile 65500 (firstn 30 d) ;;
         hf <- add_region hf 65570 (skipn 70 d) ;;
         add_region hf 65530 (firstn 40 (skipn 30 d))) with
  | Ok hf => region_eqb (hd dflt (regions hf)) (65500, d) && (len (regions hf) =? 1) &&
             roundtrips (mkHexFile (regions hf) 4660)
  | _ => false
  end = true.
Proof. vm_compute. reflexivity. Qed.

(* c18_load_denotes is not vacuous: a third-party style file (upper-case hex, records out of address order) *)
Example c18_reader_nonvacuous :
  let lines := [":020000040001F9"%string; ":02FFFE00AABB9C"%string; ":0400000500001234B1"%string;
                ":010010007778"%string; ":00000001FF"%string] in
  denote_file lines = Some ([(131070, [170; 187]); (65552, [119])], Some 4660) /\
  load lines = Ok (mkHexFile [(65552, [119]); (131070, [170; 187])] 4660).
Proof. vm_compute. split; reflexivity. Qed.
