(* Props/C18.v — property C18: Intel HEX files round-trip and are standard-conforming. *)
From PV Require Import Lib.Py Spec.IhexSpec Model.Hexfile Proofs.C18_hexfile Proofs.C18_refuted.
Open Scope Z_scope.

Theorem c18_check_merges_refuted : exists rs rs' a x,
  check_orig rs = Ok rs' /\ holds rs a x /\ ~ holds rs' a x.
Proof. exact check_orig_not_merging. Qed.
Print Assumptions c18_check_merges_refuted.
