(* Props/C07.v — property C07 (PARTIAL: RISC-V RV32I/M base classes): instruction read/write annotations
   match machine semantics.  Only statements, [exact] of lemmas from Proofs/, and Print Assumptions.
   table_riscv (C08 descriptors) and rw_riscv (Operand read/write flags) are regenerated from /repo on every
   run; exec is the independent ISA semantics Spec/RV32Exec.v; used_registers/defined_registers are
   Model/RvRW.v (= Instruction.used_registers/defined_registers on the exported flags).
     frame_ok i D  := forall s r, ~ In r D -> getreg (exec i s) r = getreg s r
     reads_ok i U  := for states s s' agreeing on the registers U, pc and memory: every register is either
                      equal after exec in both or untouched in both; next pc and memory agree.
   NOT covered: CSR/system/F/RVC classes, other targets (see tools/props/c07.py MANIFEST). *)
From PV Require Import Lib.Py Model.Encode Spec.RV32Decode Spec.RV32Exec Model.RvRW
  Gen.Tab_isa_riscv Gen.Tab_rv_rw Proofs.C08_rv Proofs.C08_rvfull Proofs.C07_exec Proofs.C07_rv Spec.RVCExec Proofs.C07_rvc.
From Coq Require Import String.
Open Scope Z_scope.
Open Scope list_scope.

(* ISA side, every RV32I/M instruction: registers outside [writes i] are unchanged *)
Theorem c07_rv_exec_frame : forall i s r, ~ In r (writes i) -> getreg (exec i s) r = getreg s r.
Proof. exact exec_frame. Qed.
Print Assumptions c07_rv_exec_frame.

(* ISA side: written values, next pc and memory are functions of [reads i], pc and memory *)
Theorem c07_rv_exec_reads : forall i s s',
  (forall r, In r (reads i) -> getreg s r = getreg s' r) -> getpc s = getpc s' ->
  (forall a, loadbyte s a = loadbyte s' a) ->
  (forall r, In r (writes i) -> getreg (exec i s) r = getreg (exec i s') r) /\
  getpc (exec i s) = getpc (exec i s') /\
  (forall a, loadbyte (exec i s) a = loadbyte (exec i s') a).
Proof. exact exec_reads. Qed.
Print Assumptions c07_rv_exec_reads.

(* c07_rv_frame + c07_rv_reads: every covered class of the table (not in the exported failure list), every
   operand tuple at which the emitted bytes decode to what ppci prints (C08's agreement), every state *)
Theorem c07_rv_frame_reads : forall n d c e,
  nth_error table_riscv n = Some d -> nth_error rw_riscv n = Some c -> ~ In n rw_bad_riscv ->
  rv_expectation d = Some e -> assoc_fmt rv_formats (fst e) <> None ->
  forall ops bytes,
  RV32Decode.decode bytes = Some (fst e, map (apply_vsel ops) (snd e)) ->
  exists i, decode_instr bytes = Some i /\
            frame_ok i (defined_registers c ops) /\ reads_ok i (used_registers c ops).
Proof. exact rv_rw_sound. Qed.
Print Assumptions c07_rv_frame_reads.

(* UNCONDITIONAL (uses C08's unbounded c08_rv_reference): every covered class of the table, ALL in-range operands,
   all states - the bytes ppci emits decode to an instruction that respects the declared defs and uses *)
Theorem c07_rv_frame_reads_full : forall n d c e,
  nth_error table_riscv n = Some d -> nth_error rw_riscv n = Some c -> ~ In n rw_bad_riscv ->
  ~ In n (map fst rvref_bad_riscv) ->
  rv_expectation d = Some e -> assoc_fmt rv_formats (fst e) <> None ->
  forall ops, in_range d ops = true ->
  exists bytes i, encode_instr d ops = Ok bytes /\ decode_instr bytes = Some i /\
            frame_ok i (defined_registers c ops) /\ reads_ok i (used_registers c ops).
Proof. exact rv_rw_sound_full. Qed.
Print Assumptions c07_rv_frame_reads_full.

(* the same without the decode hypothesis on C08's bounded operand domain (all registers of each register
   operand, all immediates of <= 13 bits) *)
Theorem c07_rv_frame_reads_bounded : forall n d c e,
  nth_error table_riscv n = Some d -> nth_error rw_riscv n = Some c -> ~ In n rw_bad_riscv ->
  ~ In n (map fst rvref_bad_riscv) ->
  rv_expectation d = Some e -> assoc_fmt rv_formats (fst e) <> None ->
  forall ops, In ops (rv_domain d) ->
  exists bytes i, encode_instr d ops = Ok bytes /\ decode_instr bytes = Some i /\
            frame_ok i (defined_registers c ops) /\ reads_ok i (used_registers c ops).
Proof. exact rv_rw_sound_bounded. Qed.
Print Assumptions c07_rv_frame_reads_bounded.

(* the same for the traced classes outside C08's well-formed table (Loadlrel: lw rd, %pcrel_lo(label)(rd));
   the immediate is whatever the relocated bytes decode to: ops is arbitrary, so every relocated form of a
   label-bearing class (here and in c07_rv_frame_reads) is covered by choosing the operand = relocated field *)
Theorem c07_rv_frame_reads_nonwf : forall n d c e,
  nth_error nonwf_riscv n = Some d -> nth_error rw_nonwf_riscv n = Some c -> ~ In n rw_nonwf_bad_riscv ->
  rv_expectation d = Some e -> assoc_fmt rv_formats (fst e) <> None ->
  forall ops bytes,
  RV32Decode.decode bytes = Some (fst e, map (apply_vsel ops) (snd e)) ->
  exists i, decode_instr bytes = Some i /\
            frame_ok i (defined_registers c ops) /\ reads_ok i (used_registers c ops).
Proof. exact rv_rw_sound_nonwf. Qed.
Print Assumptions c07_rv_frame_reads_nonwf.

Theorem c07_rv_flags_refuted_nonwf : forall n, In n rw_nonwf_bad_riscv ->
  class_ok (desc_at nonwf_riscv n) (nth n rw_nonwf_riscv (EmptyString, [])) = false.
Proof. exact rw_nonwf_refuted. Qed.
Print Assumptions c07_rv_flags_refuted_nonwf.

(* exported failing classes are real failures of the flag check (empty list = none) *)
Theorem c07_rv_flags_refuted : forall n, In n rw_bad_riscv ->
  class_ok (desc_at table_riscv n) (nth n rw_riscv (EmptyString, [])) = false.
Proof. exact rw_refuted. Qed.
Print Assumptions c07_rv_flags_refuted.

(* only stores change memory *)
Theorem c07_rv_mem_frame : forall i s a, is_store i = false -> loadbyte (exec i s) a = loadbyte s a.
Proof. exact rv_mem_frame. Qed.
Print Assumptions c07_rv_mem_frame.

(* the instructions gen_call emits, with the REAL used_registers / defined_registers / clobbers *)
Theorem c07_rv_call_rows : forall k r, nth_error rw_calls_riscv k = Some r -> ~ In k rw_calls_bad_riscv ->
  exists i, callrow_instr r = Some i /\ frame_ok i (c_defs r ++ c_clobbers r) /\ reads_ok i (c_uses r).
Proof. exact rv_call_rows. Qed.
Print Assumptions c07_rv_call_rows.

(* allocatable registers = callee-saved ones + the call's clobbers; result/argument registers are clobbers *)
Theorem c07_rv_call_partition :
  forallb (fun r => existsb (Z.eqb r) rv_callee_save || existsb (Z.eqb r) call_clobbers) rv_alloc_regs = true /\
  forallb (fun r => negb (existsb (Z.eqb r) call_clobbers)) rv_callee_save = true /\
  forallb (fun r => existsb (Z.eqb r) call_clobbers) (rv_ret_reg :: rv_arg_regs) = true.
Proof. exact rv_call_partition. Qed.
Print Assumptions c07_rv_call_partition.

(* ---- compressed instructions (Spec/RVCExec.v: expansion to the base instruction, executed as a 2-byte
   instruction): the expansion writes / reads exactly the registers of the base instruction.  ISA side only; the
   flags of the RVC classes are checked by the oracle (class table + generated-code instances), not by a table
   theorem *)
Theorem c07_rvc_exec_frame : forall i s r, ~ In r (writes i) -> getreg (exec_len2 i s) r = getreg s r.
Proof. exact exec_len2_frame. Qed.
Print Assumptions c07_rvc_exec_frame.

Theorem c07_rvc_exec_reads : forall i s s',
  (forall r, In r (reads i) -> getreg s r = getreg s' r) -> getpc s = getpc s' ->
  (forall a, loadbyte s a = loadbyte s' a) ->
  (forall r, In r (writes i) -> getreg (exec_len2 i s) r = getreg (exec_len2 i s') r) /\
  getpc (exec_len2 i s) = getpc (exec_len2 i s') /\
  (forall a, loadbyte (exec_len2 i s) a = loadbyte (exec_len2 i s') a).
Proof. exact exec_len2_reads. Qed.
Print Assumptions c07_rvc_exec_reads.

(* hypotheses are inhabited: the class of "add" is covered and passes; add x5,x10,x21 declares defs [5] uses [10;21];
   more than 45 classes are covered; the call rows are present *)
Example c07_nonvacuous :
  exists n d c e, nth_error table_riscv n = Some d /\ nth_error rw_riscv n = Some c /\ ~ In n rw_bad_riscv /\
    rv_expectation d = Some e /\ assoc_fmt rv_formats (fst e) <> None /\ mnemonic d = "add"%string /\
    defined_registers c [5; 10; 21] = [5] /\ used_registers c [5; 10; 21] = [10; 21] /\
    In [5; 10; 21] (rv_domain d) /\
    Nat.ltb 45 (List.length (filter (fun d => match covered_fmt d with Some _ => true | None => false end) table_riscv)) = true /\
    Nat.ltb 5 (List.length rw_calls_riscv) = true.
Proof.
  exists 9%nat, (desc_at table_riscv 9), (nth 9 rw_riscv (EmptyString, [])), ("add"%string, [VOp 0; VOp 1; VOp 2]).
  split; [vm_compute; reflexivity|]. split; [vm_compute; reflexivity|]. split; [vm_compute; intuition discriminate|].
  split; [vm_compute; reflexivity|]. split; [vm_compute; discriminate|]. split; [vm_compute; reflexivity|].
  split; [vm_compute; reflexivity|]. split; [vm_compute; reflexivity|].
  split.
  - assert (E : existsb (list_eqb [5; 10; 21]) (rv_domain (desc_at table_riscv 9)) = true) by (vm_compute; reflexivity).
    apply existsb_exists in E. destruct E as (x & Hx & Ex). apply list_eqb_eq in Ex. now subst x.
  - split; vm_compute; reflexivity.
Qed.
