(* Props/C32.v — property C32: generated LR parsers accept exactly their grammar's language.
   Only statements, [exact] of a lemma from Proofs/, and Print Assumptions.
   fix_accept / fix_first = false: ppci/lang/tools/lr.py as it is; = true: with the repairs
   fixes/C32-accept-recursive-start.diff / fixes/C32-lookahead-nullable.diff. *)
From PV Require Import Lib.Py Spec.CfgGrammarSpec Model.LrValidator Model.LrBuilder
                       Proofs.C32_sound Proofs.C32_complete.
Open Scope Z_scope.

(* Soundness, unbounded: for ANY grammar, ANY tables that pass the validator, any token sequence
   (not containing the EOF token type) and any fuel: if the parser model returns a value, the value
   is a parse tree of the grammar, rooted at the start symbol, whose yield is exactly the input. *)
Theorem c32_sound : forall fix_accept g T w fuel v,
  tables_ok fix_accept g T = true -> ~ In EOF w ->
  parse_model fix_accept fuel g T w = Ok v ->
  wf_tree g (start g) v /\ yield v = w.
Proof. exact c32_sound_lemma. Qed.
Print Assumptions c32_sound.

(* Completeness, bounded: every grammar with 1..3 productions, right-hand sides of length <= 2 over
   2 terminals + 2 nonterminals (12383 grammars, epsilon productions included): if the builder model
   (repaired lookahead) reports no conflict and resolved none silently, the repaired parser accepts
   every sentence of length <= 4 and returns a parse tree of it. *)
Theorem c32_complete_bounded : forall g, In g family ->
  forall T, generate_tables_sr true BFUEL g = Ok (T, false) ->
  forall w, (length w <= 4)%nat -> sentence g w ->
  exists v, parse_model true BFUEL g T w = Ok v /\ parse_of g w v.
Proof. exact c32_complete_bounded_lemma. Qed.
Print Assumptions c32_complete_bounded.

(* lr.py as it is loses look-aheads behind a nullable symbol: a conflict-free grammar whose
   validated tables reject one of its sentences (S -> A B c; A -> a; B -> eps | b; "a c"). *)
Theorem c32_lookahead_refuted :
  exists g w T, generate_tables_sr false BFUEL g = Ok (T, false) /\ tables_ok false g T = true /\
                sentence g w /\ parse_model false BFUEL g T w = Diag 1.
Proof. exact c32_lookahead_refuted_lemma. Qed.
Print Assumptions c32_lookahead_refuted.

(* lr.py as it is accepts at an inner reduction of a recursive start symbol: the returned value
   is not a parse of the input (S -> a S | b; "a a b" returns the tree of "b"); the validator
   rejects these tables. *)
Theorem c32_accept_refuted :
  exists g w T v, generate_tables_sr false BFUEL g = Ok (T, false) /\
                  parse_model false BFUEL g T w = Ok v /\ yield v <> w /\ tables_ok false g T = false.
Proof. exact c32_accept_refuted_lemma. Qed.
Print Assumptions c32_accept_refuted.

(* hypotheses are inhabited: the repaired builder model on S -> A B c; A -> a; B -> eps | b gives
   tables that validate and parse "a c" *)
Example c32_nonvacuous :
  exists T, generate_tables_sr true BFUEL g_la = Ok (T, false) /\ tables_ok true g_la T = true /\
            parse_model true BFUEL g_la T [2;6] = Ok (Node 0 [Node 1 [Leaf 2]; Node 2 []; Leaf 6]).
Proof.
  destruct (generate_tables_sr true BFUEL g_la) as [[T sr]| | |] eqn:E; try (vm_compute in E; discriminate).
  exists T. vm_compute in E. injection E as <- <-.
  split; [reflexivity|]. split; vm_compute; reflexivity.
Qed.
