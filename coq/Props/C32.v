(* Props/C32.v — property C32: generated LR parsers accept exactly their grammar's language.
   Only statements, [exact] of a lemma from Proofs/, and Print Assumptions.
   fix_accept / fix_first = false: ppci/lang/tools/lr.py as it is; = true: with the repairs
   fixes/C32-accept-recursive-start.diff / fixes/C32-lookahead-nullable.diff. *)
From PV Require Import Lib.Py Spec.CfgGrammarSpec Model.LrValidator Model.LrBuilder
                       Proofs.C32_sound Proofs.C32_complete Proofs.C32_safe
                       Model.LrComplete Proofs.C32_cert.
Open Scope Z_scope.

(* Soundness, unbounded: for ANY grammar, ANY tables that pass the validator, any token sequence
   (not containing the EOF token type) and any fuel: if the parser model returns a value, the value
   is a parse tree of the grammar, rooted at the start symbol, whose yield is exactly the input. *)
Theorem c32_sound : forall fix_accept g T w fuel v,
  tables_ok fix_accept g T = true -> ~ In EOF w ->
  parse_model fix_accept fuel g T w = Ok v ->
  wf_tree g (start g) v /\ yield v = w.
Proof. exact c32_sound_lemma. Qed.
Print Assumptions c32_sound.

(* Completeness, bounded: every grammar with 1..3 productions, right-hand sides of length <= 2 over
   2 terminals + 2 nonterminals (12383 grammars, epsilon productions included): if the builder model
   (repaired lookahead) reports no conflict and resolved none silently, the repaired parser accepts
   every sentence of length <= 4 and returns a parse tree of it. *)
Theorem c32_complete_bounded : forall g, In g family ->
  forall T, generate_tables_sr true BFUEL g = Ok (T, false) ->
  forall w, (length w <= 4)%nat -> sentence g w ->
  exists v, parse_model true BFUEL g T w = Ok v /\ parse_of g w v.
Proof. exact c32_complete_bounded_lemma. Qed.
Print Assumptions c32_complete_bounded.

(* lr.py as it is loses look-aheads behind a nullable symbol: a conflict-free grammar whose
   validated tables reject one of its sentences (S -> A B c; A -> a; B -> eps | b; "a c"). *)
Theorem c32_lookahead_refuted :
  exists g w T, generate_tables_sr false BFUEL g = Ok (T, false) /\ tables_ok false g T = true /\
                sentence g w /\ parse_model false BFUEL g T w = Diag 1.
Proof. exact c32_lookahead_refuted_lemma. Qed.
Print Assumptions c32_lookahead_refuted.

(* lr.py as it is accepts at an inner reduction of a recursive start symbol: the returned value
   is not a parse of the input (S -> a S | b; "a a b" returns the tree of "b"); the validator
   rejects these tables. *)
Theorem c32_accept_refuted :
  exists g w T v, generate_tables_sr false BFUEL g = Ok (T, false) /\
                  parse_model false BFUEL g T w = Ok v /\ yield v <> w /\ tables_ok false g T = false.
Proof. exact c32_accept_refuted_lemma. Qed.
Print Assumptions c32_accept_refuted.

(* Safety, unbounded: on validated tables the parser model never ends in an internal error
   (KeyError on the goto table, IndexError on a stack pop, unbound result), whatever the input. *)
Theorem c32_safe : forall fix_accept g T w fuel e,
  tables_ok fix_accept g T = true -> parse_model fix_accept fuel g T w <> Internal e.
Proof. exact c32_safe_lemma. Qed.
Print Assumptions c32_safe.

(* Termination, unbounded over inputs: if the tables also pass the termination-certificate check
   [term_ok] (state weights + (state, look-ahead) ranks such that every reduction strictly decreases
   the potential of the stack), the parser never needs more than
   fuel_for c |w| = (|w| + 1) * (cert_bound c + 1) steps: no infinite reduce loop. *)
Theorem c32_terminates : forall fix_accept g T c w fuel,
  tables_ok fix_accept g T = true -> term_ok fix_accept g T c = true ->
  (fuel_for c (length w) <= fuel)%nat ->
  parse_model fix_accept fuel g T w <> OutOfFuel.
Proof. exact c32_terminates_lemma. Qed.
Print Assumptions c32_terminates.

(* Together: with that fuel the parser returns a parse tree of the input or raises ParserException. *)
Theorem c32_total : forall fix_accept g T c w,
  tables_ok fix_accept g T = true -> term_ok fix_accept g T c = true -> ~ In EOF w ->
  (exists v, parse_model fix_accept (fuel_for c (length w)) g T w = Ok v /\ parse_of g w v) \/
  (exists d, parse_model fix_accept (fuel_for c (length w)) g T w = Diag d).
Proof. exact c32_total_lemma. Qed.
Print Assumptions c32_total.

(* Completeness per instance, for ALL words (Jourdan-Pottier-Leroy style certificate): if the tables
   validate and the exported item sets pass [complete_cert] (FIRST/nullable hints closed, start items in
   state 0, every state closed, every item served by a shift/goto/reduce/accept entry), the repaired
   parser accepts every sentence of the grammar, with some fuel, and returns a parse tree of it. *)
Theorem c32_complete_tables : forall g T I w,
  tables_ok true g T = true -> complete_cert g T I = true -> sentence g w -> ~ In EOF w ->
  exists fuel v, parse_model true fuel g T w = Ok v /\ parse_of g w v.
Proof. exact c32_complete_tables_lemma. Qed.
Print Assumptions c32_complete_tables.

(* hypotheses are inhabited: the repaired builder model on S -> A B c; A -> a; B -> eps | b gives
   tables that validate and parse "a c" *)
Example c32_nonvacuous :
  exists T, generate_tables_sr true BFUEL g_la = Ok (T, false) /\ tables_ok true g_la T = true /\
            parse_model true BFUEL g_la T [2;6] = Ok (Node 0 [Node 1 [Leaf 2]; Node 2 []; Leaf 6]).
Proof.
  destruct (generate_tables_sr true BFUEL g_la) as [[T sr]| | |] eqn:E; try (vm_compute in E; discriminate).
  exists T. vm_compute in E. injection E as <- <-.
  split; [reflexivity|]. split; vm_compute; reflexivity.
Qed.

(* the termination certificate check is satisfiable on those tables *)
Example c32_term_nonvacuous :
  exists T c, generate_tables_sr true BFUEL g_la = Ok (T, false) /\ term_ok true g_la T c = true.
Proof.
  destruct (generate_tables_sr true BFUEL g_la) as [[T sr]| | |] eqn:E; try (vm_compute in E; discriminate).
  exists T, (mkTcert [(1, 1%nat); (2, 8%nat); (3, 1%nat); (4, 8%nat); (5, 8%nat)] [((1, 6), 2%nat)]).
  vm_compute in E. injection E as <- <-. split; [reflexivity|vm_compute; reflexivity].
Qed.
