(* Props/C02.v — C02: the optimizer preserves IR behaviour.
   Layer A: soundness of the local rewrite rules over Spec/IRSem.v (unbounded).
   Layer B: soundness of the straight-line block validator Model/OptValidate.v (translation
            validation: the validator is run on the output of the real block-local passes).
   Whole-function equivalence and the CFG-changing passes are NOT proved here: they are checked by
   differential execution (tools/props/c02.py). *)
From PV Require Import Lib.Py Lib.Tac Spec.IRSyntax Spec.IRSem Model.OptValidate Model.OptValidateFn
  Model.OptValidateCfg Proofs.C02_rules Proofs.C02_validate Proofs.C02_local Proofs.C02_clean
  Proofs.C02_promote Gen.c02_pipeline.
From Coq Require Import String.
Open Scope Z_scope.

(* ---- layer A: rewrite rules *)
Theorem c02_rule_addzero_r : forall c t b s x,
  int_shape c t = Some (b, s) -> wrap_bits b s x = x -> eval_binop c t Add x 0 = ODone x.
Proof. exact c02_rule_addzero_r_sound. Qed.
Print Assumptions c02_rule_addzero_r.

Theorem c02_rule_addzero_l : forall c t b s x,
  int_shape c t = Some (b, s) -> wrap_bits b s x = x -> eval_binop c t Add 0 x = ODone x.
Proof. exact c02_rule_addzero_l_sound. Qed.
Print Assumptions c02_rule_addzero_l.

Theorem c02_rule_mulone : forall c t b s x,
  int_shape c t = Some (b, s) -> wrap_bits b s x = x -> eval_binop c t Mul x 1 = ODone x.
Proof. exact c02_rule_mulone_sound. Qed.
Print Assumptions c02_rule_mulone.

Theorem c02_rule_constfold : forall c m ge f args e st v n n' t o a b0 x y z b s,
  cfg_ok c -> int_shape c t = Some (b, s) ->
  eval_int m ge e args a = ODone x -> eval_int m ge e args b0 = ODone y ->
  eval_binop c t o x y = ODone z ->
  step_simple c m ge f args e st (IBinop v n t o a b0) =
  step_simple c m ge f args e st (IConst v n' t (CInt z)).
Proof. exact c02_rule_constfold_instr_sound. Qed.
Print Assumptions c02_rule_constfold.

Theorem c02_rule_castfold : forall c t z r,
  wrap_ty c t z = Some r ->
  eval_cast c t (Vint z) = ODone (Vint r) /\ eval_const c t (CInt z) = ODone (Vint r).
Proof. exact c02_rule_castfold_sound. Qed.
Print Assumptions c02_rule_castfold.

Theorem c02_rule_chain_add : forall c t b s y c1 c2 r1,
  cfg_ok c -> int_shape c t = Some (b, s) -> eval_binop c t Add y c1 = ODone r1 ->
  eval_binop c t Add r1 c2 = eval_binop c t Add y (wrap_bits b s (c1 + c2)).
Proof. exact c02_rule_chain_add_sound. Qed.
Print Assumptions c02_rule_chain_add.

Theorem c02_rule_chain_sub : forall c t b s y c1 c2 r1,
  cfg_ok c -> int_shape c t = Some (b, s) -> eval_binop c t Sub y c1 = ODone r1 ->
  eval_binop c t Sub r1 c2 = eval_binop c t Sub y (wrap_bits b s (c1 + c2)).
Proof. exact c02_rule_chain_sub_sound. Qed.
Print Assumptions c02_rule_chain_sub.

Theorem c02_rule_cse : forall c m ge args e news t o a b,
  (forall w x, In (w, x) news -> ~ ref_is a w /\ ~ ref_is b w) ->
  binop_value c m ge (ext_by news e) args t o a b = binop_value c m ge e args t o a b.
Proof. exact c02_rule_cse_sound. Qed.
Print Assumptions c02_rule_cse.

Theorem c02_rule_cjump_const : forall c t b s x y,
  int_shape c t = Some (b, s) -> wrap_bits b s x = x -> wrap_bits b s y = y ->
  eval_const c t (CInt x) = ODone (Vint x) /\ eval_const c t (CInt y) = ODone (Vint y).
Proof. exact c02_rule_cjump_const_sound. Qed.
Print Assumptions c02_rule_cjump_const.

(* CJumpPass / ConstantFolder read Const.value unwrapped: wrong for constants outside their type *)
Theorem c02_cjump_raw_values_out_of_range_refuted : exists t x y,
  eval_cond Ceq x y = false /\
  (exists v, eval_const default_cfg t (CInt x) = ODone v /\ eval_const default_cfg t (CInt y) = ODone v).
Proof. exact c02_cjump_raw_values_refuted. Qed.
Print Assumptions c02_cjump_raw_values_out_of_range_refuted.

Theorem c02_rule_dead : forall c m ge f args e st i e1 st1,
  state_neutral i = true ->
  step_simple c m ge f args e st i = ODone (e1, st1) ->
  st1 = st /\
  (e1 = e \/ exists v n t x, instr_def i = Some (v, n, t) /\ e1 = (v, x) :: e) /\
  (forall ph r, (forall v n t, instr_def i = Some (v, n, t) -> ~ ref_is r v) ->
                eval_ref m ge ph e1 args r = eval_ref m ge ph e args r).
Proof. exact c02_rule_dead_sound. Qed.
Print Assumptions c02_rule_dead.

(* DeleteUnusedInstructionsPass also removes unused Allocs, which moves every later stack address *)
Theorem c02_dead_alloc_not_state_neutral_refuted : exists st e1 st1,
  step_simple default_cfg ex_modul [] (mk_func "f" BGlobal None [] []) [] [] st (IAlloc 1 "a" 8 8)
    = ODone (e1, st1) /\ s_sp st1 <> s_sp st.
Proof. exact c02_dead_alloc_moves_stack_refuted. Qed.
Print Assumptions c02_dead_alloc_not_state_neutral_refuted.

(* ---- layer B: the validator *)
Theorem c02_norm_sound : forall c m ge f e0 args tl,
  cfg_ok c -> (tl = true -> env_typed c m ge f e0 args) ->
  forall res x, den c m ge e0 args res (norm c f tl x) = den c m ge e0 args res x.
Proof. exact norm_sound. Qed.
Print Assumptions c02_norm_sound.

(* straight-line blocks (no calls, terminator excluded); tl = true additionally trusts the declared
   types of values defined outside the block (hypothesis env_typed); whole functions: see below *)
Theorem c02_check_block_sound_partial : forall c m ge f f' e0 args tl,
  cfg_ok c -> (tl = true -> env_typed c m ge f e0 args) ->
  forall e0' rho, ren_ok m ge e0 args e0' rho ->
  forall l l' outs s e1 s1,
    check_block c f tl f' rho l l' outs = true ->
    run_simple c m ge f args l e0 s = ODone (e1, s1) ->
    exists e1', run_simple c m ge f' args l' e0' s = ODone (e1', s1) /\
      (forall r r', In (r, r') outs ->
         eval_ref m ge false e1' args r' = eval_ref m ge false e1 args r).
Proof. exact check_block_sound. Qed.
Print Assumptions c02_check_block_sound_partial.

(* whole modules, block-local passes: same blocks, per-segment check_block (tl = false: no typing
   hypothesis), calls matched in order, phi inputs and terminator operands related by the value
   renaming computed from the value names.  Same fuel, same final state, same result. *)
Theorem c02_check_local_sound : forall c m m', cfg_ok c -> check_modul c m m' = true ->
  forall fname args s n r s1,
    run_function c m fname args s n = ODone (r, s1) ->
    run_function c m' fname args s n = ODone (r, s1).
Proof. exact check_modul_sound. Qed.
Print Assumptions c02_check_local_sound.

Theorem c02_check_local_run_main : forall c m m', cfg_ok c -> check_modul c m m' = true ->
  forall fname args n res, run_main c m fname args n = ODone res -> run_main c m' fname args n = ODone res.
Proof. exact check_modul_run_main. Qed.
Print Assumptions c02_check_local_run_main.

(* ---- CleanPass-style CFG changes (glued blocks, bypassed empty blocks) plus block-local changes:
   beta maps after-block ids to before-block ids (untrusted hint); same fuel, same result and state *)
Theorem c02_check_clean_sound : forall c m m' hs, cfg_ok c -> check_modul_cfg c m m' hs = true ->
  forall fname args s n r,
    run_function c m fname args s n = ODone r -> run_function c m' fname args s n = ODone r.
Proof. exact check_modul_cfg_sound. Qed.
Print Assumptions c02_check_clean_sound.

Theorem c02_check_clean_run_main : forall c m m' hs, cfg_ok c -> check_modul_cfg c m m' hs = true ->
  forall fname args n res, run_main c m fname args n = ODone res -> run_main c m' fname args n = ODone res.
Proof. exact check_modul_cfg_run_main. Qed.
Print Assumptions c02_check_clean_run_main.

(* more fuel never changes a finished run (used to treat the jump of a removed block as a silent step) *)
Theorem c02_exec_fuel_mono : forall c m ge n n' f args pred b e s r, (n <= n')%nat ->
  exec_block c m ge n f args pred b e s = ODone r -> exec_block c m ge n' f args pred b e s = ODone r.
Proof. exact exec_block_le. Qed.
Print Assumptions c02_exec_fuel_mono.

(* ---- LoadAfterStorePass / Mem2RegPromotor: the memory fact they rest on *)
Theorem c02_rule_las : forall c t b sg s p z s',
  cfg_ok c -> int_shape c t = Some (b, sg) -> wrap_bits b sg z = z ->
  store_val c t s p (Vint z) = ODone s' -> load_val c t s' p = ODone (Vint z).
Proof. exact c02_rule_las_sound. Qed.
Print Assumptions c02_rule_las.

(* ---- Mem2RegPromotor is NOT a refinement under the concrete-address reading of IRSem: three real
   before/after pairs of the pass (re-generated and compared with these terms on every run) *)
Theorem c02_promote_uninitialised_read_refuted :
  run_main default_cfg r1_before "f" [] 10 = ODone (Some (Vint 0), [], []) /\
  run_main default_cfg r1_after "f" [] 10 = OUB UBUndefRead.
Proof. exact promote_uninitialised_read_refuted. Qed.
Print Assumptions c02_promote_uninitialised_read_refuted.

Theorem c02_promote_address_shift_refuted :
  run_main default_cfg r2_before "f" [Vint 9] 10 = ODone (Some (Vint 16777224), [], []) /\
  run_main default_cfg r2_after "f" [Vint 9] 10 = ODone (Some (Vint 16777216), [], []).
Proof. exact promote_address_shift_refuted. Qed.
Print Assumptions c02_promote_address_shift_refuted.

Theorem c02_promote_forged_pointer_refuted :
  run_main default_cfg r3_before "f" [] 10 = ODone (Some (Vint 7), [], []) /\
  run_main default_cfg r3_after "f" [] 10 = OUB UBMem.
Proof. exact promote_forged_pointer_refuted. Qed.
Print Assumptions c02_promote_forged_pointer_refuted.

(* ---- tie I: every pass of api.optimize and every pass class of ppci/opt is covered by the check *)
Definition c02_covered : list string :=
  ["Mem2RegPromotor"; "RemoveAddZeroPass"; "ConstantFolder"; "CommonSubexpressionEliminationPass";
   "TailCallOptimization"; "LoadAfterStorePass"; "DeleteUnusedInstructionsPass"; "CleanPass";
   "CJumpPass"]%string.
Theorem c02_pipeline_covered :
  forallb (fun p => existsb (String.eqb p) c02_covered)
          (c02_pipeline ++ c02_pipeline_extras ++ c02_pass_classes) = true.
Proof. vm_compute. reflexivity. Qed.
Print Assumptions c02_pipeline_covered.

(* non-vacuity: the hypotheses of the validator theorem are inhabited and the validator accepts a
   real rewrite (y = x + 0; r = y * 2  ~~>  r = x * 2) and rejects a wrong fold *)
Example c02_nonvacuous :
  check_block default_cfg vf true vf []
    [IConst 1 "z" I32 (CInt 0); IBinop 2 "y" I32 Add (Param 0) (Loc 1); IConst 3 "two" I32 (CInt 2);
     IBinop 4 "r" I32 Mul (Loc 2) (Loc 3)]
    [IConst 1 "z" I32 (CInt 0); IConst 3 "two" I32 (CInt 2); IBinop 4 "r" I32 Mul (Param 0) (Loc 3)]
    [(Loc 4, Loc 4)]%positive = true
  /\ run_simple default_cfg ex_modul [] vf [Vint 21]
       [IConst 1 "z" I32 (CInt 0); IBinop 2 "y" I32 Add (Param 0) (Loc 1); IConst 3 "two" I32 (CInt 2);
        IBinop 4 "r" I32 Mul (Loc 2) (Loc 3)]%positive [] (mk_st [] 0 [])
     = ODone ([(4, Vint 42); (3, Vint 2); (2, Vint 21); (1, Vint 0)]%positive, mk_st [] 0 [])
  /\ cfg_ok default_cfg
  /\ eval_binop default_cfg I32 Add 21 0 = ODone 21.
Proof. vm_compute. repeat split; try reflexivity. discriminate. Qed.
