(* Props/C09.v — assembling an instruction's printed form reproduces its encoding (PARTIAL: level `other`).
   Theorems about the exported syntax declarations and the grammar the real assembler object holds
   (Gen/Tab_syntax_<arch>.v, regenerated from /repo on every run) over the hand model Model/AsmSyntax.v
   (token-level printing, per-production recogniser).  The Python lexer, number parsing, the Earley
   parser itself, directives and relocations are validated by correspondence only (tools/props/c09.py). *)
From PV Require Import Lib.Py Model.AsmSyntax Model.Encode Proofs.C09_syntax Proofs.C09_tables.
From PV Require Import Gen.Tab_syntax_riscv.
From PV Require Import Gen.Tab_syntax_riscv_rvc.
From PV Require Import Gen.Tab_syntax_arm.
From PV Require Import Gen.Tab_syntax_thumb.
From PV Require Import Gen.Tab_syntax_x86_64.
From PV Require Import Gen.Tab_syntax_msp430.
From PV Require Import Gen.Tab_syntax_avr.
From PV Require Import Gen.Tab_syntax_m68k.
From PV Require Import Gen.Tab_syntax_mips.
From PV Require Import Gen.Tab_syntax_or1k.
From PV Require Import Gen.Tab_syntax_xtensa.
From PV Require Import Gen.Tab_syntax_microblaze.
From Coq Require Import String.
Open Scope Z_scope.

(* each well-formed class variant's own production recognises its printed token sequence and recovers
   the operands (all register operands, all integers, all labels that are identifiers and not keywords) *)
Theorem c09_render_matches : forall kwl kws regs e ops,
  wf_entry kws regs e = true -> ops_ok kws regs (s_rule e) ops = true ->
  exists toks, render regs (s_syn e) ops = Some toks /\ matches kwl kws regs (s_rule e) toks = Some ops.
Proof. exact entry_render_matches. Qed.
Print Assumptions c09_render_matches.

(* the unification check is a sound over-approximation: if it fails, production t recognises no printed
   form of production s *)
Theorem c09_unify_sound : forall kwl kws regs s t ops toks,
  forallb (atom_ok kws regs) s = true -> ops_ok kws regs s ops = true ->
  render regs s ops = Some toks -> unify_dir regs s t = false -> matches kwl kws regs t toks = None.
Proof. exact unify_dir_sound. Qed.
Print Assumptions c09_unify_sound.

(* generic table theorem: for a class variant i that occurs in no pair of the ambiguity list, any production
   j of the whole grammar (ISA classes and assembler directives) that recognises its printed form is its own
   production and yields the original operands *)
Theorem c09_roundtrip_model : forall kwl kws regs stab extra nonwf amb,
  table_facts kws regs stab extra nonwf amb ->
  forall i j ops ops' toks,
  (i < List.length stab)%nat -> (j < List.length (stab ++ extra))%nat ->
  in_pairs i amb = false ->
  ops_ok kws regs (s_rule (entry_at stab i)) ops = true ->
  render regs (s_syn (entry_at stab i)) ops = Some toks ->
  matches kwl kws regs (s_rule (entry_at (stab ++ extra) j)) toks = Some ops' ->
  j = i /\ ops' = ops.
Proof. exact table_roundtrip. Qed.
Print Assumptions c09_roundtrip_model.

(* the same in terms of the C08 encoder model: the recognised (class variant, operands) encodes to the bytes of
   the original; tab is the C08 descriptor table of the ISA (Gen/Tab_isa_<arch>.v), looked up by (class, variant) *)
Theorem c09_roundtrip_bytes : forall kwl kws regs stab extra nonwf amb (tab : list instr_desc),
  table_facts kws regs stab extra nonwf amb ->
  forall i j ops ops' toks,
  (i < List.length stab)%nat -> (j < List.length (stab ++ extra))%nat ->
  in_pairs i amb = false ->
  ops_ok kws regs (s_rule (entry_at stab i)) ops = true ->
  render regs (s_syn (entry_at stab i)) ops = Some toks ->
  matches kwl kws regs (s_rule (entry_at (stab ++ extra) j)) toks = Some ops' ->
  encode_instr (desc_for tab (entry_at (stab ++ extra) j)) (zops regs (s_rule (entry_at (stab ++ extra) j)) ops') =
  encode_instr (desc_for tab (entry_at stab i)) (zops regs (s_rule (entry_at stab i)) ops).
Proof. exact table_roundtrip_bytes. Qed.
Print Assumptions c09_roundtrip_bytes.

(* REFUTED at full strength for labels: with the current `$str$ -> <keyword>` action (kwl = true) a label that is
   a keyword in another letter case ("Add", "X5") is read back as the lower-case keyword; witness replayed on the
   real assembler by tools/props/c09.py on every run *)
Theorem c09_keyword_label_refuted :
  exists kws regs e s, wf_entry kws regs e = true /\ is_ident s = true /\
    exists toks, render regs (s_syn e) [VLabel s] = Some toks /\
                 matches true kws regs (s_rule e) toks = Some [VLabel (lower s)] /\ lower s <> s.
Proof. exact keyword_label_refuted. Qed.
Print Assumptions c09_keyword_label_refuted.

(* riscv: stab entries well-formed, nonwf entries not, ambiguous_riscv exactly the unifying production pairs *)
Theorem c09_tables_riscv : table_facts kws_riscv regs_riscv stab_riscv extra_riscv nonwf_riscv ambiguous_riscv.
Proof. exact facts_riscv. Qed.
Print Assumptions c09_tables_riscv.

Theorem c09_render_matches_riscv : forall i ops,
  (i < List.length stab_riscv)%nat -> ops_ok kws_riscv regs_riscv (s_rule (entry_at stab_riscv i)) ops = true ->
  exists toks, render regs_riscv (s_syn (entry_at stab_riscv i)) ops = Some toks /\
               matches kwlabel_lower_riscv kws_riscv regs_riscv (s_rule (entry_at stab_riscv i)) toks = Some ops.
Proof. exact (table_render_matches _ _ _ _ _ _ _ facts_riscv). Qed.
Print Assumptions c09_render_matches_riscv.

Theorem c09_unambiguous_riscv : forall i j ops ops' toks,
  (i < List.length stab_riscv)%nat -> (j < List.length (stab_riscv ++ extra_riscv))%nat ->
  in_pairs i ambiguous_riscv = false ->
  ops_ok kws_riscv regs_riscv (s_rule (entry_at stab_riscv i)) ops = true ->
  render regs_riscv (s_syn (entry_at stab_riscv i)) ops = Some toks ->
  matches kwlabel_lower_riscv kws_riscv regs_riscv (s_rule (entry_at (stab_riscv ++ extra_riscv) j)) toks = Some ops' ->
  j = i /\ ops' = ops.
Proof. exact (table_roundtrip _ _ _ _ _ _ _ facts_riscv). Qed.
Print Assumptions c09_unambiguous_riscv.

(* riscv_rvc: stab entries well-formed, nonwf entries not, ambiguous_riscv_rvc exactly the unifying production pairs *)
Theorem c09_tables_riscv_rvc : table_facts kws_riscv_rvc regs_riscv_rvc stab_riscv_rvc extra_riscv_rvc nonwf_riscv_rvc ambiguous_riscv_rvc.
Proof. exact facts_riscv_rvc. Qed.
Print Assumptions c09_tables_riscv_rvc.

Theorem c09_render_matches_riscv_rvc : forall i ops,
  (i < List.length stab_riscv_rvc)%nat -> ops_ok kws_riscv_rvc regs_riscv_rvc (s_rule (entry_at stab_riscv_rvc i)) ops = true ->
  exists toks, render regs_riscv_rvc (s_syn (entry_at stab_riscv_rvc i)) ops = Some toks /\
               matches kwlabel_lower_riscv_rvc kws_riscv_rvc regs_riscv_rvc (s_rule (entry_at stab_riscv_rvc i)) toks = Some ops.
Proof. exact (table_render_matches _ _ _ _ _ _ _ facts_riscv_rvc). Qed.
Print Assumptions c09_render_matches_riscv_rvc.

Theorem c09_unambiguous_riscv_rvc : forall i j ops ops' toks,
  (i < List.length stab_riscv_rvc)%nat -> (j < List.length (stab_riscv_rvc ++ extra_riscv_rvc))%nat ->
  in_pairs i ambiguous_riscv_rvc = false ->
  ops_ok kws_riscv_rvc regs_riscv_rvc (s_rule (entry_at stab_riscv_rvc i)) ops = true ->
  render regs_riscv_rvc (s_syn (entry_at stab_riscv_rvc i)) ops = Some toks ->
  matches kwlabel_lower_riscv_rvc kws_riscv_rvc regs_riscv_rvc (s_rule (entry_at (stab_riscv_rvc ++ extra_riscv_rvc) j)) toks = Some ops' ->
  j = i /\ ops' = ops.
Proof. exact (table_roundtrip _ _ _ _ _ _ _ facts_riscv_rvc). Qed.
Print Assumptions c09_unambiguous_riscv_rvc.

(* arm: stab entries well-formed, nonwf entries not, ambiguous_arm exactly the unifying production pairs *)
Theorem c09_tables_arm : table_facts kws_arm regs_arm stab_arm extra_arm nonwf_arm ambiguous_arm.
Proof. exact facts_arm. Qed.
Print Assumptions c09_tables_arm.

Theorem c09_render_matches_arm : forall i ops,
  (i < List.length stab_arm)%nat -> ops_ok kws_arm regs_arm (s_rule (entry_at stab_arm i)) ops = true ->
  exists toks, render regs_arm (s_syn (entry_at stab_arm i)) ops = Some toks /\
               matches kwlabel_lower_arm kws_arm regs_arm (s_rule (entry_at stab_arm i)) toks = Some ops.
Proof. exact (table_render_matches _ _ _ _ _ _ _ facts_arm). Qed.
Print Assumptions c09_render_matches_arm.

Theorem c09_unambiguous_arm : forall i j ops ops' toks,
  (i < List.length stab_arm)%nat -> (j < List.length (stab_arm ++ extra_arm))%nat ->
  in_pairs i ambiguous_arm = false ->
  ops_ok kws_arm regs_arm (s_rule (entry_at stab_arm i)) ops = true ->
  render regs_arm (s_syn (entry_at stab_arm i)) ops = Some toks ->
  matches kwlabel_lower_arm kws_arm regs_arm (s_rule (entry_at (stab_arm ++ extra_arm) j)) toks = Some ops' ->
  j = i /\ ops' = ops.
Proof. exact (table_roundtrip _ _ _ _ _ _ _ facts_arm). Qed.
Print Assumptions c09_unambiguous_arm.

(* thumb: stab entries well-formed, nonwf entries not, ambiguous_thumb exactly the unifying production pairs *)
Theorem c09_tables_thumb : table_facts kws_thumb regs_thumb stab_thumb extra_thumb nonwf_thumb ambiguous_thumb.
Proof. exact facts_thumb. Qed.
Print Assumptions c09_tables_thumb.

Theorem c09_render_matches_thumb : forall i ops,
  (i < List.length stab_thumb)%nat -> ops_ok kws_thumb regs_thumb (s_rule (entry_at stab_thumb i)) ops = true ->
  exists toks, render regs_thumb (s_syn (entry_at stab_thumb i)) ops = Some toks /\
               matches kwlabel_lower_thumb kws_thumb regs_thumb (s_rule (entry_at stab_thumb i)) toks = Some ops.
Proof. exact (table_render_matches _ _ _ _ _ _ _ facts_thumb). Qed.
Print Assumptions c09_render_matches_thumb.

Theorem c09_unambiguous_thumb : forall i j ops ops' toks,
  (i < List.length stab_thumb)%nat -> (j < List.length (stab_thumb ++ extra_thumb))%nat ->
  in_pairs i ambiguous_thumb = false ->
  ops_ok kws_thumb regs_thumb (s_rule (entry_at stab_thumb i)) ops = true ->
  render regs_thumb (s_syn (entry_at stab_thumb i)) ops = Some toks ->
  matches kwlabel_lower_thumb kws_thumb regs_thumb (s_rule (entry_at (stab_thumb ++ extra_thumb) j)) toks = Some ops' ->
  j = i /\ ops' = ops.
Proof. exact (table_roundtrip _ _ _ _ _ _ _ facts_thumb). Qed.
Print Assumptions c09_unambiguous_thumb.

(* x86_64: stab entries well-formed, nonwf entries not, ambiguous_x86_64 exactly the unifying production pairs *)
Theorem c09_tables_x86_64 : table_facts kws_x86_64 regs_x86_64 stab_x86_64 extra_x86_64 nonwf_x86_64 ambiguous_x86_64.
Proof. exact facts_x86_64. Qed.
Print Assumptions c09_tables_x86_64.

Theorem c09_render_matches_x86_64 : forall i ops,
  (i < List.length stab_x86_64)%nat -> ops_ok kws_x86_64 regs_x86_64 (s_rule (entry_at stab_x86_64 i)) ops = true ->
  exists toks, render regs_x86_64 (s_syn (entry_at stab_x86_64 i)) ops = Some toks /\
               matches kwlabel_lower_x86_64 kws_x86_64 regs_x86_64 (s_rule (entry_at stab_x86_64 i)) toks = Some ops.
Proof. exact (table_render_matches _ _ _ _ _ _ _ facts_x86_64). Qed.
Print Assumptions c09_render_matches_x86_64.

Theorem c09_unambiguous_x86_64 : forall i j ops ops' toks,
  (i < List.length stab_x86_64)%nat -> (j < List.length (stab_x86_64 ++ extra_x86_64))%nat ->
  in_pairs i ambiguous_x86_64 = false ->
  ops_ok kws_x86_64 regs_x86_64 (s_rule (entry_at stab_x86_64 i)) ops = true ->
  render regs_x86_64 (s_syn (entry_at stab_x86_64 i)) ops = Some toks ->
  matches kwlabel_lower_x86_64 kws_x86_64 regs_x86_64 (s_rule (entry_at (stab_x86_64 ++ extra_x86_64) j)) toks = Some ops' ->
  j = i /\ ops' = ops.
Proof. exact (table_roundtrip _ _ _ _ _ _ _ facts_x86_64). Qed.
Print Assumptions c09_unambiguous_x86_64.

(* msp430: stab entries well-formed, nonwf entries not, ambiguous_msp430 exactly the unifying production pairs *)
Theorem c09_tables_msp430 : table_facts kws_msp430 regs_msp430 stab_msp430 extra_msp430 nonwf_msp430 ambiguous_msp430.
Proof. exact facts_msp430. Qed.
Print Assumptions c09_tables_msp430.

Theorem c09_render_matches_msp430 : forall i ops,
  (i < List.length stab_msp430)%nat -> ops_ok kws_msp430 regs_msp430 (s_rule (entry_at stab_msp430 i)) ops = true ->
  exists toks, render regs_msp430 (s_syn (entry_at stab_msp430 i)) ops = Some toks /\
               matches kwlabel_lower_msp430 kws_msp430 regs_msp430 (s_rule (entry_at stab_msp430 i)) toks = Some ops.
Proof. exact (table_render_matches _ _ _ _ _ _ _ facts_msp430). Qed.
Print Assumptions c09_render_matches_msp430.

Theorem c09_unambiguous_msp430 : forall i j ops ops' toks,
  (i < List.length stab_msp430)%nat -> (j < List.length (stab_msp430 ++ extra_msp430))%nat ->
  in_pairs i ambiguous_msp430 = false ->
  ops_ok kws_msp430 regs_msp430 (s_rule (entry_at stab_msp430 i)) ops = true ->
  render regs_msp430 (s_syn (entry_at stab_msp430 i)) ops = Some toks ->
  matches kwlabel_lower_msp430 kws_msp430 regs_msp430 (s_rule (entry_at (stab_msp430 ++ extra_msp430) j)) toks = Some ops' ->
  j = i /\ ops' = ops.
Proof. exact (table_roundtrip _ _ _ _ _ _ _ facts_msp430). Qed.
Print Assumptions c09_unambiguous_msp430.

(* avr: stab entries well-formed, nonwf entries not, ambiguous_avr exactly the unifying production pairs *)
Theorem c09_tables_avr : table_facts kws_avr regs_avr stab_avr extra_avr nonwf_avr ambiguous_avr.
Proof. exact facts_avr. Qed.
Print Assumptions c09_tables_avr.

Theorem c09_render_matches_avr : forall i ops,
  (i < List.length stab_avr)%nat -> ops_ok kws_avr regs_avr (s_rule (entry_at stab_avr i)) ops = true ->
  exists toks, render regs_avr (s_syn (entry_at stab_avr i)) ops = Some toks /\
               matches kwlabel_lower_avr kws_avr regs_avr (s_rule (entry_at stab_avr i)) toks = Some ops.
Proof. exact (table_render_matches _ _ _ _ _ _ _ facts_avr). Qed.
Print Assumptions c09_render_matches_avr.

Theorem c09_unambiguous_avr : forall i j ops ops' toks,
  (i < List.length stab_avr)%nat -> (j < List.length (stab_avr ++ extra_avr))%nat ->
  in_pairs i ambiguous_avr = false ->
  ops_ok kws_avr regs_avr (s_rule (entry_at stab_avr i)) ops = true ->
  render regs_avr (s_syn (entry_at stab_avr i)) ops = Some toks ->
  matches kwlabel_lower_avr kws_avr regs_avr (s_rule (entry_at (stab_avr ++ extra_avr) j)) toks = Some ops' ->
  j = i /\ ops' = ops.
Proof. exact (table_roundtrip _ _ _ _ _ _ _ facts_avr). Qed.
Print Assumptions c09_unambiguous_avr.

(* m68k: stab entries well-formed, nonwf entries not, ambiguous_m68k exactly the unifying production pairs *)
Theorem c09_tables_m68k : table_facts kws_m68k regs_m68k stab_m68k extra_m68k nonwf_m68k ambiguous_m68k.
Proof. exact facts_m68k. Qed.
Print Assumptions c09_tables_m68k.

Theorem c09_render_matches_m68k : forall i ops,
  (i < List.length stab_m68k)%nat -> ops_ok kws_m68k regs_m68k (s_rule (entry_at stab_m68k i)) ops = true ->
  exists toks, render regs_m68k (s_syn (entry_at stab_m68k i)) ops = Some toks /\
               matches kwlabel_lower_m68k kws_m68k regs_m68k (s_rule (entry_at stab_m68k i)) toks = Some ops.
Proof. exact (table_render_matches _ _ _ _ _ _ _ facts_m68k). Qed.
Print Assumptions c09_render_matches_m68k.

Theorem c09_unambiguous_m68k : forall i j ops ops' toks,
  (i < List.length stab_m68k)%nat -> (j < List.length (stab_m68k ++ extra_m68k))%nat ->
  in_pairs i ambiguous_m68k = false ->
  ops_ok kws_m68k regs_m68k (s_rule (entry_at stab_m68k i)) ops = true ->
  render regs_m68k (s_syn (entry_at stab_m68k i)) ops = Some toks ->
  matches kwlabel_lower_m68k kws_m68k regs_m68k (s_rule (entry_at (stab_m68k ++ extra_m68k) j)) toks = Some ops' ->
  j = i /\ ops' = ops.
Proof. exact (table_roundtrip _ _ _ _ _ _ _ facts_m68k). Qed.
Print Assumptions c09_unambiguous_m68k.

(* mips: stab entries well-formed, nonwf entries not, ambiguous_mips exactly the unifying production pairs *)
Theorem c09_tables_mips : table_facts kws_mips regs_mips stab_mips extra_mips nonwf_mips ambiguous_mips.
Proof. exact facts_mips. Qed.
Print Assumptions c09_tables_mips.

Theorem c09_render_matches_mips : forall i ops,
  (i < List.length stab_mips)%nat -> ops_ok kws_mips regs_mips (s_rule (entry_at stab_mips i)) ops = true ->
  exists toks, render regs_mips (s_syn (entry_at stab_mips i)) ops = Some toks /\
               matches kwlabel_lower_mips kws_mips regs_mips (s_rule (entry_at stab_mips i)) toks = Some ops.
Proof. exact (table_render_matches _ _ _ _ _ _ _ facts_mips). Qed.
Print Assumptions c09_render_matches_mips.

Theorem c09_unambiguous_mips : forall i j ops ops' toks,
  (i < List.length stab_mips)%nat -> (j < List.length (stab_mips ++ extra_mips))%nat ->
  in_pairs i ambiguous_mips = false ->
  ops_ok kws_mips regs_mips (s_rule (entry_at stab_mips i)) ops = true ->
  render regs_mips (s_syn (entry_at stab_mips i)) ops = Some toks ->
  matches kwlabel_lower_mips kws_mips regs_mips (s_rule (entry_at (stab_mips ++ extra_mips) j)) toks = Some ops' ->
  j = i /\ ops' = ops.
Proof. exact (table_roundtrip _ _ _ _ _ _ _ facts_mips). Qed.
Print Assumptions c09_unambiguous_mips.

(* or1k: stab entries well-formed, nonwf entries not, ambiguous_or1k exactly the unifying production pairs *)
Theorem c09_tables_or1k : table_facts kws_or1k regs_or1k stab_or1k extra_or1k nonwf_or1k ambiguous_or1k.
Proof. exact facts_or1k. Qed.
Print Assumptions c09_tables_or1k.

Theorem c09_render_matches_or1k : forall i ops,
  (i < List.length stab_or1k)%nat -> ops_ok kws_or1k regs_or1k (s_rule (entry_at stab_or1k i)) ops = true ->
  exists toks, render regs_or1k (s_syn (entry_at stab_or1k i)) ops = Some toks /\
               matches kwlabel_lower_or1k kws_or1k regs_or1k (s_rule (entry_at stab_or1k i)) toks = Some ops.
Proof. exact (table_render_matches _ _ _ _ _ _ _ facts_or1k). Qed.
Print Assumptions c09_render_matches_or1k.

Theorem c09_unambiguous_or1k : forall i j ops ops' toks,
  (i < List.length stab_or1k)%nat -> (j < List.length (stab_or1k ++ extra_or1k))%nat ->
  in_pairs i ambiguous_or1k = false ->
  ops_ok kws_or1k regs_or1k (s_rule (entry_at stab_or1k i)) ops = true ->
  render regs_or1k (s_syn (entry_at stab_or1k i)) ops = Some toks ->
  matches kwlabel_lower_or1k kws_or1k regs_or1k (s_rule (entry_at (stab_or1k ++ extra_or1k) j)) toks = Some ops' ->
  j = i /\ ops' = ops.
Proof. exact (table_roundtrip _ _ _ _ _ _ _ facts_or1k). Qed.
Print Assumptions c09_unambiguous_or1k.

(* xtensa: stab entries well-formed, nonwf entries not, ambiguous_xtensa exactly the unifying production pairs *)
Theorem c09_tables_xtensa : table_facts kws_xtensa regs_xtensa stab_xtensa extra_xtensa nonwf_xtensa ambiguous_xtensa.
Proof. exact facts_xtensa. Qed.
Print Assumptions c09_tables_xtensa.

Theorem c09_render_matches_xtensa : forall i ops,
  (i < List.length stab_xtensa)%nat -> ops_ok kws_xtensa regs_xtensa (s_rule (entry_at stab_xtensa i)) ops = true ->
  exists toks, render regs_xtensa (s_syn (entry_at stab_xtensa i)) ops = Some toks /\
               matches kwlabel_lower_xtensa kws_xtensa regs_xtensa (s_rule (entry_at stab_xtensa i)) toks = Some ops.
Proof. exact (table_render_matches _ _ _ _ _ _ _ facts_xtensa). Qed.
Print Assumptions c09_render_matches_xtensa.

Theorem c09_unambiguous_xtensa : forall i j ops ops' toks,
  (i < List.length stab_xtensa)%nat -> (j < List.length (stab_xtensa ++ extra_xtensa))%nat ->
  in_pairs i ambiguous_xtensa = false ->
  ops_ok kws_xtensa regs_xtensa (s_rule (entry_at stab_xtensa i)) ops = true ->
  render regs_xtensa (s_syn (entry_at stab_xtensa i)) ops = Some toks ->
  matches kwlabel_lower_xtensa kws_xtensa regs_xtensa (s_rule (entry_at (stab_xtensa ++ extra_xtensa) j)) toks = Some ops' ->
  j = i /\ ops' = ops.
Proof. exact (table_roundtrip _ _ _ _ _ _ _ facts_xtensa). Qed.
Print Assumptions c09_unambiguous_xtensa.

(* microblaze: stab entries well-formed, nonwf entries not, ambiguous_microblaze exactly the unifying production pairs *)
Theorem c09_tables_microblaze : table_facts kws_microblaze regs_microblaze stab_microblaze extra_microblaze nonwf_microblaze ambiguous_microblaze.
Proof. exact facts_microblaze. Qed.
Print Assumptions c09_tables_microblaze.

Theorem c09_render_matches_microblaze : forall i ops,
  (i < List.length stab_microblaze)%nat -> ops_ok kws_microblaze regs_microblaze (s_rule (entry_at stab_microblaze i)) ops = true ->
  exists toks, render regs_microblaze (s_syn (entry_at stab_microblaze i)) ops = Some toks /\
               matches kwlabel_lower_microblaze kws_microblaze regs_microblaze (s_rule (entry_at stab_microblaze i)) toks = Some ops.
Proof. exact (table_render_matches _ _ _ _ _ _ _ facts_microblaze). Qed.
Print Assumptions c09_render_matches_microblaze.

Theorem c09_unambiguous_microblaze : forall i j ops ops' toks,
  (i < List.length stab_microblaze)%nat -> (j < List.length (stab_microblaze ++ extra_microblaze))%nat ->
  in_pairs i ambiguous_microblaze = false ->
  ops_ok kws_microblaze regs_microblaze (s_rule (entry_at stab_microblaze i)) ops = true ->
  render regs_microblaze (s_syn (entry_at stab_microblaze i)) ops = Some toks ->
  matches kwlabel_lower_microblaze kws_microblaze regs_microblaze (s_rule (entry_at (stab_microblaze ++ extra_microblaze) j)) toks = Some ops' ->
  j = i /\ ops' = ops.
Proof. exact (table_roundtrip _ _ _ _ _ _ _ facts_microblaze). Qed.
Print Assumptions c09_unambiguous_microblaze.

(* hypotheses are inhabited: riscv entry 0 is unambiguous, in range, prints and is recognised *)
Example c09_nonvacuous :
  let e := entry_at stab_riscv 0 in
  let ops := List.map (fun a => match a with AReg _ => VReg 3 | AImm => VImm (-5) | _ => VLabel "L0" end)
               (List.filter (fun a => match a with AReg _ | AImm | ALab => true | _ => false end) (s_rule e)) in
  (Nat.ltb 0 (List.length stab_riscv) && negb (in_pairs 0 ambiguous_riscv) &&
   ops_ok kws_riscv regs_riscv (s_rule e) ops &&
   match render regs_riscv (s_syn e) ops with
   | Some toks => match matches kwlabel_lower_riscv kws_riscv regs_riscv (s_rule e) toks with Some o => true | None => false end
   | None => false
   end)%bool = true.
Proof. vm_compute. reflexivity. Qed.
