(* Props/C19.v — property C19: S-record output decodes to the object's code.
   Only statements, [exact] of a lemma from Proofs/, and Print Assumptions.
   Model.Srecord is the hand model (tie H) of ppci/format/srecord.py with fixes C19-1..3 applied
   (write_srecord) and of the writer before the fixes (write_srecord_orig); it is cross-checked
   line by line against the implementation on every run of ./check C19. Spec.SrecSpec is the
   format definition with its reference reader [read_file] (parse hex text, check count and
   checksum, split the address) and the denotation [denote]. *)
From PV Require Import Lib.Py Spec.SrecSpec Model.Srecord Proofs.C19_srecord Proofs.C19_refuted Proofs.C19_text.
Open Scope Z_scope.

(* precondition base code = 0 <= base /\ base + len code <= 2^32 /\ every element of code is a byte *)

(* every emitted line is a well-formed record: the reference reader accepts the whole file,
   i.e. each count byte and each checksum is correct *)
Theorem c19_record_wellformed : forall base code, precondition base code ->
  exists lines recs, write_srecord base code = Ok lines /\ read_file lines = Some recs.
Proof. exact record_wellformed. Qed.
Print Assumptions c19_record_wellformed.

(* the file denotes exactly the code bytes at base, base+1, ... (also across 64 KiB / 16 MiB) *)
Theorem c19_denotes_code : forall base code lines, precondition base code ->
  write_srecord base code = Ok lines ->
  exists recs, read_file lines = Some recs /\ forall a, denote recs a = image base code a.
Proof. exact denotes_code. Qed.
Print Assumptions c19_denotes_code.

(* the header text travels in an S0 record which comes first; all data records have one type
   and the termination record is the matching one (S9 for S1, S8 for S2, S7 for S3) *)
Theorem c19_header_is_S0 : forall base code lines, precondition base code ->
  write_srecord base code = Ok lines ->
  exists recs, read_file lines = Some recs /\ wf_file recs = true /\
               exists rest, recs = mk_srec 0 0 [72; 68; 82] :: rest.
Proof. exact header_is_S0. Qed.
Print Assumptions c19_header_is_S0.

(* code that does not fit a 32-bit address is rejected with the documented ValueError *)
Theorem c19_too_large_rejected : forall base code,
  4294967296 < base + len code -> write_srecord base code = Diag 1.
Proof. exact write_srecord_too_large. Qed.
Print Assumptions c19_too_large_rejected.

(* text shape: every line is 'S' followed only by characters 0-9 A-F (the type digit and upper-case hex
   digits, no blanks), and has at most 74 characters (the format allows 2 + 2 * 256 = 514; each line is then
   terminated by the "\n" that print() appends) *)
Theorem c19_lines_ascii_and_length : forall base code lines, all_byte code = true ->
  write_srecord base code = Ok lines -> Forall line_ok lines.
Proof. exact lines_ascii_and_length. Qed.
Print Assumptions c19_lines_ascii_and_length.

(* ---- the writer as it was before the fixes violates the property *)
Theorem c19_header_is_S0_refuted : exists code recs, all_byte code = true /\
  orig_reads code = Some recs /\ wf_file recs = false /\ denote recs 0 <> image 0 code 0.
Proof. exact orig_header_not_S0. Qed.
Print Assumptions c19_header_is_S0_refuted.

Theorem c19_denotes_code_refuted : exists code recs a, all_byte code = true /\
  len code <= 4294967296 /\ orig_reads code = Some recs /\ denote recs a <> image 0 code a.
Proof. exact orig_wraps. Qed.
Print Assumptions c19_denotes_code_refuted.

(* hypotheses are inhabited: a 70-byte object at 0xFFF0 crosses 64 KiB and is written as S2 *)
Example c19_nonvacuous :
  let code := map (fun i => (7 * i + 3) mod 256) (rangeZ 0 70) in
  all_byte code = true /\
  match write_srecord 65520 code with
  | Ok lines => match read_file lines with
                | Some recs => wf_file recs && (Z.of_nat (List.length recs) =? 5) &&
                               forallb (fun a => match denote recs a, image 65520 code a with
                                                 | Some x, Some y => x =? y
                                                 | None, None => true
                                                 | _, _ => false end) (rangeZ 65500 65600)
                | None => false
                end
  | _ => false
  end = true.
Proof. vm_compute. split; reflexivity. Qed.
