(* Props/C38.v — property C38: constant folding agrees with run-time arithmetic.
   Only statements, [exact] of a lemma from Proofs/, and Print Assumptions.
   The folder is: Gen.constfold (py2coq from ppci/opt/constantfolding.py: correct, cast, rem,
   is_defined), Gen.constfold_ops (export of ConstantFolder().ops) — both regenerated from the tree
   under test on every run — and the hand model Model.ConstFold of is_const/eval_const/on_block.
   Run-time semantics: Spec.IRArith.  [fold op t a b] = what the pass does with the instruction
   [Binop (Const a : t) op (Const b : t) : t];  [chain op y t c1 c2] = [(y op c1) op c2]. *)
From PV Require Import Lib.Py Spec.IRArith Model.ConstFold Proofs.C38_constfold Proofs.C38_trees.
Open Scope Z_scope.

(* every operator of the folder's table (+ - * % << >>), every width, all operands for which the
   operation is defined at run time: the instruction is replaced by exactly the run-time value *)
Theorem c38_fold_exact : forall op t a b v,
  1 <= bits t -> in_range t a -> in_range t b -> handled op = true ->
  eval_binop op t a b = Some v -> fold op t a b = Ok (Folded v (typ_of t)).
Proof. exact fold_exact. Qed.
Print Assumptions c38_fold_exact.

(* / | & ^ are not in the table: the instruction is left for run time (nothing to get wrong) *)
Theorem c38_unhandled_untouched : forall op t a b, handled op = false -> fold op t a b = Ok Unchanged.
Proof. exact unhandled_untouched. Qed.
Print Assumptions c38_unhandled_untouched.

(* any operation code, any operand values (in range or not, operation defined or not): the pass does
   not raise, and a constant it produces lies in the range of the type *)
Theorem c38_fold_in_range : forall z t a b, 1 <= bits t ->
  on_instruction (bin z (typ_of t) a b) = Ok Unchanged \/
  exists v, on_instruction (bin z (typ_of t) a b) = Ok (Folded v (typ_of t)) /\ in_range t v.
Proof. exact fold_total_in_range. Qed.
Print Assumptions c38_fold_in_range.

(* integer cast of a constant = the run-time conversion (and therefore in range) *)
Theorem c38_cast_exact : forall from to v, 1 <= bits to ->
  on_instruction (VCast (VConst v from) (typ_of to)) = Ok (Folded (eval_cast to v) (typ_of to)).
Proof. exact cast_exact. Qed.
Print Assumptions c38_cast_exact.

(* (y + c1) + c2  becomes  y + c  with c in range and the same run-time value for every y *)
Theorem c38_chain_add_exact : forall y t c1 c2,
  1 <= bits t -> is_const y = Ok false -> ty_of y = typ_of t ->
  exists c, on_instruction (chain Add y (typ_of t) c1 c2) = Ok (Rechained y (opcode Add) c (typ_of t)) /\
    in_range t c /\
    forall yv r1 r, eval_binop Add t yv c1 = Some r1 -> eval_binop Add t r1 c2 = Some r ->
                    eval_binop Add t yv c = Some r.
Proof. exact chain_add_exact. Qed.
Print Assumptions c38_chain_add_exact.

Theorem c38_chain_sub_exact : forall y t c1 c2,
  1 <= bits t -> is_const y = Ok false -> ty_of y = typ_of t ->
  exists c, on_instruction (chain Sub y (typ_of t) c1 c2) = Ok (Rechained y (opcode Sub) c (typ_of t)) /\
    in_range t c /\
    forall yv r1 r, eval_binop Sub t yv c1 = Some r1 -> eval_binop Sub t r1 c2 = Some r ->
                    eval_binop Sub t yv c = Some r.
Proof. exact chain_sub_exact. Qed.
Print Assumptions c38_chain_sub_exact.

(* the chain rules leave floating point instructions alone *)
Theorem c38_chain_float_untouched : forall op y ty c1 c2, t_float ty = true -> t_int ty = false ->
  (op = Add \/ op = Sub) -> on_instruction (chain op y ty c1 c2) = Ok Unchanged.
Proof. exact chain_float_untouched. Qed.
Print Assumptions c38_chain_float_untouched.

(* reading of the Spec: wrap t v is the unique value in the range of t congruent to v mod 2^bits *)
Theorem c38_wrap_meaning : forall t v, 1 <= bits t ->
  in_range t (wrap t v) /\ (wrap t v) mod 2 ^ bits t = v mod 2 ^ bits t /\
  (forall w, in_range t w -> w mod 2 ^ bits t = v mod 2 ^ bits t -> w = wrap t v).
Proof. exact wrap_meaning. Qed.
Print Assumptions c38_wrap_meaning.

(* WHOLE CONSTANT EXPRESSION TREES (the recursion of is_const / eval_const through nested Binop and
   Cast instructions).  [cexp] = constants, unknown values (CVar), casts, operators of the table;
   [wt] = constants in range and operands of the type of their Binop; [run] = run-time evaluation
   instruction by instruction (Spec.IRArith).  A tree of any depth that evaluates at run time is
   replaced, at its root, by exactly that value, which lies in the range of the root's type. *)
Theorem c38_tree_fold_exact : forall e v, wt e -> is_leaf e = false -> run e = Some v ->
  on_instruction (to_value e) = Ok (Folded v (typ_of (cty e))) /\ in_range (cty e) v.
Proof. exact tree_fold_exact. Qed.
Print Assumptions c38_tree_fold_exact.

(* ANY well-formed tree (unknown leaves, undefined inner operations such as x % 0 or shifts out of
   range included): the pass does not raise, and a constant it creates - by folding or by one of the
   two chain rules with arbitrary constant subtrees c1, c2 - has the root's type and is in range *)
Theorem c38_tree_never_raises : forall e, wt e ->
  exists o, on_instruction (to_value e) = Ok o /\ good_outcome (cty e) o.
Proof. exact tree_never_raises. Qed.
Print Assumptions c38_tree_never_raises.

(* BOUNDED extras: exhaustive 8-bit sweeps, one per operator of the table (all 2 x 65536 operand
   pairs of i8 and u8, by vm_compute): defined => folded to the run-time value; undefined => left
   alone or folded to something in range *)
Theorem c38_sweep8_add_bounded : sweep8_stmt Add. Proof. exact sweep8_add_all. Qed.
Print Assumptions c38_sweep8_add_bounded.
Theorem c38_sweep8_sub_bounded : sweep8_stmt Sub. Proof. exact sweep8_sub_all. Qed.
Print Assumptions c38_sweep8_sub_bounded.
Theorem c38_sweep8_mul_bounded : sweep8_stmt Mul. Proof. exact sweep8_mul_all. Qed.
Print Assumptions c38_sweep8_mul_bounded.
Theorem c38_sweep8_rem_bounded : sweep8_stmt Rem. Proof. exact sweep8_rem_all. Qed.
Print Assumptions c38_sweep8_rem_bounded.
Theorem c38_sweep8_shl_bounded : sweep8_stmt Shl. Proof. exact sweep8_shl_all. Qed.
Print Assumptions c38_sweep8_shl_bounded.
Theorem c38_sweep8_shr_bounded : sweep8_stmt Shr. Proof. exact sweep8_shr_all. Qed.
Print Assumptions c38_sweep8_shr_bounded.

(* non-vacuity: hypotheses are inhabited and the conclusions compute to the expected numbers *)
Example c38_nonvacuous :
  fold Rem i32 (-7) 2 = Ok (Folded (-1) (typ_of i32)) /\ eval_binop Rem i32 (-7) 2 = Some (-1) /\
  fold Rem i8 7 (-2) = Ok (Folded 1 (typ_of i8)) /\
  fold Add u8 200 100 = Ok (Folded 44 (typ_of u8)) /\ fold Mul i8 (-128) (-1) = Ok (Folded (-128) (typ_of i8)) /\
  fold Shl i8 1 7 = Ok (Folded (-128) (typ_of i8)) /\ fold Shr i8 (-128) 7 = Ok (Folded (-1) (typ_of i8)) /\
  fold Shr u8 128 7 = Ok (Folded 1 (typ_of u8)) /\
  fold Rem i32 7 0 = Ok Unchanged /\ fold Shl i32 1 (-1) = Ok Unchanged /\ fold Shl i8 1 8 = Ok Unchanged /\
  fold Div i32 7 2 = Ok Unchanged /\
  on_instruction (chain Add (VOther (typ_of u8)) (typ_of u8) 200 100)
    = Ok (Rechained (VOther (typ_of u8)) (opcode Add) 44 (typ_of u8)) /\
  on_instruction (chain Sub (VOther (typ_of i8)) (typ_of i8) 100 100)
    = Ok (Rechained (VOther (typ_of i8)) (opcode Sub) (-56) (typ_of i8)) /\
  on_instruction (VCast (VConst 300 (typ_of i32)) (typ_of u8)) = Ok (Folded 44 (typ_of u8)) /\
  is_const (VOther (typ_of u8)) = Ok false /\ in_range i8 (-128) /\ in_range u8 255.
Proof. vm_compute. repeat split; congruence. Qed.

Definition ex_tree1 : cexp :=   (* (-7 % 2) + i8(100 * 3 : i32)  =  -1 + 44 *)
  CBin Add i8 (CBin Rem i8 (CConst (-7) i8) (CConst 2 i8)) (CCast i8 (CBin Mul i32 (CConst 100 i32) (CConst 3 i32))).
Definition ex_tree2 : cexp :=   (* (y - 200) - (50 + 50)  on u8 *)
  CBin Sub u8 (CBin Sub u8 (CVar u8) (CConst 200 u8)) (CBin Add u8 (CConst 50 u8) (CConst 50 u8)).
Definition ex_tree3 : cexp :=   (* 1 + (7 % 0) *)
  CBin Add i32 (CConst 1 i32) (CBin Rem i32 (CConst 7 i32) (CConst 0 i32)).
Example c38_trees_nonvacuous :
  wt ex_tree1 /\ is_leaf ex_tree1 = false /\ run ex_tree1 = Some 43 /\
  on_instruction (to_value ex_tree1) = Ok (Folded 43 (typ_of i8)) /\
  wt ex_tree2 /\ run ex_tree2 = None /\
  on_instruction (to_value ex_tree2) = Ok (Rechained (VOther (typ_of u8)) (opcode Sub) 44 (typ_of u8)) /\
  wt ex_tree3 /\ run ex_tree3 = None /\ on_instruction (to_value ex_tree3) = Ok Unchanged.
Proof. vm_compute. repeat split; congruence. Qed.
