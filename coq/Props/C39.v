(* Props/C39.v — property C39: bit-manipulation helpers compute their mathematical definitions.
   Only statements, [exact] of a lemma from Proofs/, and Print Assumptions.
   All theorems are about Gen.bitfun (regenerated from /repo/ppci/utils/bitfun.py on every run) and
   Gen.wasm_rt_bits (the bit-operation wrappers of /repo/ppci/wasm/execution/runtime.py). *)
From PV Require Import Lib.Py Spec.BitsSpec Spec.BitsSpecExt Gen.bitfun Gen.wasm_rt_bits Proofs.C39_bitfun Proofs.C39_bitfun2
  Proofs.C39_bitfun3.
Open Scope Z_scope.

Theorem c39_rotl : forall v count bits, 0 < bits -> 0 <= v < 2 ^ bits ->
  exists r, rotl v count bits = Ok r /\ is_rotl bits v (count mod bits) r.
Proof. exact rotl_correct. Qed.
Print Assumptions c39_rotl.

Theorem c39_rotr : forall v count bits, 0 < bits -> 0 <= v < 2 ^ bits ->
  exists r, rotr v count bits = Ok r /\ is_rotr bits v (count mod bits) r.
Proof. exact rotr_correct. Qed.
Print Assumptions c39_rotr.

Theorem c39_rotate_right : forall v n, 0 <= n <= 32 -> 0 <= v < 2 ^ 32 ->
  exists r, rotate_right v n = Ok r /\ is_rotr 32 v (n mod 32) r.
Proof. exact rotate_right_correct. Qed.
Print Assumptions c39_rotate_right.

Theorem c39_rotate_left : forall v n, 0 <= n < 32 -> 0 <= v < 2 ^ 32 ->
  exists r, rotate_left v n = Ok r /\ is_rotl 32 v n r.
Proof. exact rotate_left_correct. Qed.
Print Assumptions c39_rotate_left.

Theorem c39_reverse_bits : forall fuel v bits, 0 <= bits -> (Z.to_nat bits < fuel)%nat ->
  exists r, reverse_bits fuel v bits = Ok r /\ is_reverse bits v r.
Proof. exact reverse_bits_correct. Qed.
Print Assumptions c39_reverse_bits.

Theorem c39_sign_extend : forall value bits, 1 <= bits ->
  sign_extend value bits = Ok (signed_of bits value).
Proof. exact sign_extend_correct. Qed.
Print Assumptions c39_sign_extend.

Theorem c39_to_signed : forall value bits, 1 <= bits ->
  to_signed value bits = Ok (signed_of bits value).
Proof. exact to_signed_correct. Qed.
Print Assumptions c39_to_signed.

Theorem c39_to_unsigned : forall value bits, 0 <= bits ->
  to_unsigned value bits = Ok (unsigned_of bits value).
Proof. exact to_unsigned_correct. Qed.
Print Assumptions c39_to_unsigned.

(* signed_of is the two's-complement reading: in range and congruent to the input *)
Theorem c39_signed_of_meaning : forall n v, 1 <= n ->
  - 2 ^ (n - 1) <= signed_of n v < 2 ^ (n - 1) /\ (signed_of n v) mod 2 ^ n = v mod 2 ^ n.
Proof. exact signed_of_spec. Qed.
Print Assumptions c39_signed_of_meaning.

Theorem c39_popcnt : forall v bits, 0 <= bits -> popcnt v bits = Ok (popcount bits v).
Proof. exact popcnt_correct. Qed.
Print Assumptions c39_popcnt.

(* ---- count leading / trailing zeros: every v (negative = two's complement), every width *)
Theorem c39_clz : forall fuel v bits, 1 <= bits -> (Z.to_nat bits < fuel)%nat ->
  exists r, clz fuel v bits = Ok r /\ is_clz bits v r.
Proof. exact clz_correct. Qed.
Print Assumptions c39_clz.

Theorem c39_ctz : forall fuel v bits, 0 <= bits -> (Z.to_nat bits < fuel)%nat ->
  exists r, ctz fuel v bits = Ok r /\ is_ctz bits v r.
Proof. exact ctz_correct. Qed.
Print Assumptions c39_ctz.

(* ---- ARM modified-immediate encoder *)
Theorem c39_encode_imm32_ok : forall v x, 0 <= v < 2 ^ 32 -> encode_imm32 v = Ok x ->
  0 <= x < 4096 /\ arm_imm_decode x = v.
Proof. exact encode_imm32_ok. Qed.
Print Assumptions c39_encode_imm32_ok.

Theorem c39_encode_imm32_rejects : forall v, 0 <= v < 2 ^ 32 ->
  ((exists c, encode_imm32 v = Diag c) <-> ~ arm_imm_representable v).
Proof. exact encode_imm32_diag. Qed.
Print Assumptions c39_encode_imm32_rejects.

(* no other outcome (no internal error) on 32-bit inputs *)
Theorem c39_encode_imm32_total : forall v, 0 <= v < 2 ^ 32 ->
  (exists x, encode_imm32 v = Ok x) \/ encode_imm32 v = Diag 1.
Proof. exact encode_imm32_total. Qed.
Print Assumptions c39_encode_imm32_total.

(* (implementation choice, not required by C39) the current loop returns the smallest rotation among all
   representations. A refactoring of encode_imm32 that picks another valid rotation keeps every other C39
   theorem (ok / rejects / total) and breaks only this one. *)
Theorem c39_impl_choice_encode_imm32_smallest_rotation : forall v x rot imm8, 0 <= v < 2 ^ 32 -> encode_imm32 v = Ok x ->
  0 <= rot < 16 -> 0 <= imm8 < 256 -> ror32 imm8 (2 * rot) = v -> x / 256 <= rot.
Proof. exact encode_imm32_smallest. Qed.
Print Assumptions c39_impl_choice_encode_imm32_smallest_rotation.

(* ---- big-endian packing: the size base-256 digits of value mod 256^size, most significant first *)
Theorem c39_value_to_bytes_big_endian : forall value size, 0 <= size ->
  exists l, value_to_bytes_big_endian value size = Ok l /\ is_big_endian size value l.
Proof. exact value_to_bytes_big_endian_correct. Qed.
Print Assumptions c39_value_to_bytes_big_endian.

(* ---- wasm runtime wrappers (signed operands): the n-bit operation on the two's-complement reading,
   result returned as a signed n-bit number *)
Theorem c39_i32_rotl : forall v cnt,
  exists u, is_rotl 32 (unsigned_of 32 v) (cnt mod 32) u /\ i32_rotl v cnt = Ok (signed_of 32 u).
Proof. exact i32_rotl_correct. Qed.
Print Assumptions c39_i32_rotl.

Theorem c39_i64_rotl : forall v cnt,
  exists u, is_rotl 64 (unsigned_of 64 v) (cnt mod 64) u /\ i64_rotl v cnt = Ok (signed_of 64 u).
Proof. exact i64_rotl_correct. Qed.
Print Assumptions c39_i64_rotl.

Theorem c39_i32_rotr : forall v cnt,
  exists u, is_rotr 32 (unsigned_of 32 v) (cnt mod 32) u /\ i32_rotr v cnt = Ok (signed_of 32 u).
Proof. exact i32_rotr_correct. Qed.
Print Assumptions c39_i32_rotr.

Theorem c39_i64_rotr : forall v cnt,
  exists u, is_rotr 64 (unsigned_of 64 v) (cnt mod 64) u /\ i64_rotr v cnt = Ok (signed_of 64 u).
Proof. exact i64_rotr_correct. Qed.
Print Assumptions c39_i64_rotr.

Theorem c39_i32_clz : forall fuel v, (32 < fuel)%nat ->
  exists r, i32_clz fuel v = Ok r /\ is_clz 32 (unsigned_of 32 v) r.
Proof. exact i32_clz_correct. Qed.
Print Assumptions c39_i32_clz.

Theorem c39_i64_clz : forall fuel v, (64 < fuel)%nat ->
  exists r, i64_clz fuel v = Ok r /\ is_clz 64 (unsigned_of 64 v) r.
Proof. exact i64_clz_correct. Qed.
Print Assumptions c39_i64_clz.

Theorem c39_i32_ctz : forall fuel v, (32 < fuel)%nat ->
  exists r, i32_ctz fuel v = Ok r /\ is_ctz 32 (unsigned_of 32 v) r.
Proof. exact i32_ctz_correct. Qed.
Print Assumptions c39_i32_ctz.

Theorem c39_i64_ctz : forall fuel v, (64 < fuel)%nat ->
  exists r, i64_ctz fuel v = Ok r /\ is_ctz 64 (unsigned_of 64 v) r.
Proof. exact i64_ctz_correct. Qed.
Print Assumptions c39_i64_ctz.

Theorem c39_i32_popcnt : forall v, i32_popcnt v = Ok (popcount 32 (unsigned_of 32 v)).
Proof. exact i32_popcnt_correct. Qed.
Print Assumptions c39_i32_popcnt.

Theorem c39_i64_popcnt : forall v, i64_popcnt v = Ok (popcount 64 (unsigned_of 64 v)).
Proof. exact i64_popcnt_correct. Qed.
Print Assumptions c39_i64_popcnt.

Theorem c39_extend_s : forall x,
  i32_extend8_s x = Ok (signed_of 8 x) /\ i32_extend16_s x = Ok (signed_of 16 x) /\
  i64_extend8_s x = Ok (signed_of 8 x) /\ i64_extend16_s x = Ok (signed_of 16 x) /\
  i64_extend32_s x = Ok (signed_of 32 x).
Proof. exact extend_correct. Qed.
Print Assumptions c39_extend_s.

(* ---- wave 5: field-encoding helpers wrap_negative / inrange and align (every value, every width >= 1) *)
(* wrap_negative succeeds exactly on values that fit the n-bit field (signed or unsigned reading) and then
   returns the two's-complement bit pattern value mod 2^bits *)
Theorem c39_wrap_negative : forall value bits u, 1 <= bits ->
  (wrap_negative value bits = Ok u <-> fits_field bits value /\ u = unsigned_of bits value).
Proof. exact wrap_negative_iff. Qed.
Print Assumptions c39_wrap_negative.

(* every other value is rejected with the documented ValueError (never an internal error) *)
Theorem c39_wrap_negative_rejects : forall value bits, 1 <= bits -> ~ fits_field bits value ->
  wrap_negative value bits = Diag 1.
Proof. exact wrap_negative_rejects. Qed.
Print Assumptions c39_wrap_negative_rejects.

(* relation of two helpers: to_signed inverts wrap_negative on the signed range *)
Theorem c39_wrap_negative_to_signed : forall value bits, 1 <= bits -> fits_signed bits value ->
  exists u, wrap_negative value bits = Ok u /\ to_signed u bits = Ok value.
Proof. exact wrap_negative_to_signed. Qed.
Print Assumptions c39_wrap_negative_to_signed.

(* inrange decides the signed n-bit range ... *)
Theorem c39_inrange : forall value bits, 1 <= bits ->
  exists b, inrange value bits = Ok b /\ (b = true <-> fits_signed bits value).
Proof. exact inrange_fits. Qed.
Print Assumptions c39_inrange.

(* ... i.e. it answers whether the two's-complement reading (to_signed / sign_extend) preserves the value *)
Theorem c39_inrange_signed_of : forall value bits, 1 <= bits ->
  inrange value bits = Ok (signed_of bits value =? value).
Proof. exact inrange_signed_of. Qed.
Print Assumptions c39_inrange_signed_of.

(* align rounds up to the least multiple of m (m > 0; fuel >= m always suffices) *)
Theorem c39_align : forall fuel value m, 0 < m -> (Z.to_nat m <= fuel)%nat ->
  exists r, align fuel value m = Ok r /\ is_align_up m value r.
Proof. exact align_correct. Qed.
Print Assumptions c39_align.

(* non-vacuity: the hypotheses are met by concrete non-trivial values, and the conclusions
   compute to the expected numbers *)
Example c39_nonvacuous :
  rotl 0x81 1 8 = Ok 3 /\ rotr 0x81 1 8 = Ok 0xC0 /\ reverse_bits 20 0x80 8 = Ok 1 /\
  reverse_bits 20 0xE1 8 = Ok 0x87 /\ sign_extend 0xFF 8 = Ok (-1) /\ to_signed 200 8 = Ok (-56) /\
  popcnt 0xF1 8 = Ok 5 /\ rotate_left 0x80000001 4 = Ok 0x18 /\
  clz 40 0x00010000 32 = Ok 15 /\ clz 40 (-1) 32 = Ok 0 /\ ctz 40 (-8) 32 = Ok 3 /\ ctz 40 0 32 = Ok 32 /\
  encode_imm32 0xFF000000 = Ok 0x4FF /\ arm_imm_decode 0x4FF = 0xFF000000 /\ encode_imm32 0x101 = Diag 1 /\
  encode_imm32 0xF000000F = Ok 0x2FF /\
  value_to_bytes_big_endian 0x123456 4 = Ok [0; 0x12; 0x34; 0x56] /\
  value_to_bytes_big_endian (-2) 2 = Ok [0xFF; 0xFE] /\
  i32_rotl (-2147483648) 1 = Ok 1 /\ i32_rotr 1 1 = Ok (-2147483648) /\ i32_clz 40 (-1) = Ok 0 /\
  i64_ctz 70 (-9223372036854775808) = Ok 63 /\ i32_popcnt (-1) = Ok 32 /\ i32_extend8_s 0x80 = Ok (-128) /\
  wrap_negative (-1) 8 = Ok 0xFF /\ wrap_negative 255 8 = Ok 255 /\ wrap_negative 256 8 = Diag 1 /\
  wrap_negative (-129) 8 = Diag 1 /\ inrange (-128) 8 = Ok true /\ inrange 128 8 = Ok false /\
  align 10 13 8 = Ok 16 /\ align 10 (-3) 4 = Ok 0.
Proof. vm_compute. repeat split. Qed.
