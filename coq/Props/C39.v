(* Props/C39.v — property C39: bit-manipulation helpers compute their mathematical definitions.
   Only statements, [exact] of a lemma from Proofs/, and Print Assumptions.
   All theorems are about Gen.bitfun, regenerated from /repo/ppci/utils/bitfun.py on every run. *)
From PV Require Import Lib.Py Spec.BitsSpec Gen.bitfun Proofs.C39_bitfun.
Open Scope Z_scope.

Theorem c39_rotl : forall v count bits, 0 < bits -> 0 <= v < 2 ^ bits ->
  exists r, rotl v count bits = Ok r /\ is_rotl bits v (count mod bits) r.
Proof. exact rotl_correct. Qed.
Print Assumptions c39_rotl.

Theorem c39_rotr : forall v count bits, 0 < bits -> 0 <= v < 2 ^ bits ->
  exists r, rotr v count bits = Ok r /\ is_rotr bits v (count mod bits) r.
Proof. exact rotr_correct. Qed.
Print Assumptions c39_rotr.

Theorem c39_rotate_right : forall v n, 0 <= n <= 32 -> 0 <= v < 2 ^ 32 ->
  exists r, rotate_right v n = Ok r /\ is_rotr 32 v (n mod 32) r.
Proof. exact rotate_right_correct. Qed.
Print Assumptions c39_rotate_right.

Theorem c39_rotate_left : forall v n, 0 <= n < 32 -> 0 <= v < 2 ^ 32 ->
  exists r, rotate_left v n = Ok r /\ is_rotl 32 v n r.
Proof. exact rotate_left_correct. Qed.
Print Assumptions c39_rotate_left.

Theorem c39_reverse_bits : forall fuel v bits, 0 <= bits -> (Z.to_nat bits < fuel)%nat ->
  exists r, reverse_bits fuel v bits = Ok r /\ is_reverse bits v r.
Proof. exact reverse_bits_correct. Qed.
Print Assumptions c39_reverse_bits.

Theorem c39_sign_extend : forall value bits, 1 <= bits ->
  sign_extend value bits = Ok (signed_of bits value).
Proof. exact sign_extend_correct. Qed.
Print Assumptions c39_sign_extend.

Theorem c39_to_signed : forall value bits, 1 <= bits ->
  to_signed value bits = Ok (signed_of bits value).
Proof. exact to_signed_correct. Qed.
Print Assumptions c39_to_signed.

Theorem c39_to_unsigned : forall value bits, 0 <= bits ->
  to_unsigned value bits = Ok (unsigned_of bits value).
Proof. exact to_unsigned_correct. Qed.
Print Assumptions c39_to_unsigned.

(* signed_of is the two's-complement reading: in range and congruent to the input *)
Theorem c39_signed_of_meaning : forall n v, 1 <= n ->
  - 2 ^ (n - 1) <= signed_of n v < 2 ^ (n - 1) /\ (signed_of n v) mod 2 ^ n = v mod 2 ^ n.
Proof. exact signed_of_spec. Qed.
Print Assumptions c39_signed_of_meaning.

Theorem c39_popcnt : forall v bits, 0 <= bits -> popcnt v bits = Ok (popcount bits v).
Proof. exact popcnt_correct. Qed.
Print Assumptions c39_popcnt.

(* non-vacuity: the hypotheses are met by concrete non-trivial values, and the conclusions
   compute to the expected numbers *)
Example c39_nonvacuous :
  rotl 0x81 1 8 = Ok 3 /\ rotr 0x81 1 8 = Ok 0xC0 /\ reverse_bits 20 0x80 8 = Ok 1 /\
  reverse_bits 20 0xE1 8 = Ok 0x87 /\ sign_extend 0xFF 8 = Ok (-1) /\ to_signed 200 8 = Ok (-56) /\
  popcnt 0xF1 8 = Ok 5 /\ rotate_left 0x80000001 4 = Ok 0x18.
Proof. vm_compute. repeat split. Qed.
