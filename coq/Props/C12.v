(* Props/C12.v — property C12: the linker places sections correctly and preserves their contents.
   Only statements, [exact] of a lemma from Proofs/C12_linker.v (or a vm_compute witness), and
   the assumption audit. All theorems are about Model.Linker (hand model, tie H, compared with
   ppci.binutils.linker on every run by tools/props/c12.py).

   link_trace cfg objs lay partial entry extra = Ok (out, ts):
     out = the linked object after check_undefined_symbols,
     ts  = per input object what inject_object recorded: (section_offsets in section order, new symbol ids).
   Vocabulary (Spec/LinkSpec.v): aligned, bytes_at, contribution_at, least_aligned_from, mem_byte,
   ordered_from, end_of. *)
From PV Require Import Lib.Py Spec.LinkSpec Model.Linker Proofs.C12_linker Proofs.C12_errors Proofs.C12_e2e Proofs.C12_sdata.
From Coq Require Import String.
Open Scope Z_scope.

(* ---- inject_object: offsets, padding, contents *)
Theorem c12_offsets_aligned :
  forall cfg objs lay partial entry extra out ts i o t j s rec,
  link_trace cfg objs lay partial entry extra = Ok (out, ts) ->
  nth_error objs i = Some o -> nth_error ts i = Some t ->
  nth_error (o_sects o) j = Some s -> nth_error (fst t) j = Some rec ->
  fst rec = s_name s /\ aligned (snd rec) (s_align s).
Proof. exact c12_offsets. Qed.
Print Assumptions c12_offsets_aligned.

(* every input section's bytes sit unchanged at the recorded offset of the output section of the same
   name, preceded by the minimal run of zero bytes that reaches a multiple of its alignment; nothing
   before it was touched; the output alignment is at least the input's *)
Theorem c12_contents_preserved :
  forall cfg objs lay partial entry extra out ts,
  link_trace cfg objs lay partial entry extra = Ok (out, ts) ->
  List.length ts = List.length objs /\
  forall i o t, nth_error objs i = Some o -> nth_error ts i = Some t ->
    List.length (fst t) = List.length (o_sects o) /\
    forall j s rec, nth_error (o_sects o) j = Some s -> nth_error (fst t) j = Some rec ->
      fst rec = s_name s /\
      exists os, find_sect (s_name s) (o_sects out) = Some os /\ s_align s <= s_align os /\
                 contribution_at (s_data os) (s_align s) (snd rec) (s_data s).
Proof. exact c12_contents. Qed.
Print Assumptions c12_contents_preserved.

Theorem c12_contribution_meaning :
  forall out a off bytes, contribution_at out a off bytes -> bytes_at out off bytes /\ aligned off a.
Proof. exact contribution_bytes_at. Qed.
Print Assumptions c12_contribution_meaning.

(* ---- symbols and relocations *)
Theorem c12_symbols_shifted :
  forall cfg objs lay partial entry extra out ts i o t k sy id v,
  link_trace cfg objs lay partial entry extra = Ok (out, ts) ->
  nth_error objs i = Some o -> nth_error ts i = Some t ->
  nth_error (o_syms o) k = Some sy -> nth_error (snd t) k = Some id -> y_value sy = Some v ->
  exists ds, 0 <= id /\ nth_error (o_syms out) (Z.to_nat id) = Some ds /\ y_id ds = id /\
    y_name ds = y_name sy /\ y_bind ds = y_bind sy /\
    ((exists sc off, y_sect sy = Some sc /\ lookup sc (fst t) = Some off /\
                     y_value ds = Some (off + v) /\ y_sect ds = Some sc) \/
     (* absolute symbol, only with fixes/C12-2 *)
     (fix_abs cfg = true /\ y_sect sy = None /\ y_value ds = Some v /\ y_sect ds = None)).
Proof. exact c12_symbols. Qed.
Print Assumptions c12_symbols_shifted.

(* the offset used for a symbol is the recorded offset of its section (unique section names) *)
Theorem c12_symbol_offset_is_section_offset :
  forall sects offs j s rec,
  Forall2 (fun s rec => fst rec = s_name s) sects offs -> NoDup (map s_name sects) ->
  nth_error sects j = Some s -> nth_error offs j = Some rec -> lookup (s_name s) offs = Some (snd rec).
Proof. exact lookup_unique. Qed.
Print Assumptions c12_symbol_offset_is_section_offset.

Theorem c12_symbols_present :
  forall cfg objs lay partial entry extra out ts i o t k sy,
  link_trace cfg objs lay partial entry extra = Ok (out, ts) ->
  nth_error objs i = Some o -> nth_error ts i = Some t ->
  nth_error (o_syms o) k = Some sy ->
  exists id ds, nth_error (snd t) k = Some id /\ nth_error (o_syms out) (Z.to_nat id) = Some ds /\
                y_name ds = y_name sy /\ y_bind ds = y_bind sy.
Proof. exact c12_symbols_present. Qed.
Print Assumptions c12_symbols_present.

Theorem c12_relocations_shifted :
  forall cfg objs lay partial entry extra out ts i o t,
  link_trace cfg objs lay partial entry extra = Ok (out, ts) ->
  nth_error objs i = Some o -> nth_error ts i = Some t ->
  exists pre rels post, o_relocs out = pre ++ rels ++ post /\
                        Forall2 (reloc_shifted t o) (o_relocs o) rels.
Proof. exact c12_relocs. Qed.
Print Assumptions c12_relocations_shifted.

(* ---- layout: needs "no section is placed twice" (see the refutation below) *)
Theorem c12_layout_aligned_in_region_disjoint :
  forall cfg objs l entry extra out ts,
  link_trace cfg objs (Some l) false entry extra = Ok (out, ts) ->
  NoDup (all_placed (l_mems l)) ->
  Forall2 (fun m img =>
    let ss := resolve (o_sects out) (i_sects img) in
    i_name img = m_name m /\ i_addr img = m_loc m /\ i_sects img = placed_names (m_inputs m) /\
    (forall s, In s ss -> aligned (s_addr s) (s_align s) /\
                          m_loc m <= s_addr s /\ s_addr s + len (s_data s) <= m_loc m + m_size m) /\
    (forall i j s1 s2, (i < j)%nat -> nth_error ss i = Some s1 -> nth_error ss j = Some s2 ->
                       s_addr s1 + len (s_data s1) <= s_addr s2) /\
    exists bytes, image_data (o_sects out) img = Ok bytes /\ len bytes <= m_size m /\
      forall k, 0 <= k < len bytes -> nth (Z.to_nat k) bytes 0 = mem_byte (blocks ss) (m_loc m + k))
    (l_mems l) (o_images out).
Proof. exact c12_layout. Qed.
Print Assumptions c12_layout_aligned_in_region_disjoint.

(* with fixes/C12-1 (a section placed twice is a CompilerError) the hypothesis follows from the
   success of the link *)
Theorem c12_layout_no_section_placed_twice :
  forall cfg objs l entry extra out ts, fix_twice cfg = true ->
  link_trace cfg objs (Some l) false entry extra = Ok (out, ts) -> NoDup (all_placed (l_mems l)).
Proof. exact link_trace_fixed_nodup. Qed.
Print Assumptions c12_layout_no_section_placed_twice.

Theorem c12_layout_aligned_in_region_disjoint_fixed :
  forall cfg objs l entry extra out ts, fix_twice cfg = true ->
  link_trace cfg objs (Some l) false entry extra = Ok (out, ts) ->
  Forall2 (placed_ok out) (l_mems l) (o_images out).
Proof. exact c12_layout_fixed. Qed.
Print Assumptions c12_layout_aligned_in_region_disjoint_fixed.

(* without the hypothesis (code as found): a section listed in two memories makes the first image overflow its
   memory although the link succeeds (replayed on the implementation by tools/props/c12.py) *)
Definition w_obj : obj :=
  mkObj [mkSect "code" 0 4 [1; 2; 3; 4]] [mkSym 0 "main" "global" (Some 0) (Some "code"%string) "func" 0] [] [] None.
Definition w_twice : layout :=
  mkLayout [mkMem "flash" 0 256 [ISection "code"]; mkMem "ram" 512 256 [ISection "code"]] None.

Theorem c12_layout_section_placed_twice_refuted :
  exists out ts img bytes,
    link_trace (mk_lcfg false false) [w_obj] (Some w_twice) false None [] = Ok (out, ts) /\
    nth_error (o_images out) 0 = Some img /\ i_name img = "flash"%string /\
    image_data (o_sects out) img = Ok bytes /\ len bytes = 516 /\ 516 > 256.
Proof. do 4 eexists. vm_compute. repeat split; reflexivity. Qed.
Print Assumptions c12_layout_section_placed_twice_refuted.

Theorem c12_layout_section_placed_twice_fixed_is_error :
  link (mk_lcfg true false) [w_obj] (Some w_twice) false None [] = Diag 6.
Proof. vm_compute. reflexivity. Qed.
Print Assumptions c12_layout_section_placed_twice_fixed_is_error.

(* a non-empty section the layout does not mention ends up in no image, at address 0, silently *)
Definition w_two : obj :=
  mkObj [mkSect "code" 0 4 [1; 2; 3; 4]; mkSect "data" 0 4 [5; 6; 7; 8]]
        [mkSym 0 "main" "global" (Some 0) (Some "code"%string) "func" 0] [] [] None.
Theorem c12_section_never_placed_witness :
  exists out ts s,
    link_trace (mk_lcfg false false) [w_two] (Some (mkLayout [mkMem "flash" 256 256 [ISection "code"]] None)) false None []
      = Ok (out, ts) /\
    find_sect "data" (o_sects out) = Some s /\ s_data s = [5; 6; 7; 8] /\ s_addr s = 0 /\
    forallb (fun img => negb (existsb (String.eqb "data") (i_sects img))) (o_images out) = true.
Proof. do 3 eexists. vm_compute. repeat split; reflexivity. Qed.
Print Assumptions c12_section_never_placed_witness.

(* ---- final address of a contribution *)
Theorem c12_final_address_aligned :
  forall addr a_out off a, aligned addr a_out -> (a | a_out) -> aligned off a -> aligned (addr + off) a.
Proof. exact c12_final_address. Qed.
Print Assumptions c12_final_address_aligned.

(* the divisibility hypothesis is needed: alignments 4 and 3 merge to max = 4 *)
Theorem c12_final_address_non_multiple_refuted :
  exists out ts os ds,
    link_trace (mk_lcfg false false) [mkObj [mkSect "code" 0 4 [1]] [] [] [] None;
                mkObj [mkSect "code" 0 3 [2]] [mkSym 0 "foo" "global" (Some 0) (Some "code"%string) "func" 0] [] [] None]
               (Some (mkLayout [mkMem "flash" 4 256 [ISection "code"]] None)) false None [] = Ok (out, ts) /\
    find_sect "code" (o_sects out) = Some os /\ nth_error (o_syms out) 0 = Some ds /\
    s_align os = 4 /\ y_value ds = Some 3 /\ (s_addr os + 3) mod 3 = 1.
Proof. do 4 eexists. vm_compute. repeat split; reflexivity. Qed.
Print Assumptions c12_final_address_non_multiple_refuted.

(* ---- Image.data *)
Theorem c12_image_data :
  forall secs img,
  let ss := resolve secs (i_sects img) in
  (ordered_from (i_addr img) (blocks ss) ->
     exists bytes, image_data secs img = Ok bytes /\ bytes = fill (i_addr img) ss /\
       len bytes = end_of (i_addr img) (blocks ss) - i_addr img /\
       forall k, 0 <= k < len bytes -> nth (Z.to_nat k) bytes 0 = mem_byte (blocks ss) (i_addr img + k)) /\
  (~ ordered_from (i_addr img) (blocks ss) -> image_data secs img = Internal ValueErrorI).
Proof. exact image_data_spec. Qed.
Print Assumptions c12_image_data.

(* ---- the two while loops terminate within their internal fuel and compute the least multiple *)
Theorem c12_align_up_least :
  forall cur a c, align_up cur a = Ok c -> least_aligned_from cur c a /\ c - cur < Z.abs a.
Proof. exact align_up_least. Qed.
Print Assumptions c12_align_up_least.

Theorem c12_loops_never_out_of_fuel :
  forall x data a, a <> 0 -> (exists c, align_up x a = Ok c) /\ (exists d, pad_to data a = Ok d).
Proof. exact loops_total. Qed.
Print Assumptions c12_loops_never_out_of_fuel.

(* ---- errors *)
Theorem c12_final_link_globals_defined :
  forall cfg objs lay entry extra out ts,
  link_trace cfg objs lay false entry extra = Ok (out, ts) ->
  forall s, In s (o_syms out) -> is_global (y_bind s) = true -> y_value s <> None.
Proof. exact link_trace_defined. Qed.
Print Assumptions c12_final_link_globals_defined.

(* a link that succeeds has no global defined twice (extra symbols, input objects, layout
   SymbolDefinitions, in that order): duplicate definitions make the link fail *)
Theorem c12_no_duplicate_definitions :
  forall cfg objs lay partial entry extra out ts,
  link_trace cfg objs lay partial entry extra = Ok (out, ts) ->
  NoDup (all_defs objs lay partial extra).
Proof. exact link_trace_no_duplicate_definitions. Qed.
Print Assumptions c12_no_duplicate_definitions.

(* step-level exactness of the three diagnostics *)
Theorem c12_multiple_definition_exact :
  forall syms n sc value typ size c,
  merge_global_symbol syms n sc value typ size = Diag c <->
  c = 1 /\ exists s v v0, find_global n syms = Some s /\ y_value s = Some v0 /\ value = Some v.
Proof. exact merge_global_symbol_diag. Qed.
Print Assumptions c12_multiple_definition_exact.

Theorem c12_undefined_exact :
  forall d,
  (check_undefined_symbols d = Diag 5 <->
   exists s, In s (o_syms d) /\ is_global (y_bind s) = true /\ y_value s = None) /\
  (check_undefined_symbols d = Ok tt \/ check_undefined_symbols d = Diag 5).
Proof. exact check_undefined_diag. Qed.
Print Assumptions c12_undefined_exact.

Theorem c12_memory_exceeded_exact :
  forall cfg d m d1 cur names data,
  layout_inputs cfg (d, m_loc m, []) (m_inputs m) = Ok (d1, cur, names) ->
  image_data (o_sects d1) (mkImage (m_name m) (m_loc m) names) = Ok data ->
  (layout_memory cfg d m = Diag 4 <-> len data > m_size m) /\
  (len data <= m_size m -> exists d', layout_memory cfg d m = Ok d').
Proof. exact layout_memory_size_check. Qed.
Print Assumptions c12_memory_exceeded_exact.

(* ---- whole-link outcome analysis (Proofs/C12_errors.v).
   link_ok_post: no global defined twice (extra symbols, objects, layout SymbolDefinitions), entry name and
     extra symbols distinct, at most one entry point, and in a final link every referenced global is defined.
   link_diag_cause c: the cause of CompilerError code c (1 duplicate definition, 2 entry/extra-symbol clash,
     3 several entry points, 4 an image larger than its memory, 5 an undefined global remains, 6 a section
     placed twice (only with fixes/C12-1)).
   wf_link: inputs on which no other exception can occur (non-empty object list, no layout in a partial link,
     alignments non-zero, symbols/relocations/entry ids refer to sections and symbols of their object
     (section-less defined symbols only with fixes/C12-2), SectionData sources exist, generated section names
     are fresh, Align arguments non-zero, no section placed twice).
   The model never runs out of fuel. *)
Theorem c12_errors_exact :
  forall cfg objs lay partial entry extra,
  let r := link_trace cfg objs lay partial entry extra in
  (forall x, r = Ok x -> link_ok_post objs lay partial entry extra) /\
  (forall c, r = Diag c -> link_diag_cause cfg objs lay partial entry extra c) /\
  (forall e, r = Internal e -> ~ wf_link cfg objs lay partial) /\
  r <> OutOfFuel /\
  (wf_link cfg objs lay partial ->
     (exists x, r = Ok x) \/ (exists c, r = Diag c /\ link_diag_cause cfg objs lay partial entry extra c)).
Proof. exact link_errors_exact. Qed.
Print Assumptions c12_errors_exact.

Theorem c12_ok_excludes_every_cause :
  forall cfg objs lay partial entry extra x,
  link_trace cfg objs lay partial entry extra = Ok x ->
  NoDup (all_defs objs lay partial extra) /\
  NoDup (ename_l lay entry ++ map fst extra) /\
  (ecnt objs lay entry <= 1)%nat /\
  (partial = false -> forall n, In n (all_refs objs lay entry) -> In n (all_defs objs lay partial extra)) /\
  (fix_twice cfg = true -> partial = false -> forall l, lay = Some l -> NoDup (all_placed (l_mems l))).
Proof. exact link_ok_no_cause. Qed.
Print Assumptions c12_ok_excludes_every_cause.

(* ---- end to end: the bytes of every input section are found in the memory image of the memory its
   output section is placed in, at section.address + recorded offset (inside the memory region) *)
Theorem c12_end_to_end_contents :
  forall cfg objs l entry extra out ts i o t j s rec m img,
  link_trace cfg objs (Some l) false entry extra = Ok (out, ts) ->
  (NoDup (all_placed (l_mems l)) \/ fix_twice cfg = true) ->
  nth_error objs i = Some o -> nth_error ts i = Some t ->
  nth_error (o_sects o) j = Some s -> nth_error (fst t) j = Some rec ->
  In (m, img) (combine (l_mems l) (o_images out)) -> In (s_name s) (i_sects img) ->
  exists os bytes,
    find_sect (s_name s) (o_sects out) = Some os /\ image_data (o_sects out) img = Ok bytes /\
    aligned (s_addr os) (s_align os) /\
    m_loc m <= s_addr os + snd rec /\ s_addr os + snd rec + len (s_data s) <= m_loc m + m_size m /\
    forall k, 0 <= k < len (s_data s) ->
      mem_byte (blocks (resolve (o_sects out) (i_sects img))) (s_addr os + snd rec + k) = nth (Z.to_nat k) (s_data s) 0 /\
      nth (Z.to_nat (s_addr os + snd rec + k - m_loc m)) bytes 0 = nth (Z.to_nat k) (s_data s) 0.
Proof. exact end_to_end_contents. Qed.
Print Assumptions c12_end_to_end_contents.

(* ---- SECTIONDATA copies and relocation (fixes/C12-3-sectiondata-after-relocation.diff).
   link_final cfg fix_sd relocate = link, then an arbitrary section transformer [relocate] standing for
   do_relaxations/do_relocations, then (fix_sd = true) update_section_copies. With the fix every load copy
   `_$n_` holds the final bytes of its source section n, which are the bytes relocate produced for n unless n
   is itself a generated copy. *)
Theorem c12_sectiondata_relocated :
  forall cfg (relocate : list sect -> result (list sect)),
  (forall secs secs', relocate secs = Ok secs' -> map s_name secs' = map s_name secs) ->
  forall objs l entry extra out m n,
  link_final cfg true relocate objs (Some l) entry extra = Ok out ->
  In m (l_mems l) -> In (ISectionData n) (m_inputs m) ->
  exists d secs_r c s,
    link cfg objs (Some l) false entry extra = Ok d /\ relocate (o_sects d) = Ok secs_r /\
    find_sect (sd_name n) (o_sects out) = Some c /\ find_sect n (o_sects out) = Some s /\
    s_data c = s_data s /\
    (~ In n (map fst (sd_pairs (l_mems l))) -> find_sect n secs_r = Some s).
Proof. exact sectiondata_relocated. Qed.
Print Assumptions c12_sectiondata_relocated.

(* code as found: the copy keeps the bytes it had at layout time (replayed on the implementation with a
   real relocation, `dcd =main` in a data section, by tools/props/c12.py) *)
Theorem c12_sectiondata_stale_refuted :
  exists out c s,
    link_final (mk_lcfg true true) false bump_sections [w_sd_obj] (Some w_sd_layout) None [] = Ok out /\
    find_sect (sd_name "data") (o_sects out) = Some c /\ find_sect "data" (o_sects out) = Some s /\
    s_data c = [0; 0; 0; 0] /\ s_data s = [1; 1; 1; 1].
Proof. exact sectiondata_stale_refuted. Qed.
Print Assumptions c12_sectiondata_stale_refuted.

Theorem c12_sectiondata_fixed_witness :
  exists out c s,
    link_final (mk_lcfg true true) true bump_sections [w_sd_obj] (Some w_sd_layout) None [] = Ok out /\
    find_sect (sd_name "data") (o_sects out) = Some c /\ find_sect "data" (o_sects out) = Some s /\
    s_data c = [1; 1; 1; 1] /\ s_data s = [1; 1; 1; 1].
Proof. exact sectiondata_fixed_witness. Qed.
Print Assumptions c12_sectiondata_fixed_witness.

(* non-vacuity: a two-object link with a layout succeeds, satisfies the layout hypothesis, and the
   numbers are the expected ones *)
Example c12_nonvacuous :
  let o1 := mkObj [mkSect "code" 0 8 [1; 2; 3]] [mkSym 0 "main" "global" (Some 1) (Some "code"%string) "func" 0] [] [] None in
  let o2 := mkObj [mkSect "code" 0 4 [9; 9; 9; 9; 9]; mkSect "data" 0 16 [7]]
                  [mkSym 0 "x" "global" (Some 2) (Some "code"%string) "func" 0;
                   mkSym 1 "main" "global" None None "func" 0]
                  [mkReloc "abs32" 1 "code" 1 0] [] None in
  let l := mkLayout [mkMem "flash" 256 16 [ISection "code"; IAlign 16; ISymDef "e"];
                     mkMem "ram" 8192 40 [ISection "data"; ISectionData "code"]] None in
  NoDup (all_placed (l_mems l)) /\
  exists out, link_trace (mk_lcfg true true) [o1; o2] (Some l) false None [] =
              Ok (out, [([("code"%string, 0)], [0]); ([("code"%string, 4); ("data"%string, 0)], [1; 0])]) /\
    map s_addr (o_sects out) = [256; 8192; 272; 8193] /\
    sdata "code" (o_sects out) = [1; 2; 3; 0; 9; 9; 9; 9; 9] /\
    map y_value (o_syms out) = [Some 1; Some 6; Some 0] /\
    o_relocs out = [mkReloc "abs32" 0 "code" 5 0].
Proof.
  split.
  - vm_compute. repeat constructor; cbn; intuition discriminate.
  - eexists. vm_compute. repeat split; reflexivity.
Qed.
