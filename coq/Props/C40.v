(* Props/C40.v — property C40: x86-64 code interoperates with the System V ABI.  PARTIAL.
   Only statements, [exact] of a lemma from Proofs/C40_x86abi.v, and Print Assumptions.

   What these theorems are about: the hand model Model/X86Abi.v of ppci/arch/x86_64/arch.py
   (determine_arg_locations, determine_rv_location, gen_call, gen_function_enter, gen_prologue,
   gen_epilogue, get_callee_saved, round_up16) over the tables Gen/Tab_x86abi.v exported from the
   current /repo, against Spec/SysVSpec.v (psABI parameter passing, callee-saved registers, and an
   abstract stack machine that knows only rsp arithmetic, 8-byte slots and symbolic register
   contents).  NOT covered: what the emitted mov/movsx/movss instructions do to values, instruction
   encodings, struct arguments, varargs, the Windows convention, register allocation, linking,
   native execution.  The model is tied to the code by per-run differential correspondence. *)
From PV Require Import Lib.Py Spec.SysVSpec Model.X86AbiTypes Gen.Tab_x86abi Model.X86Abi Proofs.C40_x86abi.
From Coq Require Import String.
Open Scope Z_scope.
Local Open Scope string_scope.

(* argument locations = psABI, for every scalar signature in which no float is passed in memory
   (tab_fp_slot is the slot size the current tree uses for stack-passed floating point arguments) *)
Theorem c40_arg_locations : forall tys,
  (forall t, In t (stack_passed tys) -> is_int_ty t = false -> tab_fp_slot t = 8) ->
  map abs_loc (determine_arg_locations tys) = sysv_arg_places (map sty_of tys).
Proof. exact arg_locations_current. Qed.
Print Assumptions c40_arg_locations.

Theorem c40_arg_locations_no_f32_on_stack : forall tys,
  ~ In F32 (stack_passed tys) ->
  map abs_loc (determine_arg_locations tys) = sysv_arg_places (map sty_of tys).
Proof. exact arg_locations_no_f32_on_stack. Qed.
Print Assumptions c40_arg_locations_no_f32_on_stack.

(* the defect: with slot size = size of the type (arg_size = self.info.get_size(arg_type)) the walk
   is not the psABI: 10 x f32 puts the 10th argument at 20(%rbp) instead of 24(%rbp) *)
Theorem c40_arg_locations_refuted :
  exists tys, map abs_loc (arg_locs_go tab_int_slot tab_type_size tab_int_regs tab_float_regs 16 tys)
              <> sysv_arg_places (map sty_of tys).
Proof. exact arg_locations_typesize_refuted. Qed.
Print Assumptions c40_arg_locations_refuted.

(* the repair: the same walk with 8-byte slots is the psABI for ALL scalar signatures *)
Theorem c40_arg_locations_slot8 : forall tys,
  map abs_loc (arg_locs_go tab_int_slot (fun _ => 8) tab_int_regs tab_float_regs 16 tys)
  = sysv_arg_places (map sty_of tys).
Proof. exact arg_locations_slot8. Qed.
Print Assumptions c40_arg_locations_slot8.

Theorem c40_rv_location : forall t, phys (determine_rv_location t) = sysv_return_place (sty_of t).
Proof. exact rv_location_ok. Qed.
Print Assumptions c40_rv_location.

(* whenever gen_call succeeds, the callee's gen_function_enter reads every stack parameter from the
   slot into which the caller pushed that argument (callee rbp = rsp at the call - 16) *)
Theorem c40_caller_callee_agree : forall tys rv ops_call ops_enter s,
  gen_call tys rv = Ok ops_call -> gen_function_enter tys = Ok ops_enter ->
  exists s_call, run s (abs_ops (before_call ops_call)) = Some s_call /\
    forall i off bits, In (MArgFromStack i off bits) ops_enter ->
      st_mem s_call (st_rsp s_call - 16 + off) = Some (VArg i).
Proof. exact caller_callee_agree. Qed.
Print Assumptions c40_caller_callee_agree.

(* rsp is 16-byte aligned at the call instruction when it was aligned before the call sequence,
   and it is, after the prologue of a function entered with the ABI's (rsp+8) mod 16 = 0 *)
Theorem c40_call_alignment : forall tys rv ops s,
  gen_call tys rv = Ok ops -> aligned16 (st_rsp s) ->
  exists s', run s (abs_ops (before_call ops)) = Some s' /\ aligned16 (st_rsp s').
Proof. exact call_alignment. Qed.
Print Assumptions c40_call_alignment.

Theorem c40_prologue_alignment : forall stacksize used rsp0 m,
  0 <= stacksize -> entry_aligned rsp0 ->
  exists s, run (entry_state rsp0 m) (abs_ops (gen_prologue stacksize used)) = Some s
            /\ aligned16 (st_rsp s) /\ st_reg s fp = VAddr (rsp0 - 8)
            /\ st_rsp s <= rsp0 - 8 - stacksize.
Proof.
  intros stacksize used rsp0 m H0 Ha.
  exact (prologue_aligned stacksize (get_callee_saved used) rsp0 m H0 (callee_saved_push8 used) Ha).
Qed.
Print Assumptions c40_prologue_alignment.

Theorem c40_call_balanced : forall tys rv ops s, gen_call tys rv = Ok ops ->
  exists s', run s (abs_ops ops) = Some s' /\ st_rsp s' = st_rsp s.
Proof. exact call_balanced. Qed.
Print Assumptions c40_call_balanced.

(* prologue ; any body that keeps rsp and writes only its locals and below rsp ; epilogue:
   returns to the caller (rsp = entry rsp + 8), rbp, every saved register and every register the
   body did not write hold their entry values, the caller's stack is untouched *)
Theorem c40_prologue_epilogue_balanced : forall stacksize used clob rsp0 m,
  0 <= stacksize ->
  exists s',
    run (entry_state rsp0 m)
        (abs_ops (gen_prologue stacksize used) ++ [SBody stacksize clob] ++ abs_ops (gen_epilogue stacksize used))
    = Some s'
    /\ st_rsp s' = rsp0 + 8
    /\ (forall p, p = fp \/ In p (map phys (get_callee_saved used)) \/ existsb (preg_eqb p) clob = false ->
                  st_reg s' p = VInit p)
    /\ (forall a, rsp0 <= a -> st_mem s' a = st_mem (entry_state rsp0 m) a).
Proof.
  intros stacksize used clob rsp0 m H0.
  exact (frame_balanced stacksize (get_callee_saved used) clob rsp0 m H0 (callee_saved_push8 used)).
Qed.
Print Assumptions c40_prologue_epilogue_balanced.

(* pops mirror pushes *)
Theorem c40_pops_mirror_pushes : forall stacksize used,
  pops_of (gen_epilogue stacksize used) = rev (pushes_of (gen_prologue stacksize used)).
Proof. exact pops_mirror_pushes. Qed.
Print Assumptions c40_pops_mirror_pushes.

(* every allocatable register that lives in a register the ABI wants preserved is saved when used *)
Theorem c40_callee_saved_covers : forall r used,
  In r tab_allocatable -> abi_callee_saved (phys r) = true -> In r used ->
  exists c, In c (get_callee_saved used) /\ phys c = phys r.
Proof. exact callee_saved_covers. Qed.
Print Assumptions c40_callee_saved_covers.

(* every other allocatable register is (an alias of) an entry of the clobber list of call *)
Theorem c40_caller_saved_covers : forall r,
  In r tab_allocatable -> abi_callee_saved (phys r) = false ->
  exists c, In c tab_caller_save /\ In r (alias_of c) /\ phys c = phys r.
Proof. exact caller_saved_covers. Qed.
Print Assumptions c40_caller_saved_covers.

(* ---------------------------------------------------------------- wave 3 *)
(* with the 8-byte slots the tree now has: every scalar signature, however many integer and floating
   point arguments overflow the registers (the proof of tab_fp_slot_8 breaks if a slot size changes) *)
Theorem c40_arg_locations_all : forall tys,
  map abs_loc (determine_arg_locations tys) = sysv_arg_places (map sty_of tys).
Proof. exact arg_locations_all. Qed.
Print Assumptions c40_arg_locations_all.

(* the k-th memory argument, counted left to right over integer and floating point arguments alike,
   is at 16 + 8k from the callee's rbp: consecutive eightbytes, first one lowest *)
Theorem c40_stack_args_in_order : forall tys k o,
  nth_error (stack_offsets (determine_arg_locations tys)) k = Some o -> o = 16 + 8 * Z.of_nat k.
Proof. exact stack_args_in_order. Qed.
Print Assumptions c40_stack_args_in_order.

(* by-value aggregates. ppci: every struct argument is an ir blob copied to the stack at its exact
   size, never in registers (and struct results always go through a hidden pointer parameter).
   (a) deviates from the psABI for aggregates of class INTEGER/SSE (at most two eightbytes) *)
Theorem c40_struct_small_refuted :
  places_x [XB 8] <> sysv_arg_places_x [XAggr 8 [INTEGER]].
Proof. exact struct_small_refuted. Qed.
Print Assumptions c40_struct_small_refuted.

(* (b) deviates for class MEMORY aggregates whose size is not a multiple of 8 (no rounding to eightbytes) *)
Theorem c40_struct_memory_size_refuted :
  places_x [XB 20; XB 24] <> sysv_arg_places_x [XAggr 20 []; XAggr 24 []].
Proof. exact struct_memory_size_refuted. Qed.
Print Assumptions c40_struct_memory_size_refuted.

(* (c) agrees for every mixture of scalars and class MEMORY aggregates of a size divisible by 8 *)
Theorem c40_struct_memory_args : forall tys, Forall blob_ok tys ->
  places_x tys = sysv_arg_places_x (map (xsty_of (fun _ => [])) tys).
Proof. exact places_x_memory. Qed.
Print Assumptions c40_struct_memory_args.

(* rsp at the call with blobs in the outgoing area: aligned when every blob size is divisible by 8
   (in particular for any number - odd or even - of 8-byte pushes), not in general: gen_call pads by
   stack_size % 16 *)
Theorem c40_call_alignment_blobs : forall tys, Forall blob_ok tys -> (call_rsp_drop_x tys) mod 16 = 0.
Proof. exact call_alignment_x. Qed.
Print Assumptions c40_call_alignment_blobs.

Theorem c40_call_alignment_blobs_refuted : (call_rsp_drop_x [XB 4]) mod 16 <> 0.
Proof. exact call_blob_alignment_refuted. Qed.
Print Assumptions c40_call_alignment_blobs_refuted.

(* non-vacuity: concrete signatures / frames meet the hypotheses and compute to the expected values *)
Example c40_nonvacuous :
  map abs_loc (determine_arg_locations [I64; F64; I32; PTR; I8; U16; I64; I64; I32])
    = [AReg (PG 7); AReg (PX 0); AReg (PG 6); AReg (PG 2); AReg (PG 1); AReg (PG 8); AReg (PG 9);
       AStack 0; AStack 8]
  /\ stack_passed [I64; F64; I32; PTR; I8; U16; I64; I64; I32] = [I64; I32]
  /\ gen_call [I64; I64; I64; I64; I64; I64; I64] None
     = Ok [MSub 8; MPushArg 6; MArgToReg (mkreg "rdi" 7 R64c) 0; MArgToReg (mkreg "rsi" 6 R64c) 1;
           MArgToReg (mkreg "rdx" 2 R64c) 2; MArgToReg (mkreg "rcx" 1 R64c) 3;
           MArgToReg (mkreg "r8" 8 R64c) 4; MArgToReg (mkreg "r9" 9 R64c) 5; MCall; MAdd 16]
  /\ gen_function_enter [I64; I64; I64; I64; I64; I64; I32; I64]
     = Ok [MArgFromReg 0 (mkreg "rdi" 7 R64c); MArgFromReg 1 (mkreg "rsi" 6 R64c);
           MArgFromReg 2 (mkreg "rdx" 2 R64c); MArgFromReg 3 (mkreg "rcx" 1 R64c);
           MArgFromReg 4 (mkreg "r8" 8 R64c); MArgFromReg 5 (mkreg "r9" 9 R64c);
           MArgFromStack 6 16 32; MArgFromStack 7 24 64]
  /\ get_callee_saved [mkreg "ebx" 3 R32c; mkreg "r15" 15 R64c; mkreg "rax" 0 R64c]
     = [mkreg "rbx" 3 R64c; mkreg "r15" 15 R64c]
  /\ gen_prologue 20 [mkreg "ebx" 3 R32c; mkreg "r15" 15 R64c]
     = [MLabel; MPush (mkreg "rbp" 5 R64c); MMovFpSp; MSub 32; MPush (mkreg "rbx" 3 R64c); MPush (mkreg "r15" 15 R64c)]
  /\ entry_aligned 1000 /\ abi_callee_saved (PG 3) = true
  /\ stack_offsets (determine_arg_locations [I64; I64; I64; I64; I64; I64; I8; F64; F64; F64; F64; F64; F64; F64; F64;
                                              F32; U16; F64]) = [16; 24; 32; 40]
  /\ places_x [XT I64; XB 24; XT F64; XB 32] = [XAt (AReg (PG 7)); XInMem 0 24; XAt (AReg (PX 0)); XInMem 24 32]
  /\ blob_ok (XB 24) /\ call_rsp_drop_x [XB 24; XT I64] = 32.
Proof. vm_compute. repeat split. Qed.
